#!/usr/bin/env python3
"""Executor-vs-CPython self-check (DESIGN II.8): the symbolic executor and its library models run real emsarray functions on *concrete*
inputs; the results must equal what the real code computes under /venv/bin/python.  A disagreement is a defect of the verifier (exit 3),
never a verdict about emsarray.   usage: python3-vt tools/selfcheck.py [seed]"""
import json
import os
import subprocess
import sys
import tempfile

ROOT = os.path.dirname(os.path.dirname(os.path.abspath(__file__)))
sys.path.insert(0, ROOT)
import z3  # noqa: E402

from pyvc import core  # noqa: E402
from pyvc.api import (FIN, NAN, SFloat, Variable, XDataArray, XDataset, add_var, call, cls, fn, method, new_interp)  # noqa: E402
from pyvc.core import PyRaise, SBool, SInt, SReal  # noqa: E402
from pyvc.lib import numpy_ as np  # noqa: E402
from tools.selfcheck_cases import cases  # noqa: E402


def conc(v):
    """concrete python value of an executor value (all inputs were concrete, so every term simplifies to a constant)"""
    if isinstance(v, core.Maybe):
        v = core.resolve_maybe(v)
    if v is None or isinstance(v, (bool, str)):
        return v
    if isinstance(v, int):
        return v
    if isinstance(v, float):
        return None if v != v else v
    if isinstance(v, SFloat):
        k = conc(v.kind)
        if k == NAN:
            return None
        if k != FIN:
            return 'inf'
        return conc(v.val)
    if isinstance(v, (SBool, SInt, SReal)):
        z = z3.simplify(v.z)
        if z3.is_true(z):
            return True
        if z3.is_false(z):
            return False
        if z3.is_int_value(z):
            return z.as_long()
        if z3.is_rational_value(z):
            return float(z.as_fraction())
        if z3.is_algebraic_value(z):
            return float(z.approx(20).as_fraction())
        # last resort: ask the solver (the path condition is concrete)
        s = z3.Solver()
        s.add(*core.ctx().pc)
        assert s.check() == z3.sat
        return conc_z(s.model().eval(v.z, model_completion=True))
    if v is np.MASKED:
        return None
    if hasattr(v, 'z'):
        return conc_z(z3.simplify(v.z))
    raise TypeError(f'cannot make {type(v).__name__} concrete')


def conc_z(z):
    if z3.is_true(z):
        return True
    if z3.is_false(z):
        return False
    if z3.is_int_value(z):
        return z.as_long()
    if z3.is_rational_value(z):
        return float(z.as_fraction())
    raise TypeError(str(z))


def arr_list(a):
    shape = [conc(n) for n in a.shape]

    def rec(prefix, dims):
        if not dims:
            if a.mask_fn is not None and conc(core.truthy(a.mask_fn(tuple(prefix)))):
                return None
            return conc(a.fn(tuple(prefix)))
        return [rec(prefix + [k], dims[1:]) for k in range(dims[0])]
    return rec([], shape)


def bool_array(m):
    return np.asarray([[bool(x) for x in r] for r in m], dtype=np.BOOL) if m and isinstance(m[0], list) else np.asarray(m)


def run(c, case):
    it = new_interp()
    f = case['fn']
    M = 'emsarray.masking'
    if f == 'blur_mask':
        return arr_list(call(it, fn(it, M, 'blur_mask'), np.asarray(case['mask'], dtype=np.BOOL), size=case['size']))
    if f == 'smear_mask':
        return arr_list(call(it, fn(it, M, 'smear_mask'), np.asarray(case['mask'], dtype=np.BOOL), list(case['pad'])))
    if f in ('calculate_grid_mask_bounds', 'mask_grid_data_array'):
        mask = XDataset()
        add_var(mask, 'cell_mask', ('y', 'x'), np.asarray(case['mask'], dtype=np.BOOL))
        if f == 'calculate_grid_mask_bounds':
            b = call(it, fn(it, M, 'calculate_grid_mask_bounds'), mask)
            return {str(k): [conc(v.start), conc(v.stop)] for k, v in b.items()}
        dt = {'int32': np.INT32, 'int16': np.INT16, 'float64': np.FLOAT64}[case.get('dtype', 'float64')]
        data = case['data']
        arr = np.asarray(data, dtype=dt)
        if dt is np.FLOAT64:
            src = arr
            arr = np.NDArray(src.shape, lambda i: np.to_float(src.fn(i)), np.FLOAT64)
        attrs = {k: (SFloat(FIN, v) if isinstance(v, float) else v) for k, v in case.get('attrs', {}).items()}
        da = XDataArray(data=arr, dims=tuple(case['dims']), name='v', attrs=attrs)
        r = call(it, fn(it, M, 'mask_grid_data_array'), mask, da)
        return {'dims': list(r.variable.dims), 'values': arr_list(r.variable.arr), 'attrs': {k: conc(v) for k, v in r.variable.attrs.items()}}
    if f == 'face_node_array':
        faces, si, fill = case['faces'], case['start_index'], case['fill']
        maxn = max(map(len, faces))
        rows = [[(x + si) for x in fc] + [None] * (maxn - len(fc)) for fc in faces]
        if fill == 'nan':
            vals = [[SFloat(NAN, 0) if x is None else SFloat(FIN, x) for x in r] for r in rows]
            dt = np.FLOAT64
        else:
            vals = [[-999 if x is None else x for x in r] for r in rows]
            dt = np.INT32
        if case['transposed']:
            vals = [list(r) for r in zip(*vals)]
        arr = np.asarray(vals, dtype=dt)
        attrs = {'cf_role': 'face_node_connectivity', 'start_index': si}
        if fill == 'int_fill':
            attrs['_FillValue'] = -999
        ds = XDataset(attrs={'Conventions': 'UGRID-1.0'})
        add_var(ds, 'mesh', (), np.NDArray((), lambda i: 0, np.INT32), {'cf_role': 'mesh_topology', 'topology_dimension': 2, 'node_coordinates': 'node_x node_y',
                                                                         'face_node_connectivity': 'face_node', 'face_dimension': 'nface'})
        nn = case['nnode']
        add_var(ds, 'node_x', ('nnode',), np.asarray([SFloat(FIN, k * 1.0) for k in range(nn)], dtype=np.FLOAT64))
        add_var(ds, 'node_y', ('nnode',), np.asarray([SFloat(FIN, k * 0.5) for k in range(nn)], dtype=np.FLOAT64))
        add_var(ds, 'face_node', ('maxn', 'nface') if case['transposed'] else ('nface', 'maxn'), arr, attrs,
                {'dtype': np.INT32, '_FillValue': -999} if fill == 'nan' else {})
        topo = it.instantiate(cls(it, 'emsarray.conventions.ugrid', 'Mesh2DTopology'), [ds], {})
        return arr_list(it.getattr(topo, 'face_node_array'))
    if f == 'normalize_depth_variables':
        ds = XDataset()
        add_var(ds, 'temp', ('k', 'x'), np.asarray([[SFloat(FIN, v) for v in r] for r in case['temp']], dtype=np.FLOAT64))
        add_var(ds, 'zc', ('k',), np.asarray([SFloat(FIN, v) for v in case['z']], dtype=np.FLOAT64), {'positive': case['positive']}, coord=True)
        out = call(it, fn(it, 'emsarray.operations.depth', 'normalize_depth_variables'), ds, ['zc'], positive_down=case['p'], deep_to_shallow=case['o'])
        return {'z': arr_list(out._vars['zc'].arr), 'positive': out._vars['zc'].attrs.get('positive'), 'temp': arr_list(out._vars['temp'].arr)}
    if f == 'cf1d_index':
        ny, nx = case['shape']
        ds = XDataset()
        add_var(ds, 'lat', ('lat',), np.asarray([SFloat(FIN, k * 1.0) for k in range(ny)], dtype=np.FLOAT64), {'units': 'degrees_north'}, coord=True)
        add_var(ds, 'lon', ('lon',), np.asarray([SFloat(FIN, k * 1.0) for k in range(nx)], dtype=np.FLOAT64), {'units': 'degrees_east'}, coord=True)
        add_var(ds, 'temp', ('lat', 'lon'), np.asarray([[SFloat(FIN, 0.0)] * nx for _ in range(ny)], dtype=np.FLOAT64))
        conv = it.instantiate(cls(it, 'emsarray.conventions.grid', 'CFGrid1D'), [ds], {})
        return {'wind': [[conc(x) for x in method(it, conv, 'wind_index', n)] for n in range(ny * nx)],
                'ravel': [conc(method(it, conv, 'ravel_index', (j, i))) for j in range(ny) for i in range(nx)]}
    if f == 'np_view_store':
        a = np.asarray([[10, 11], [20, 21], [30, 31]])
        how = case['how']
        if how == 'transpose-row-mask':
            x, y = list(it.iterate(np.transpose(a)))
            x._setitem(np.asarray([True, False, True], dtype=np.BOOL), -1)
        elif how == 'slice-element':
            v = a._getitem((slice(1, 3),))
            v._setitem((0, 1), -5)
        elif how == 'row-slice':
            v = a._getitem((2,))
            v._setitem((0,), 7)
        else:
            v = a._getitem((slice(None), 1))
            v._setitem((1,), -9)
        return {'a': arr_list(a)}
    if f == 'np_median':
        m = np.np_median(np.asarray(case['vals']))
        import z3 as _z3
        v = m.val
        v = float(_z3.simplify(core.zreal(v)).as_fraction()) if hasattr(v, 'z') or not isinstance(v, (int, float)) else float(v)
        return {'m': v}
    if f == 'np_roll':
        import numpy
        return {'r': arr_list(np.np_roll(np.asarray(numpy.arange(12).reshape(3, 4).tolist()), case['shift'], axis=case['axis']))}
    if f == 'np_clip':
        return {'r': arr_list(np.np_clip(np.asarray([-4, -1, 0, 2, 3, 7]), case['lo'], case['hi']))}
    if f == 'np_where':
        wrap = lambda v: np.asarray(v) if isinstance(v, list) else v
        r = np.np_where(np.asarray(case['cond'], dtype=np.BOOL), wrap(case['x']), wrap(case['y']))
        return {'r': arr_list(r), 'kind': r.dtype.kind}
    if f == 'np_bool_arith':
        m = np.asarray(case['mask'], dtype=np.BOOL)
        ints = np.asarray(list(range(len(case['mask']))))
        return {'sub': arr_list(case['n'] - m), 'add': arr_list(m + ints), 'mul': arr_list(ints * m), 'app': arr_list(np.np_append(ints, ints.fn((0,))))}
    if f == 'np_linspace':
        return {'r': arr_list(np.linspace(case['a'], case['b'], case['n']))}
    if f == 'np_unique_small':
        u, first, inv, cnt = np.np_unique(np.asarray(case['vals']), return_index=True, return_inverse=True, return_counts=True)
        return {'u': arr_list(u), 'first': arr_list(first), 'inv': arr_list(inv), 'cnt': arr_list(cnt)}
    if f == 'np_slice_store':
        a = np.asarray([[10, 11], [20, 21], [30, 31], [40, 41]])
        v = case['val']
        a._setitem((slice(case['lo'], case['hi']),), np.asarray(v) if isinstance(v, list) else v)
        return {'a': arr_list(a)}
    if f == 'np_mask_slice':
        import numpy
        a = np.asarray(numpy.arange(12).reshape(3, 4).tolist())
        m = np.asarray(case['mask'], dtype=np.BOOL)
        idx = (m, slice(None, case['stop'])) if case['axis'] == 0 else (slice(None, case['stop']), m)
        return {'r': arr_list(a._getitem(idx))}
    if f == 'np_diff':
        kw = {k: case[k] for k in ('prepend', 'append') if case[k] is not None}
        return {'d': arr_list(np.diff(np.asarray(case['vals']), **kw))}
    if f == 'np_reshape':
        import numpy
        vals = numpy.arange(int(numpy.prod(case['shape'])))
        if case['layout'] == 'F' and len(case['shape']) > 1:
            a2 = np.transpose(np.asarray(vals.reshape(case['shape'][::-1]).tolist()))
        else:
            a2 = np.asarray(vals.reshape(case['shape']).tolist())
        return {'r': arr_list(a2.reshape(tuple(case['new']), order=case['order']))}
    raise KeyError(f)


def close(a, b):
    if isinstance(a, float) or isinstance(b, float):
        return a is not None and b is not None and not isinstance(a, (str, list, dict)) and abs(float(a) - float(b)) <= 1e-9 * max(1.0, abs(float(b)))
    if isinstance(a, (list, tuple)) and isinstance(b, (list, tuple)):
        return len(a) == len(b) and all(close(x, y) for x, y in zip(a, b))
    if isinstance(a, dict) and isinstance(b, dict):
        return set(a) == set(b) and all(close(a[k], b[k]) for k in a)
    return a == b


RULE_CASES = [
    # (name, loop body over a sequence of symbolic length, expected: 'unsupported' | 'collected' | 'events')
    ('store into a dict from outside the loop', "for x in seq:\n    d['k'] = x\n", 'unsupported'),
    ('store into an attribute of an object from outside the loop', "for x in seq:\n    box.last = x\n", 'unsupported'),
    ('store into an array from outside the loop', "for x in seq:\n    arr[0] = x\n", 'unsupported'),
    ('list mutator other than append on a list from outside the loop', "for x in seq:\n    lst.insert(0, x)\n", 'unsupported'),
    ('variable carried from one iteration to the next', "total = 0\nfor x in seq:\n    total = total + x\n", 'unsupported'),
    ('augmented assignment carried between iterations', "n = 0\nfor x in seq:\n    n += 1\n", 'unsupported'),
    ('append to a list from outside the loop', "for x in seq:\n    lst.append(x + 1)\n", 'collected'),
    ('append on some iterations only', "for x in seq:\n    if x > 3:\n        lst.append(x)\n", 'collected'),
    ('reading a collected list afterwards', "for x in seq:\n    lst.append(x)\nn = len(lst)\n", 'unsupported'),
    ('objects created inside the iteration may be modified', "for x in seq:\n    tmp = [x]\n    tmp.append(2)\n    m = {}\n    m['a'] = tmp\n    lst.append(m)\n", 'collected'),
    ('nonlocal of the enclosing function rebound by a helper called in the loop',
     "def outer():\n    count = 0\n    def bump(x):\n        nonlocal count\n        count = count + x\n    for x in seq:\n        bump(x)\n    return count\nr = outer()\n", 'unsupported'),
    ('add to a set from outside the loop', "acc = set()\nfor x in seq:\n    acc.add(x)\n", 'unsupported'),
    ('events only', "for x in seq:\n    rec(x)\n", 'events'),
]
RULE_PRELUDE = """
class Box:
    pass
box = Box()
"""


def engine_rules():
    """The loop rules of the executor (FOREACH frame condition, COLLECT, empty-sequence path) on small programs with a known answer."""
    from pyvc.lib.seq import SymSeq
    from pyvc.core import mk_int
    bad = 0
    for name, body, want in RULE_CASES:
        seen = {'nonempty': [], 'empty': []}

        def scenario(c, body=body, seen=seen):
            it = new_interp()
            n = c.fresh_int('n')
            c.assume(n >= 0)
            vals = c.fresh_fn('val', z3.IntSort(), z3.IntSort())
            seq = SymSeq(n, lambda k: mk_int(vals(core.zint(k))), 'list')
            lst = core.TList()
            d = core.TDict()
            arr = np.asarray([1, 2, 3])
            events = []
            from pyvc.interp import model
            env = it.run_snippet('emsarray.utils', RULE_PRELUDE + body, {'seq': seq, 'lst': lst, 'd': d, 'arr': arr, 'rec': model(lambda x: c.event('rec', x))})
            chunks, prefix = core.collected_chunks(lst)
            empty = z3.is_true(z3.simplify(z3.And(*c.pc + [n.z == 0]) if False else z3.BoolVal(False)))
            s = z3.Solver()
            s.add(*[p for p in c.pc])
            s.add(n.z > 0)
            is_empty_path = s.check() == z3.unsat
            kind = 'collected' if chunks else ('events' if any(e[0] == 'foreach' for e in c.events) else 'plain')
            seen['empty' if is_empty_path else 'nonempty'].append((kind, len(prefix)))
        res = core.explore(scenario, max_paths=50)
        if want == 'unsupported':
            ok = bool(res.unsupported) and not seen['nonempty']
        else:
            ok = not res.unsupported and seen['nonempty'] and all(k == want for k, _ in seen['nonempty']) \
                and len(seen['empty']) == 1 and seen['empty'][0][0] == 'plain'
        if not ok:
            bad += 1
            print(f'SELFCHECK-RULE-MISMATCH {name}: expected {want}, got unsupported={res.unsupported[:1]} paths={seen}')
    print(f'SELFCHECK loop-rule cases={len(RULE_CASES)} mismatches={bad}')
    return bad


def invariant_rule():
    """The LOOP-INVARIANT rule on a summation loop: a correct invariant is accepted, a wrong body / a wrong entry state is refuted."""
    from pyvc import vc
    from pyvc.api import LoopSpec, loop_invariant
    from pyvc.lib.seq import SymSeq
    from pyvc.core import mk_int
    bad = 0
    cases = [('sum of the items', 'def f(seq):\n    total = 0\n    for x in seq:\n        total = total + x\n    return total\n', True),
             ('body adds one more than the invariant says', 'def f(seq):\n    total = 0\n    for x in seq:\n        total = total + x + 1\n    return total\n', False),
             ('entry state differs from the invariant', 'def f(seq):\n    total = 5\n    for x in seq:\n        total = total + x\n    return total\n', False)]
    for name, src, want_ok in cases:
        def scenario(c, src=src):
            it = new_interp()
            n = c.fresh_int('n')
            c.assume(n >= 0)
            vals = c.fresh_fn('val', z3.IntSort(), z3.IntSort())
            S = c.fresh_fn('S', z3.IntSort(), z3.IntSort())
            seq = SymSeq(n, lambda k: mk_int(vals(core.zint(k))), 'list')
            env = it.run_snippet('emsarray.utils', src, {})
            f = env['f']

            def init(e):
                c.check('invariant on entry: total = S(0) = 0', core.s_eq(e.lookup('total'), 0))
                c.assume(S(0) == 0)

            def havoc(e, k):
                c.assume(S(core.zint(k) + 1) == S(core.zint(k)) + vals(core.zint(k)))
                e.vars['total'] = mk_int(S(core.zint(k)))

            def step(e, k):
                c.check('invariant preserved: total = S(k + 1)', core.s_eq(e.lookup('total'), mk_int(S(core.zint(k) + 1))))

            def final(e, m):
                e.vars['total'] = mk_int(S(core.zint(m)))
            loop_invariant(it, f, 'for x in seq', LoopSpec(init, havoc, step, final))
            r = call(it, f, seq)
            c.check('the result is S(n)', core.s_eq(r, mk_int(S(n.z))))
        res = core.explore(scenario, max_paths=10)
        verdicts, _ = vc.discharge(res.obligations)
        ok = not res.unsupported and len(verdicts) == 3 and all(v.status == 'discharged' for v in verdicts)
        refuted = any(v.status == 'refuted' for v in verdicts)
        if (want_ok and not ok) or (not want_ok and not refuted):
            bad += 1
            print(f'SELFCHECK-RULE-MISMATCH invariant rule, {name}: {[(v.name, v.status) for v in verdicts]} unsupported={res.unsupported[:1]}')
    print(f'SELFCHECK invariant-rule cases={len(cases)} mismatches={bad}')
    return bad


def main():
    seed = int(sys.argv[1]) if len(sys.argv) > 1 else 0
    if engine_rules() or invariant_rule():
        return 3
    with tempfile.TemporaryDirectory() as tmp:
        out = os.path.join(tmp, 'native.json')
        env = dict(os.environ, PYTHONWARNINGS='ignore')
        env.pop('PYTHONPATH', None)
        if os.environ.get('EMSARRAY_SRC'):
            env['PYTHONPATH'] = os.environ['EMSARRAY_SRC']       # development runs on a scratch tree: both sides read the same tree
        r = subprocess.run(['/venv/bin/python', os.path.join(ROOT, 'harness', 'selfcheck_native.py'), out, str(seed)], capture_output=True, text=True, env=env, cwd=ROOT)
        if r.returncode or not os.path.exists(out):
            print('SELFCHECK-ERROR native side failed\n' + r.stderr[-2000:])
            return 3
        native = json.load(open(out))
    bad = 0
    n = 0
    for case in cases(seed):
        n += 1
        got = {}

        def scenario(c, case=case, got=got):
            try:
                got['v'] = {'ok': json.loads(json.dumps(run(c, case)))}
            except PyRaise as e:
                got['v'] = {'raise': getattr(e.exc.cls, '__name__', getattr(e.exc.cls, 'name', str(e.exc.cls)))}
        try:
            res = core.explore(scenario, max_paths=4)
            if len(res.paths) != 1 or res.unsupported:
                got['v'] = {'executor': f'{len(res.paths)} paths, unsupported={res.unsupported[:1]}'}
        except Exception as e:      # a crash of the executor on concrete input is a verifier defect too
            got['v'] = {'executor-crash': f'{type(e).__name__}: {e}'[:200]}
        want = native.get(case['id'])
        if not close(got.get('v'), want):
            bad += 1
            print(f"SELFCHECK-MISMATCH {case['id']}: executor {json.dumps(got.get('v'))[:300]} vs CPython {json.dumps(want)[:300]}")
    print(f'SELFCHECK cases={n} mismatches={bad}')
    return 3 if bad else 0


if __name__ == '__main__':
    sys.exit(main())
