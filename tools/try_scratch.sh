#!/bin/sh
# tools/try_scratch.sh <seeded dir | patch file> <prop> [extra check args]: apply the patch to the scratch worktree /tmp/pristine (created
# with `git -C /repo worktree add --detach /tmp/pristine HEAD`), run the check against that tree (obligations and native part), undo.
# Development aid only: registered commands always read /repo.
p="$1"; prop="$2"; shift 2
[ -d "$p" ] && p="$p/patch.diff"
git -C /tmp/pristine checkout -q -- . && git -C /tmp/pristine apply "$(realpath "$p")" || { echo "PATCH FAILED"; exit 9; }
mkdir -p /tmp/dev-evidence
EMSARRAY_SRC=/tmp/pristine/src PYVC_EVIDENCE_DIR=/tmp/dev-evidence "$(dirname "$0")/../check" "$prop" "$@"
rc=$?
git -C /tmp/pristine checkout -q -- .
exit $rc
