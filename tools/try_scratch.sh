#!/bin/sh
# tools/try_scratch.sh <seeded dir | patch file> <prop> [extra check args]: apply the patch to the scratch worktree /tmp/pristine (created
# with `git -C /repo worktree add --detach /tmp/pristine HEAD`), run the check against that tree (obligations and native part), undo.
# Development aid only: registered commands always read /repo.
p="$1"; prop="$2"; shift 2
S="${SCRATCH:-/tmp/pristine}"      # SCRATCH=/tmp/other-worktree: a second scratch tree, when the first one is busy
[ -d "$p" ] && p="$p/patch.diff"
git -C "$S" checkout -q -- . && git -C "$S" apply "$(realpath "$p")" || { echo "PATCH FAILED"; exit 9; }
mkdir -p /tmp/dev-evidence
EMSARRAY_SRC="$S/src" PYVC_EVIDENCE_DIR="${PYVC_EVIDENCE_DIR:-/tmp/dev-evidence}" "$(dirname "$0")/../check" "$prop" "$@"
rc=$?
git -C "$S" checkout -q -- .
exit $rc
