"""tools/agent_prompt.py Cxx -> the prompt given to a fresh sub-agent that writes a seeded change (only the property text, nothing of /verif)."""
import json
import sys
pid = sys.argv[1]
for line in open('/verif/properties.jsonl'):
    d = json.loads(line)
    if d['id'] == pid:
        print(f"""You are helping test a verification effort for the Python library csiro-coasts/emsarray. You have your own scratch git worktree of the library at /tmp/agent-{pid} (source under /tmp/agent-{pid}/src/emsarray, tests under /tmp/agent-{pid}/tests). Work ONLY inside /tmp/agent-{pid} and /tmp/agent-{pid}-out (create it). Do NOT read or touch /repo or /verif. Do NOT use `git stash` (it is shared between worktrees); if you need a pristine copy make one with `git -C /tmp/agent-{pid} archive HEAD | tar -x -C <dir>` and remove it afterwards. Python with all dependencies: /venv/bin/python; run code against your worktree with PYTHONPATH=/tmp/agent-{pid}/src. There is no network. The cfunits library cannot be imported here.

Here is a semantic property of the library that should hold:

TITLE: {d['title']}
STATEMENT: {d['statement']}
QUANTIFIED OVER: {d['quantifier']['text']}
CODE ANCHORS: {json.dumps(d['anchors']['mechanism'])}

Task: produce ONE small, realistic change to the library source (the kind of slip or 'optimisation' a maintainer could plausibly make) that BREAKS this property, while the library still imports and the existing test suite still passes. IMPORTANT: run the FULL suite both ways (cd /tmp/agent-{pid} && PYTHONPATH=/tmp/agent-{pid}/src /venv/bin/python -m pytest -q -p no:cacheprovider --timeout=900 --continue-on-collection-errors 2>&1 | grep -E '^(FAILED|ERROR)' | sort) and make sure the list of FAILED/ERROR test ids is IDENTICAL with and without your change (about 25 tests fail at baseline for unrelated reasons). The change must need something specific to manifest: an unusual input, a multi-step sequence, or two cooperating sites that each look fine alone - NOT something ordinary use on the sample datasets would expose at once. Prefer changes in the functions named in the anchors, in loops / bookkeeping code.

Deliver in /tmp/agent-{pid}-out/:
 - patch.diff : `git -C /tmp/agent-{pid} diff` of your change (source only, no test edits)
 - demo.py : a small standalone program (run as `PYTHONPATH=<worktree>/src /venv/bin/python demo.py`) that exits 0 on the unchanged library and exits non-zero (assertion failure with a clear message) with your change applied. It must build its own input dataset in memory (xarray/numpy), or use files under the worktree's tests/datasets via a path relative to the emsarray package location.
 - notes.txt : 5-10 lines: what the change does, what it needs in order to manifest, which tests you ran and their result with and without the change.
Verify demo.py both ways yourself. Leave the worktree with your change applied (uncommitted). Be quick: finish within 8 minutes; a simple, confirmed change is better than an ambitious unconfirmed one. Report back in 5 lines.""")
