"""Concrete cases shared by both sides of the executor-vs-CPython self-check (tools/selfcheck.py): JSON-able inputs only."""
import itertools
import random


def cases(seed=0, n=6):
    rng = random.Random(seed)
    out = []
    for k in range(n):
        ny, nx = rng.randint(1, 4), rng.randint(1, 5)
        m = [[rng.random() < 0.35 for _ in range(nx)] for _ in range(ny)]
        out.append({'id': f'blur{k}', 'fn': 'blur_mask', 'mask': m, 'size': rng.randint(1, 3)})
        out.append({'id': f'smear{k}', 'fn': 'smear_mask', 'mask': m, 'pad': [rng.random() < 0.5, rng.random() < 0.5]})
        if any(any(r) for r in m):
            out.append({'id': f'bounds{k}', 'fn': 'calculate_grid_mask_bounds', 'mask': m})
            data = [[[round(rng.uniform(-5, 5), 3) for _ in range(nx)] for _ in range(ny)] for _ in range(2)]
            out.append({'id': f'maskarr{k}', 'fn': 'mask_grid_data_array', 'mask': m, 'data': data, 'dims': ['t', 'y', 'x']})
            dataT = [[[data[t][j][i] for t in range(2)] for j in range(ny)] for i in range(nx)]
            out.append({'id': f'maskarrT{k}', 'fn': 'mask_grid_data_array', 'mask': m, 'data': dataT, 'dims': ['x', 'y', 't']})
            ints = [[rng.randint(-9, 9) for _ in range(nx)] for _ in range(ny)]
            out.append({'id': f'maskint{k}', 'fn': 'mask_grid_data_array', 'mask': m, 'data': ints, 'dims': ['y', 'x'], 'dtype': 'int32', 'attrs': {'_FillValue': -99}})
            # a short variable whose missing value is stored as a double the short type cannot hold: where() promotes to float64
            out.append({'id': f'maskwide{k}', 'fn': 'mask_grid_data_array', 'mask': m, 'data': ints, 'dims': ['y', 'x'], 'dtype': 'int16', 'attrs': {'missing_value': 1e35}})
    # connectivity decoding
    faces = [[0, 1, 4, 3], [1, 2, 5], [1, 5, 4], [3, 4, 7, 6]]
    for si, fill, tr in itertools.product((0, 1), ('int_fill', 'nan'), (False, True)):
        out.append({'id': f'decode-{si}-{fill}-{tr}', 'fn': 'face_node_array', 'faces': faces, 'nnode': 8, 'start_index': si, 'fill': fill, 'transposed': tr})
    # depth normalisation
    for pos, z, p, o in itertools.product(('up', 'down', 'DOWN'), ([0.5, 1.5, 3.0], [-3.0, -1.5, -0.5], [3.0, 1.5, 0.5]), (None, True, False), (None, True, False)):
        out.append({'id': f'depth-{pos}-{z[0]}-{p}-{o}', 'fn': 'normalize_depth_variables', 'positive': pos, 'z': z, 'p': p, 'o': o,
                    'temp': [[round(rng.uniform(0, 9), 2) for _ in range(2)] for _ in z]})
    # wind / ravel index algebra
    for shape in ([3, 4], [1, 5], [4, 1]):
        out.append({'id': f'index-{shape}', 'fn': 'cf1d_index', 'shape': shape})
    # numpy reshape in C / Fortran / 'A' index order on C- and Fortran-contiguous data (NP-RESHAPE-ORDER, NP-MEMORY-LAYOUT)
    for layout, order, (shape, new) in itertools.product('CF', 'CFA', (([2, 6], [2, 2, 3]), ([3, 4], [12]), ([2, 3, 2], [6, 2]), ([6], [2, 3]))):
        out.append({'id': f'reshape-{layout}-{order}-{shape}-{new}', 'fn': 'np_reshape', 'layout': layout, 'order': order, 'shape': shape, 'new': new})
    # stores through views reach the parent array (NP-VIEW-STORE): a row of a transposed array, a slice, an integer row
    for how in ('transpose-row-mask', 'slice-element', 'row-slice', 'column'):
        out.append({'id': f'viewstore-{how}', 'fn': 'np_view_store', 'how': how})
    for k, (vals, pre, post) in enumerate((([0, 1, 1, 0, 1], 0, None), ([1, 1, 0], 0, 0), ([3, 5, 4], None, None), ([0, 0, 1], None, 0), ([1], 0, None))):
        out.append({'id': f'diff{k}', 'fn': 'np_diff', 'vals': vals, 'prepend': pre, 'append': post})
    # a[mask, :n] / a[:n, mask]: one boolean mask with basic slices on the other axes
    for k, (mask, axis, stop) in enumerate((([True, False, True], 0, 2), ([False, False, False], 0, 1), ([True, True, False, True], 1, 2), ([False, True, True], 0, 4))):
        out.append({'id': f'maskslice{k}', 'fn': 'np_mask_slice', 'mask': mask, 'axis': axis, 'stop': stop})
    # a[lo:hi] = rows / scalar (NP-SLICE-STORE)
    for k, (lo, hi, val) in enumerate(((1, 3, [[7, 8], [9, 10]]), (0, 1, [[5, 6]]), (2, 2, 4), (None, 2, -1), (1, None, [[3, 3]]), (-2, None, [[1, 2], [3, 4]]))):
        out.append({'id': f'slicestore{k}', 'fn': 'np_slice_store', 'lo': lo, 'hi': hi, 'val': val})
    # numpy.unique with return_index / return_inverse / return_counts on short vectors (NP-UNIQUE-SMALL)
    for k, vals in enumerate(([3, 1, 3], [2, 2, 2], [5], [1, 2, 3, 0], [4, 1, 1, 4], [7, 3])):
        out.append({'id': f'uniquesmall{k}', 'fn': 'np_unique_small', 'vals': vals})
    for k, (a, b, n) in enumerate(((0.0, 1.0, 5), (-2.5, 7.25, 4), (3.0, 3.0, 3), (1.0, 2.0, 1), (1.0, 2.0, 0), (5.0, -5.0, 11))):
        out.append({'id': f'linspace{k}', 'fn': 'np_linspace', 'a': a, 'b': b, 'n': n})
    for k, (mask, n) in enumerate((([True, False, True], 4), ([False, False], 7), ([True], 0))):
        out.append({'id': f'boolarith{k}', 'fn': 'np_bool_arith', 'mask': mask, 'n': n})
    for k, (cond, x, y) in enumerate((([True, False, True], [1.5, 2.5, 3.5], -1.0), ([[True, False], [False, True]], [[1, 2], [3, 4]], [10, 20]), ([False, True], [1, 2], 0.5),
                                      ([True, False], 7, [1, 2]))):
        out.append({'id': f'where{k}', 'fn': 'np_where', 'cond': cond, 'x': x, 'y': y})
    for k, (shift, axis) in enumerate(((1, 0), (-1, 0), (1, 1), (-1, 1), (2, 1), (0, 0), (5, 1))):
        out.append({'id': f'roll{k}', 'fn': 'np_roll', 'shift': shift, 'axis': axis})
    for k, (lo, hi) in enumerate(((0, None), (None, 3), (2, 5), (-3, 0))):
        out.append({'id': f'clip{k}', 'fn': 'np_clip', 'lo': lo, 'hi': hi})
    for k, vals in enumerate(([-1.0, 5.0], [3.0], [-3.0, -1.0, 2.0, 4.0], [4.0, -1.0, 0.0], [0.0, 10.0, -2.0, -7.0, 1.5, 2.5])):
        out.append({'id': f'median{k}', 'fn': 'np_median', 'vals': vals})
    return out
