"""Generate /verif/MANIFEST.json from the table below (run after adding a property check)."""
import json
import os

ROOT = os.path.dirname(os.path.dirname(os.path.abspath(__file__)))
props = [json.loads(l) for l in open(os.path.join(ROOT, 'properties.jsonl'))]

TRUST = ('Trusted base: the library contracts in pyvc/lib (numpy / xarray / shapely / stdlib index-function '
         'definitions, ids listed in the evidence file, validated boundedly against the real libraries), CPython '
         'semantics of the executed subset as implemented by pyvc/interp.py, the input-validity predicates in '
         'contracts/inputs.py, z3/cvc5. ')

CHECKS = {
    'C01': dict(
        category='proof',
        text='Every obligation (wind/ravel inverses, row-major order, grid size, grid kinds, rejection of out-of-range '
             'linear and native indexes, default kind) is generated from the real bodies of ravel_index / wind_index / '
             'pack_index / unpack_index / grid_dimensions / grid_kinds re-read from /repo/src on every run and '
             'discharged by z3 for all extents and all indexes, for 11 convention x encoding configurations x every '
             'grid kind. A bounded native stand-in re-checks every index of small datasets and supplies replayable inputs.',
        text_extra='Decision table rows added: meshes with a face-edge (and face-face) table but no edge dimension have no edge grid. '
                   'Configuration added: CF 2-D grid whose longitude stores its dimensions the other way round than latitude (the grid is the latitude variable\'s).',
        note=TRUST + 'Assumed: NP-RAVEL-MI, NP-UNRAVEL, NP-PROD contracts; integers mathematical (A-INT).',
        technique='AST-generated verification conditions over the real source, discharged by z3 (contract-based deductive verification); bounded native replay',
        design_ref='Part III C01'),
    'C03': dict(
        category='proof',
        text='ravel / wind postconditions (element n of the flattened variable is the value at row-major cell n; '
             'wind(ravel(x)) == x with grid dimensions restored in convention order and other dimensions untouched; '
             'ravel(wind(y)) == y for the linear dimension at every position, by axis / negative axis / name; default '
             'and colliding linear names; refusal of variables on no grid; size mismatch) are proved at Skolem indexes '
             'for all extents over the real bodies of move_dimensions_to_end, ravel_dimensions, wind_dimension, '
             'splice_tuple, find_unused_dimension, get_grid_kind, ravel, wind, for every permutation of up to 2 '
             '(thorough: 3) extra dimensions on 9 convention x grid-kind configurations. Values are an uninterpreted '
             'sort, so "moved, never altered" holds by construction.',
        note=TRUST + 'Assumed: NP-RESHAPE (C order), NP-TRANSPOSE, XR-TRANSPOSE, XR-DATAARRAY-CTOR contracts.',
        technique='AST-generated verification conditions over the real source, Skolem-index array obligations discharged by z3; bounded native replay',
        design_ref='Part III C03'),
    'C13': dict(
        category='proof',
        text='normalize_depth_variables (real body) is executed symbolically for a strictly monotonic symbolic depth '
             'axis of any length >= 2, positive attribute {down, up, DOWN, Up, absent}, dimension or auxiliary '
             'coordinate, bounds absent / data variable / coordinate, all 9 option pairs: every level keeps its '
             'physical depth (values and attribute agree), requested order holds, data and bounds move with the '
             'coordinate, unset options leave that aspect untouched, the input dataset is not modified (every '
             'attribute, encoding and value compared), and a second application changes nothing. Also: an auxiliary depth coordinate on a '
             'dimension that has its own index coordinate (layer numbers).',
        note=TRUST + 'Assumed: XR-INDEXES / PD-INDEX-MONOTONIC, A-REAL (negation/comparison of reals), XR-COPY-SHALLOW, XR-ASSIGN, XR-ASSIGN-COORDS, '
             'XR-ISEL (slice) contracts; with the attribute absent the values share one sign so the documented '
             'majority guess is determined.',
        technique='AST-generated verification conditions over the real source discharged by z3 (contract-based deductive verification); bounded native replay',
        design_ref='Part III C13'),
    'C20': dict(
        category='proof',
        text='Bounds grammar: geometry_argument / bounds_argument (real bodies, pattern text NUMBER/DECIMAL/bounds_re taken '
             'from the source and translated from sre_parse with Python\'s real \\d, \\s classes) are executed on an '
             'unconstrained symbolic string: text taken as bounds is in the documented language, nothing trails the '
             'last field, box components are the fields in order, everything else is refused (bounds_argument) or '
             'goes to the GeoJSON / file fallbacks in that order and fails only with ArgumentTypeError; a regex-inclusion '
             'lemma gives completeness. Handlers: symbolic execution of the three Command.handle bodies against the '
             'contracts of their callees yields exactly the library-call trace with the options passed through; '
             'guess_format maps exactly the five extensions; nice_console_errors maps OSError/CommandException/other/'
             'KeyboardInterrupt to 2/code/3/1; every CommandException site has a non-zero code (AST scan). End-to-end '
             'equality of files with library results is a bounded native stand-in.',
        text_extra='Also proved: whenever shapely accepts the GeoJSON value, geometry_argument returns that very geometry (no tidying, no rejection). extract-points: the table handed to extract_dataframe is the very object read_csv returned -- no row removed, reordered or relabelled on the way. Geometry files: the argument of shape() is the document as json.load read it (no rounding, no re-building).',
        note=TRUST + 'Assumed: PY-RE (regex semantics; any consistent group decomposition), PY-FLOAT-GRAMMAR, PY-JSON, SH-SHAPE, '
             'SH-BOX; contracts/cli.py stubs for open_dataset, extract_dataframe, to_netcdf_with_fixes, the four writers '
             '(verified under C05/C15/C17 or IO); argparse wiring (main, add_arguments) only exercised by the bounded '
             'end-to-end runs. "No partial output after a late failure" is not claimed.',
        technique='AST-generated verification conditions over the real source with z3 string/regex theory; trace obligations against callee contracts; bounded native end-to-end replay',
        design_ref='Part III C20'),
    'C17': dict(
        category='proof',
        text='format_time_units_for_ems (real body) is executed for every UTC offset T in [-720, 840] minutes (symbolic, '
             'split into 7 ranges) and every civil epoch with year 1..9999: it never raises, the produced text has the '
             'form <unit> since YYYY-MM-DD HH:MM:SS <sign>HH:MM (decided on the digit skeleton of the constructed string), '
             'and re-reading it with the CF grammar gives the same civil fields and the same offset, hence the same '
             'instant. fix_time_units_for_ems rewrites exactly the units attribute of the named variable; '
             'disable_default_fill_value / to_netcdf_with_fixes: decision table over dtype kinds x fill-value placement '
             '(incl. falsy fill values), suppression lands in the written copy, caller dataset untouched; '
             'Convention.to_netcdf / time_coordinate (the caller\'s keyword arguments are handed on unchanged and nothing is added, for time '
             'axes stored as int32 / int64 / float64). netCDF write/reopen identity is a bounded native stand-in.',
        note=TRUST + 'Assumed: CF-PARSE-TZ / CF-DATESPLIT / CF-NUM2PYDATE (cftime grammar, validated natively against cftime on '
             '279 strings every run), DT-STRFTIME, DT-ASTIMEZONE, PYTZ-FIXEDOFFSET, XR-MAYBE-PROMOTE, XR-COPY-SHALLOW, '
             'netCDF4 attribute access; civil time as an uninterpreted function (equal fields give equal instants); '
             'IO-NETCDF-ROUNDTRIP stated only.',
        technique='AST-generated verification conditions over the real source (integer arithmetic on structurally tracked formatted strings), z3; exhaustive native run over all 1561 offsets',
        design_ref='Part III C17'),
    'C11': dict(
        category='proof',
        text='Decision tables: check_dataset of the six built-in classes (real bodies) is executed on 32 structural dataset '
             'variants (each convention and its near-misses: one distinguishing attribute / variable removed or altered; '
             'extents and contents symbolic) and equals the stated predicate; guess_convention / get_dataset_convention '
             'pick the highest specificity for both entry-point orders; with two registered toy conventions over '
             '{None, LOW, HIGH} x both registration orders the registered one wins ties. Binding: every sequence over '
             '{access, construct+bind, copy, access on copy, bind again} up to length 3 (thorough 4) is executed on the '
             'real accessor / State / bind code: first attachment is kept, second bind refused, copies independent; an AST '
             'scan shows State.bind_convention is the only store to .convention and Convention.bind its only caller; '
             'a taint scan finds no hash/id/clock/randomness/set iteration in detection code.',
        text_extra='Also proved: a class already known through its entry point can be registered by hand and then wins ties (decision table row with a tie between two built-in conventions). Also proved for registered conventions answering arbitrary integers (not only the three named levels): the highest answer wins, ties by registration order then entry-point order. Two different classes with the same module and qualified name (products of one class factory) are both candidates. Also: a convention constructed by hand on another dataset with its own coordinate names between two detections changes neither the class-level defaults nor any check_dataset answer nor the winner.',
        note=TRUST + 'Assumed: XR-ACCESSOR-CACHE (one cached accessor object per Dataset object, copies start empty), '
             'ENTRYPOINTS-DETERMINISTIC, PY-SORTED-STABLE. Histories are enumerated up to a bound (stated), the write-once '
             'invariant behind them is the unbounded argument.',
        technique='symbolic execution of the real source against enumerated dataset structures and operation histories (z3 for the symbolic parts), AST invariant scans; bounded native replay',
        design_ref='Part III C11'),
    'C16': dict(
        category='proof',
        text='The hash object is a trace of chunks. For 11 convention configurations the trace produced by the real '
             'make_cache_key / hash_geometry / hash_string / hash_int / hash_attributes equals, chunk by chunk, the '
             'specified stream over exactly the geometry inventory (which is checked against the geometry variables of '
             'the dataset); datasets differing only outside the geometry give chunk-wise identical traces for all '
             'extents; every single edit (value at any index, dtype, encoding dtype, reshape, attribute add/change/'
             'remove, convention class) changes at least one chunk; hash_int emits 4 bytes iff the value fits int32 else '
             'OverflowError; no set iteration / hash() / id() occurs. One obligation (attribute chunk is a function of '
             'attribute values) is refuted under the PY-MARSHAL contract and listed as a known finding.',
        text_extra='Also proved: asking twice for the default key of one dataset object with an in-place edit of a geometry variable in between gives the key of the edited geometry (nothing is remembered between calls); attribute names with a leading underscore count like any other. Also proved: when the encoding names a narrower dtype than the values held, a single-value edit still changes the stream (the bytes hashed are those of the values held).',
        note=TRUST + 'Assumed: A-HASH (BLAKE2b collision free), PY-MARSHAL (injective; bytes depend on reference state; stable '
             'for the same objects within a process), NP-TOBYTES, A-INT32-SIZE, and that a differing chunk at a framed '
             'position makes the concatenated streams differ (the shape chunk has no ndim prefix: A-SHAPE-FRAMING).',
        technique='AST-generated verification conditions over the real source with a trace model of the hash object, z3; bounded native replay in fresh processes with different hash seeds',
        design_ref='Part III C16'),
    'C07': dict(
        category='proof',
        text='Grids, all extents and any buffer >= 1: blur_mask (real body: pad, nditer, window any, fromiter, reshape) marks '
             'exactly the cells within `size` steps in any of the eight directions of a marked cell (both directions of '
             'the equivalence proved with Skolem witnesses) and is monotone in mask and size; smear_mask for the three '
             'patterns marks exactly the edges / nodes of marked cells; c_mask_from_centres; CFGrid.make_clip_mask and '
             'ArakawaC.make_clip_mask mark exactly the cells whose polygon intersects (one STRtree query, predicate '
             'intersects, written through a flat *view*), plus rings. Meshes: mask_from_face_indexes (real body, 0/1-based, every fill '
             'representation, with and without edges) for any ascending set of kept faces: a face is dropped iff it is not given and '
             'a kept face gets its rank; a node / edge is kept iff a kept face names it (both directions, with the witness of the '
             'value-set theory), numbered by its rank among the kept ones. The polygon contracts used are re-verified in this check. '
             'BOUNDED only: buffer_faces (Python sets of symbolic content) and the exhaustive <= 4x4 clause.',
        text_extra='Also proved: buffer_faces (the given faces plus every face sharing a node, ascending, nothing else; also on meshes that store a face-face table) and UGrid.make_clip_mask with buffer 0; memory layout of input arrays is unknown (a store through ravel() of a non C-contiguous array is lost). The mesh mask is also proved for meshes whose face-edge table is derived (not stored).',
        note=TRUST + 'Assumed: contracts of Convention.polygons / strtree (contracts/base.py, verified under C02/C06), '
             'SH-STRTREE-QUERY, NP-PAD, NP-NDITER-MULTI-INDEX, NP-FROMITER, NP-RAVEL-VIEW, NP-RESHAPE, NP-ANY-ALL with '
             'Skolem witnesses, NP-UNIQUE-VALUESET, contract of sensible_fill_value (C10). buffer_faces: bounded only.',
        technique='AST-generated verification conditions over the real source with existential witnesses (QUANT-SKOLEM), z3; exhaustive native enumeration up to 4x4',
        design_ref='Part III C07'),
    'C06': dict(
        category='proof',
        text='For 11 grid configurations (CF 1-D with stored bounds as variables / coordinates / plain variables and with '
             'midpoint synthesis, CF 2-D and SHOC simple with stored bounds, SHOC standard; coordinates held either way) and '
             '10 mesh encodings (0/1-based, _FillValue / NaN / no fill, transposed, up to hexagons, coordinates as coords) the real '
             '_make_polygons / make_polygons_with_holes / _to_index_array / _get_or_make_bounds bodies are executed with '
             'symbolic extents and contents: at a Skolem cell n the slot is empty iff a coordinate of that cell is '
             'non-finite, otherwise its vertices are exactly the corners of cell n in order (midpoint formula included); '
             'Convention.polygons drops exactly the invalid polygons with an InvalidPolygonWarning, keeps slots, makes the '
             'array read-only; mask[n] <=> polygon. The CF 2-D neighbour-average synthesis is proved against a spec function stated over the '
             '(y, x) grid (mean of the usable centres around each node; longitude stored (x, y) included), composed into the polygon and '
             'extent scenarios; the geometric union / bounding box of real polygons is carried by the bounded native stand-in; the extent '
             'override is a known finding.',
        text_extra='Also proved: CFGrid2D stored bounds are used only when they are on the grid of the coordinate (rejection of transposed / 3-corner / '
             'corner-first bounds with a warning); CFGrid.bounds and UGrid.bounds contain every corner / node of every cell that has a polygon '
             '(tightness over kept polygons does not hold: known finding D10). Also proved: for the conventions without a shortcut (Arakawa C / SHOC standard) the reported bounds are the bounding box of the overall geometry, and for every convention but CF 1-D the overall geometry is the union of exactly the polygons the validity mask selects (union / bounding box as terms).',
        note=TRUST + 'Assumed: A-REAL (midpoints), NP-STACK / BROADCAST / TRANSPOSE / RESHAPE / FLATNONZERO / FANCY-INDEX / MA-*, '
             'SH-POLYGONS-OUT, SH-IS-VALID (uninterpreted), SELECTION-THEORY, contract of Mesh2DTopology.sensible_fill_value; '
             'VALID-UGRID-MESH. shapely validity / union themselves: bounded only.',
        technique='AST-generated verification conditions over the real source at Skolem cells (functional arrays, selection theory), z3; bounded native oracle comparison',
        design_ref='Part III C06'),
    'C02': dict(
        category='proof',
        text='Every accessor is tied to the same cell(n): polygons (5 grid + 3 mesh configurations, shared with C06: slot n is '
             'built from cell n, holes keep their slot), face_centres of CFGrid1D (meshgrid/flatten), CFGrid2D / SHOC simple / '
             'ArakawaC (ravel of the coordinate variables) and UGRID (face_x / face_y, held either way): centre n is the '
             'centre of cell n; selector_for_index(wind_index(n)) addresses cell n on every grid kind incl. edges and nodes; '
             'the STRtree is built once over the full polygon array object; ravel of variables whose grid dimensions come '
             'in either order (with and without other dimensions) lists cells in linear order (shared with C03). '
             'select_index values, spatial-index hits and the deprecated spatial_index are bounded natively.',
        text_extra='Configurations added: 1-D coordinates not named after their dimensions (lat(y), lon(x)); meshes that list latitude before longitude in node_coordinates / face_coordinates (first-listed = first coordinate of every vertex and centre); CF 2-D and SHOC standard grids whose longitude variable stores its two dimensions the other way round '
                   'than the latitude variable, with synthesised corners (two defects repaired: D23, D24).',
        note=TRUST + 'Assumed: as C06 and C03, NP-MESHGRID, NP-COLUMN-STACK, XR-SQUEEZE, SH-STRTREE-QUERY. UGRID face centres computed '
             'from polygon centroids (no face_x / face_y): bounded only.',
        technique='AST-generated verification conditions over the real source at Skolem cells, z3; bounded native cross-check of all accessors cell by cell',
        design_ref='Part III C02'),
    'C04': dict(
        category='proof',
        text='get_index_for_point / select_point (real bodies) against the contracts of polygons / strtree and SH-STRTREE-QUERY '
             '(hits in unspecified order, no repeats, exactly the positions with a polygon satisfying the predicate): one query '
             'of the point with predicate intersects, never nearest; result None iff no cell intersects; otherwise the '
             'returned position intersects, is never a hole, no intersecting position is lower (sort + first), its native '
             'index is wind_index of that position (C01) and its polygon is the stored one; select_point refuses misses '
             'with ValueError and otherwise selects that index. 6 convention configurations, all extents.',
        note=TRUST + 'Assumed: contracts of Convention.polygons / strtree (verified under C02/C06), SH-STRTREE-QUERY, NP-SORT '
             '(sorting an enumeration without repeats gives the increasing enumeration), SELECTION-THEORY. shapely.intersects '
             'itself vs geometry: bounded brute-force stand-in.',
        technique='AST-generated verification conditions over the real source against callee contracts, z3; bounded native brute-force oracle',
        design_ref='Part III C04'),
    'C05': dict(
        category='proof',
        text='select_indexes / select_index (real bodies: selector_for_indexes, drop_geometry, get_all_geometry_names, '
             'extract_vars, isel) on 5 convention configurations x every grid kind, index lists of length 1..3 with symbolic '
             'entries (repeats and every order covered), values of an uninterpreted sort: entry p of every kept variable is '
             'exactly the value stored at requested cell p with every other dimension intact, variables are kept iff they '
             'use the selected grid and are not geometry, empty and mixed-kind requests are refused. extract_points '
             '(real body) against the contract of get_index_for_point for 1..3 points with every hit/miss pattern: '
             "'error' raises NonIntersectingPoints naming exactly the misses, 'drop' keeps exactly the hits in request "
             'order labelled with their original positions. extract_dataframe (real body, with _dataframe_to_dataset) for tables of 1..3 rows '
             'with symbolic coordinates and columns, row labels 0..n-1 or shifted, every hit/miss pattern, each policy: row p is looked up as '
             "the point (longitude column, latitude column) of row p; 'error' names exactly the rows outside the model; 'drop' keeps exactly the "
             "hits, 'fill' every row with missing data for the misses, labelled with their positions in the table; every kept variable holds the "
             'value of the looked-up cell; every table column is carried along row for row (paired by position whatever the table index); the '
             'coordinate columns become longitude / latitude coordinates; the table is not modified. '
             "Two obligation families ('drop' / 'fill' when every point misses) are a known finding.",
        text_extra='The contract of get_index_for_point that the point scenarios rely on is re-verified in this check (C04 scenarios). History: a selection made after an earlier selection and an in-place change of the dataset (a variable replaced, one added) returns what the dataset holds now. Also: requests a few 1e-8 apart on either side of a cell edge are looked up one by one (native), every requested point is looked up once in request order (obligation).',
        note=TRUST + 'Assumed: XR-ISEL-POINTWISE, XR-DROP-VARS, XR-ASSIGN-COORDS, XR-SQUEEZE, contract of get_index_for_point (C04); '
             'list / table length concrete (1..3). Stated library contracts for the table path: PD-FRAME (column access, reset_index(drop=True), copy, to_xarray), '
             'NP-COLUMN-STACK (numpy.c_), SH-POINTS (a point is a function of its two coordinates), XR-MERGE-ALIGN (inner / outer join on an increasing integer index, '
             'NA fill with dtype promotion) -- exercised on real tables by the bounded native part.',
        technique='AST-generated verification conditions over the real source at Skolem positions (uninterpreted values), z3; bounded native byte-for-byte comparison',
        design_ref='Part III C05'),
    'C19': dict(
        category='proof',
        text='make_poly_collection / make_patch_collection / make_quiver / polygons_to_collection / animate_on_figure (real bodies) '
             'against the contracts of polygons, mask (one cached array) and face_centres, with matplotlib / cartopy as recording '
             'stand-ins: patch k is the outline of cell sel(k) and value k is the value of that very cell, where sel enumerates the '
             'cells with geometry in increasing linear order (the same selection object on both sides); default clim = '
             '(nanmin, nanmax) of exactly the plotted array; caller array / clim / transform passed through untouched; '
             'data_array together with array, leftover dimensions and mismatched vector dimensions are refused; quiver arrow n '
             'sits at face centre n with the components of cell n; every animation frame t sets the values at time t of the '
             'cells whose outlines were drawn. 5 convention configurations incl. transposed grid dimensions, all extents.',
        text_extra='History: a collection built after an array of the same name was plotted on the same dataset carries the values and colour limits of the array given now; a leftover dimension is still refused. Quiver: arrows sit at the face centres as they were before the call whatever their components are, and plotting does not modify the face centres of the convention (stores through views of the cached array are modelled).',
        note=TRUST + 'Assumed: MPL-POLYCOLLECTION / MPL-QUIVER pair their arguments by position; contracts of polygons / mask / face_centres '
             '(C02/C06); SELECTION-THEORY; NP-NANMINMAX-SKOLEM. Real artists are inspected by the bounded native stand-in.',
        technique='AST-generated verification conditions over the real source against callee contracts and recording stand-ins for matplotlib, z3; bounded native inspection of real artists',
        design_ref='Part III C19'),
    'C15': dict(
        category='proof',
        text='to_geojson / write_geojson / _dumpable_iterator / write_shapefile / _maybe_open / _to_multipolygon / write_wkt / write_wkb '
             '(real bodies) against the contract of Convention.polygons (slot n is None or the polygon of cell n) and recording stand-ins '
             'for geojson, pyshp, shapely serialisers, json.dump and open(): the exported entries are exactly the cells with a polygon, in '
             'increasing linear order, each once (selection theory); entry k holds the coordinates of polygon sel(k) itself, '
             'linear_index = sel(k) and index = the native index of that cell (row-major components, kind-tagged where the convention '
             'has kinds); the shapefile loop (FOREACH rule, Skolem iteration) writes nothing for a hole and exactly one record followed by '
             'its shape for a cell, with the values landing in the stored ten-character dbf fields; loss-free call-site preconditions: '
             'geojson precision >= 17, to_wkt rounding_precision == -1, text / binary write modes on the target path; .prj written next '
             'to a target and not invented without one. 4 conventions, all extents, any hole pattern.',
        text_extra='Also proved: the numeric dbf field is wide enough for every linear index written; write_wkb passes no option that changes coordinates.',
        note=TRUST + 'Assumed: GEOJSON-OBJECTS, PYSHP-FIELD-TRUNCATE, SHAPELY-MULTIPOLYGON / TO-WKT / TO-WKB, PY-JSON; contract of '
             'polygons (C02/C06); SELECTION-THEORY; FOREACH (independent iterations). The byte-level round trip through the real '
             'libraries (read back with geojson / pyshp / shapely and compared coordinate-for-coordinate) is the bounded native stand-in.',
        technique='AST-generated verification conditions over the real source against callee contracts and recording stand-ins for the writer libraries, z3; bounded native write / read-back round trips',
        design_ref='Part III C15'),
    'C12': dict(
        category='proof',
        text='operations.depth.ocean_floor, _find_ocean_floor_indexes, normalize_depth_variables (inline), utils.dimensions_from_coords, '
             'extract_vars (real bodies) on symbolic datasets: every extent symbolic, depth coordinate strictly monotonic either way, '
             'positive up / down / absent, a static sea floor wet(k, column) that is an arbitrary predicate (gaps and dry top layers '
             'included), the depth dimension in six positions, one or two depth coordinates on one dimension, two depth dimensions '
             'over one grid (both hash orders of the loop explored), records treated as columns when no non-spatial variable is given. '
             'Obligations at a Skolem record / column: result = value of the wet layer of maximal physical depth, NaN when no layer is '
             'wet; depth dimension and coordinates removed; all other variables, coordinates and attributes bit-identical; input '
             'not modified. The cumulative-count argument uses lemma cumsum-monotone, proved by induction (base and step are '
             'discharged obligations) and instantiated explicitly (ghost lemma calls).',
        text_extra='The depth coordinates may be given as any iterable, also a one-shot iterator or generator (scenarios for tuple / iterator / generator). Every dataset also carries a static depth-resolved variable (depth and the horizontal dimensions, no time): it is reduced like the others. Also under contract: Convention.depth_coordinates / Convention.ocean_floor for the five conventions with the layer variables held as coordinates or as plain variables (every layer variable of the dataset is handed to the reduction, with the time coordinate as the one non-spatial variable).',
        note=TRUST + 'Assumed: XR-CUMSUM-SKIPNA, XR-ARGMAX-FIRST, XR-ISEL-POINTWISE, XR-MERGE / XR-DROP-DIMS, PY-STR-HASH, INDUCTION-NAT (meta rule), '
             'A-FINITE-DATA (values are finite or NaN), STATIC-FLOOR-SHARED (variables of one group share the wet pattern; the violation '
             'of it by a gapless first variable is known finding D17, found natively). dataset.ems.ocean_floor() and byte-level values '
             'are the bounded native stand-in.',
        technique='AST-generated verification conditions over the real source with an inductively proved cumulative-sum lemma, z3; bounded native comparison against a per-column oracle',
        design_ref='Part III C12'),
    'C10': dict(
        category='proof',
        text='Mesh2DTopology (real bodies): _to_index_array / _get_start_index through face_node_array and the supplied-table branches of '
             'edge_node_array, face_edge_array, edge_face_array, face_face_array; has_valid_*_connectivity; face / edge / node / max-node / two '
             'dimension discovery; node / face / edge coordinate lookup; counts; sensible_fill_value. An abstract table (row r has cnt(r) '
             'entries val(r, j), both uninterpreted) is encoded with start_index absent / 0 / 1 / string, missing entries as NaN, as the '
             '_FillValue attribute or not at all, rows or columns first, all extents symbolic; the decoded array is proved at a Skolem entry '
             'to be masked exactly beyond cnt(r) and to equal val(r, j) otherwise -- the same table for every encoding, for all five '
             'connectivity tables (supplied tables are used as given). Wrong-dimension and dangling tables are rejected with a warning; the '
             'face_edge _FillValue range check accepts every fill value outside [start, start + edges] and rejects every possible index; '
             'invalid start_index is refused; sensible_fill_value (string arithmetic, case split on the digit count) is all nines and '
             'exceeds every node index and face x max-node slot. Two of the derived tables are proved with loop invariants over any number of '
             'faces / edges (real bodies, ghost counting functions): make_edge_face_array -- edge e lists exactly the faces whose face-edge row names it, '
             'in increasing face order, the rest of its row missing (faces of up to 3 and up to 4 edges); make_face_face_array -- face f lists the face '
             'across each interior edge it is on, in increasing edge order, boundary edges add nothing. Also proved: decoding a table does not modify the '
             'dataset. BOUNDED (native, not proved): make_edge_node_array and make_face_edge_array (dictionaries keyed by node pairs) -- checked on '
             'generated meshes against an independent oracle for all 16 subsets of supplied tables x encodings, as are the two proved ones.',
        text_extra='Also under contract: Mesh2DTopology._face_and_node_pair_iter at its yield statement for an arbitrary face (cut point; utils.pairwise on lists of 0..7 entries): the node list of face f is its own nodes in order, closed with the first, whatever the table width and fill representation. Mesh2DTopology.make_edge_node_array at its dictionary update for an arbitrary side of an arbitrary face (cut point inside both loops, the pair iterator replaced by that contract): side (a, b) is recorded as member max(a, b) of the set kept under min(a, b) in a defaultdict(set) that was empty before the loops, the loops contain nothing else, and the rows returned are the (key, member) pairs of that dictionary.',
        note=TRUST + 'Assumed: VALID-UGRID (indexes in range, declared fill representation, face_dimension attribute present when the table is '
             'stored columns first; for the derived tables: the edges of one face are distinct, an edge has at most two faces, the two faces of an interior edge differ, '
             'a face is on at most max-node interior edges), NP-MA (masked arrays), PY-INT-STR-LEN, A-INT32-SIZE. make_edge_node_array: what the dictionary of sets keeps of the recorded pairs (each distinct pair once, Python semantics) and the resulting table are bounded native only; make_face_edge_array: bounded native stand-in only.',
        technique='AST-generated verification conditions over the real source, z3: decoding, validity, dimension discovery; two derived tables by sidecar loop invariants with ghost counting functions; the edge-node derivation at a cut point inside its loops (what each side records); what the dictionaries of the two dictionary-based derivations hold afterwards by bounded native comparison with an independent oracle (not proved)',
        design_ref='Part III C10'),
    'C08': dict(
        category='proof',
        text='masking.find_fill_value, mask_grid_data_array, calculate_grid_mask_bounds, mask_grid_dataset (real bodies, work files as a '
             'recording file model), utils.to_netcdf_with_fixes, disable_default_fill_value, dataset_like; UGrid.apply_clip_mask with '
             'update_connectivity and the boolean row selection. Grids: masks are arbitrary boolean arrays of symbolic extents (1 or the 4 '
             'staggered SHOC masks); the window is proved to contain every selected entry, to lie inside the dimension and to be tight '
             '(least-witness / exists theories instantiated by ghost lemma calls); at a Skolem entry of every variable: selected => '
             'bit-identical to the input at window offset, otherwise NaN / the declared _FillValue or missing_value; integer variables '
             'without a fill value and coordinates are cropped but never altered; the first mask whose dimensions fit is used, for spatial '
             'dimensions in any position; attributes, encoding, variable order and global attributes kept; an empty mask is refused. '
             'Meshes: masks given by arbitrary kept-sets (new index = rank); row k of every face / edge / node variable is the k-th kept '
             'row, bit-identical, in the original order; variables without mesh dimensions pass through; with or without edge '
             'dimension / edge_node table.',
        text_extra='Also proved: applying a mask does not modify the mask (frame condition; a mask is applied to several datasets); every table of a mesh carries its own index base. Also proved: a short variable whose missing value is stored as a double (any double, NaN included) gets exactly that value outside the selection (promotion to float64), not a number of the short type. Also proved: Convention.clip hands the region as given (any geometry type) and the buffer to make_clip_mask and applies the mask it gets. The mesh clip mask taken as given by the mesh scenarios is re-verified in this check (C07 scenarios).',
        note=TRUST + 'Assumed: XR-WHERE, XR-ISEL, XR-NETCDF-ROUNDTRIP / XR-OPEN-MFDATASET (what decoding does to fill values and dtypes is NOT '
             'modelled), XR-MAYBE-PROMOTE, SELECTION-THEORY / SELECTION-EXTENSIONALITY, QUANT-SKOLEM, VALID-UGRID-MASK (C07), NP-MA. The real '
             'netCDF round trip, masks saved / reloaded and applied to a second dataset, and integer fill behaviour on disk are the bounded '
             'native stand-in (about 140 clips).',
        technique='AST-generated verification conditions over the real source with selection / least-witness theories and a recording file model, z3; bounded native clips through real netCDF files',
        design_ref='Part III C08'),
    'C09': dict(
        category='proof',
        text='UGrid.apply_clip_mask / update_connectivity / _masked_integer_data_array on meshes whose tables encode abstract valid tables '
             '(0/1-based, _FillValue / NaN / no fill): every connectivity table present in the input (face_node, edge_node, face_edge, '
             'edge_face, face_face) is present in the output with the same dimension order and start_index, stored as an integer table with '
             'a fill value; row k is row sel(k) of the input; an entry is present exactly when it was present and the element it names '
             'survives, and is then the rank of that element among the kept ones (+ start_index), below the new count. Grids: the bounds / '
             'coordinate variables of selected cells are bit-identical (C08 obligations) and check_dataset still recognises the result. '
             'select_variables / get_all_geometry_names for 11 convention configurations (bounds as variables or coordinates, coordinates as '
             'plain variables, every optional mesh table, edge / face coordinates): the inventory is exactly the variables polygons and '
             'topology are computed from and each is kept as the very same array.',
        text_extra='The mesh clip mask taken as given is re-verified in this check (C07 scenarios).',
        note=TRUST + 'Assumed: as C08, plus the polygon contracts of C02 / C06 (polygons are a function of the geometry variables). Saving / '
             'reopening the clipped dataset, polygon equality on real files and cross-table consistency of clipped meshes are the bounded '
             'native stand-in.',
        technique='AST-generated verification conditions over the real source against abstract connectivity tables and kept-set selections, z3; bounded native clips saved, reopened and compared polygon by polygon',
        design_ref='Part III C09'),
    'C14': dict(
        category='other',
        text='operations.triangulate._triangulate_polygons_by_length (real body): for any number of convex cells with n vertices each (n = 3..8 and '
             'n symbolic) the result has shape (cells, n - 2, 3, 2) and triangle t of cell p has corners vertex 0, t + 1 and t + 2 of that cell, '
             'bit for bit, all corner indexes valid. Lemmas over the reals discharged by z3: the signed areas of the n - 2 fan triangles add up to '
             'the signed area of the polygon (n = 3..8), and in a convex anticlockwise ring every fan triangle is anticlockwise or flat -- hence '
             'the fan covers a convex cell exactly and without overlap. triangulate_dataset (real body, run up to three cut points, any number of cells): '
             'the cells set aside for ear clipping are exactly the cells with geometry whose convex hull has another number of coordinates than the cell, '
             'whatever the number of sides; cells without geometry and cells set aside count as length 0; the batch of length u holds exactly the remaining '
             'cells with u ring coordinates, in increasing order, with their own polygons, and the fan method is applied to exactly that batch; every cell set '
             'aside is handed with its own polygon and index to ear clipping. BOUNDED (native, not proved): the buffer bookkeeping of triangulate_dataset '
             '(_add_triangles, the final assert), the vertex de-duplication and index joins (pandas) and _triangulate_concave_polygon (ear clipping driven by '
             'shapely predicates) are outside the verifier; they are checked on 15 ring shapes (3..8 sides, reflex and collinear vertices, both windings, '
             'every starting vertex), convention datasets with holes and a grid with holes ahead of a concave cell, against an exact rational '
             'oracle: n - 2 triangles per cell, corners are cell vertices, containment, areas sum exactly, no duplicate vertices, valid indexes, '
             'no triangle for cells without geometry.',
        note=TRUST + 'Assumed: SHAPELY-GET-COORDINATES / SHAPELY-RING-CLOSED, SH-NUM-COORDINATES, SH-CONVEX-HULL (hull as a term; that equal coordinate counts '
             'mean convex is geometry, carried by the native oracle), NP-SUM-ABSTRACT, NP-EMPTY, NP-REPEAT / NP-STACK / NP-RESHAPE, A-REAL, polygon contract (C02/C06). '
             'The part of triangulate_dataset after the cut points and ear clipping are bounded native only.',
        technique='AST-generated verification conditions over the real source, z3: the bulk fan triangulation plus real-arithmetic lemmas, and intermediate assertions at cut points of triangulate_dataset (cell classification and batching); the rest by bounded native comparison with an exact rational oracle (not proved)',
        design_ref='Part III C14'),
    'C18': dict(
        category='other',
        text='Mixed. PROVED (contracts on the real bodies of Transect.__init__, transect_dataset, prepare_data_array_for_transect, '
             'utils.move_dimensions_to_end, Convention.ravel): given any sequence of segments (any length, each naming a valid cell) the '
             'transect dataset lists linear_index and [start, end] of segment s in row s, carries the depth coordinate and given depth bounds '
             'unchanged, and column s of the prepared data holds, at every depth and record, the value of segment s\'s own cell (bit for bit), '
             'for 4 conventions x 4 dimension layouts, all extents symbolic. Also PROVED, against abstract geometry (shapely set operations '
             'as uninterpreted terms: SH-INTERSECTION, SH-STRTREE-QUERY; PY-SORTED): the real bodies of Transect.segments and '
             '_intersect_polygon -- the loop runs over exactly the cells whose polygon intersects the path; every line part of polygon(cell) '
             'intersected with the path, and nothing else (point contacts dropped), gives exactly one segment; that segment carries the piece itself, the '
             'cell\'s linear and native index and polygon, its two ends as start / end point with their distances along the path, start <= end; '
             'the list is sorted ascending by (start_distance, end_distance); no segments iff no cell intersects (FOREACH / COLLECT loop rule, '
             'any number of cells and pieces). distance_along_line(point) (real body, any number of path vertices): ValueError exactly for positions outside [0, 1], '
             'otherwise the accumulated distance of the last vertex at or before the point plus the planar distance between that vertex and the point, '
             'both projected from the data CRS into that vertex\'s own projection (abstract cartopy / shapely terms). Transect.points (real body, loop invariant '
             'over any number of vertices): vertex j gets its own point, the azimuthal equidistant projection centred on it, distance_normalised = '
             'line.project(point, normalized=True) and distance_metres(j) = distance_metres(j - 1) + the planar distance between vertices j - 1 and j in the projection of vertex j - 1; the first vertex is at 0. BOUNDED (native, not proved): what the geometry terms denote -- shapely intersections, '
             'cartopy projections, floating-point distances -- is outside the verifier; 60 transects (5 datasets incl. a 1 km grid, 12 polylines: '
             'through, inside one cell, leaving and re-entering a cell, over holes, along a cell edge, missing the model, every heading) are '
             'checked against shapely / pyproj oracles: each piece lies in its cell and on the path, names that cell, pieces add up to the '
             'path inside the union of cells (1e-9), path order by projection, start <= end, distances within the path.',
        note=TRUST + 'Assumed: contract of Transect.segments (for the data pairing; its routing is proved separately, see above) / points (for distance_along_line; proved separately by the loop invariant) / distance_along_line (for segments; proved separately), '
             'SH-INTERSECTION (kinds, parts and emptiness of polygon.intersection(line)), SH-STRTREE-QUERY, PY-SORTED, C03 ravel / wind_index, XR-ISEL-POINTWISE, NP-FROMITER-SUBARRAY. '
             'The optional cfunits import is satisfied by harness/stubs/cfunits (axis labels only). Genuine defect found and fixed: distances '
             'measured from the CRS origin although the reference vertex projects ~7 km off it (segments out of path order on fine grids).',
        technique='AST-generated verification conditions over the real source, z3: segment / data pairing against an abstract segment sequence, and segment construction (Transect.segments, _intersect_polygon) against abstract geometry terms with a FOREACH / COLLECT loop rule; what the geometry denotes by bounded native comparison with shapely / pyproj oracles (not proved)',
        design_ref='Part III C18'),
}

NOT_YET = 'check not built yet (work in progress, see DESIGN.md)'

m = {
    'version': 1,
    'setup_cmd': './setup.sh',
    'hooks': {
        'guard': 'EMSARRAY_VERIF',
        'enable': 'no hooks: contracts are sidecars under /verif/contracts, the verifier reads /repo/src through ast '
                  'and replays import the editable install; nothing in /repo is instrumented',
        'baseline_off_cmd': 'cd /repo && /venv/bin/python -m pytest -ra -q -p no:cacheprovider --timeout=900 '
                            '--continue-on-collection-errors',
        'source_commits': [],
        'add_only': True,
    },
    'engines': [
        {'name': 'pyvc', 'path': 'pyvc/', 'serves_properties': sorted(CHECKS),
         'kind_free_text': 'verification-condition generator: symbolic execution of the real Python source (ast) '
                           'against sidecar contracts and library contracts; z3 5.1 python API, cvc5 1.0.3 and z3 '
                           '4.8.12 CLIs for unknowns'},
        {'name': 'native-harness', 'path': 'harness/', 'serves_properties': sorted(CHECKS),
         'kind_free_text': 'bounded stand-ins and counterexample replay on the real code under /venv/bin/python '
                           '(labelled bounded, never counted as proved)'},
    ],
    'checks': [],
    'notes': 'fix: commits in /repo are genuine-defect repairs recorded in known_findings.json; no hook commits.',
    'not_applicable': [],
}
for p in props:
    pid = p['id']
    if pid in CHECKS:
        c = CHECKS[pid]
        m['checks'].append({
            'property_id': pid,
            'quick_cmd': f'./check {pid} --tier quick',
            'thorough_cmd': f'./check {pid} --tier thorough',
            'evidence_file': f'evidence/{pid}.json',
            'replay_cmd_template': '/venv/bin/python harness/replay.py {path}',
            'engine': 'pyvc',
            'level_claimed': {'category': c['category'], 'text': c['text'] + ((' ' + c['text_extra']) if c.get('text_extra') else ''), 'design_ref': c['design_ref']},
            'level_note': c['note'],
            'technique': c['technique'],
        })
    else:
        m['not_applicable'].append({'property_id': pid, 'reason': NOT_YET})
json.dump(m, open(os.path.join(ROOT, 'MANIFEST.json'), 'w'), indent=1)
print('checks:', [c['property_id'] for c in m['checks']])
