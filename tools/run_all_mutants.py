#!/usr/bin/env python3
"""Apply every seeded change in turn to /repo's working tree, run the quick check of its property, revert, and record what the check said.
Writes seeded/RESULTS.json and seeded/RESULTS.md.  Never commits anything to /repo."""
import glob
import json
import os
import re
import subprocess
import sys
import time

ROOT = os.path.dirname(os.path.dirname(os.path.abspath(__file__)))
only = sys.argv[1:]
rows = []
dirty = subprocess.run(['git', '-C', '/repo', 'status', '--porcelain', '--untracked-files=no'], capture_output=True, text=True).stdout.strip()
if dirty:
    sys.exit('refusing to run: /repo has local modifications\n' + dirty)
for d in sorted(glob.glob(os.path.join(ROOT, 'seeded', 'C*-m*'))):
    name = os.path.basename(d)
    prop = name.split('-')[0]
    if only and prop not in only and name not in only:
        continue
    patch = os.path.join(d, 'patch.diff')
    r = subprocess.run(['git', '-C', '/repo', 'apply', patch], capture_output=True, text=True)
    if r.returncode != 0:
        rows.append({'mutant': name, 'property': prop, 'applied': False, 'note': r.stderr.strip()[:200]})
        print(name, 'PATCH FAILED', flush=True)
        continue
    t0 = time.time()
    try:
        res = {}
        for mode, extra in (('deductive', ['--no-native']), ('native', ['--only', '__no_scenario__'])):
            p = subprocess.run([os.path.join(ROOT, 'check'), prop] + extra, capture_output=True, text=True, cwd=ROOT, timeout=3600,
                               env=dict(os.environ, PYVC_EVIDENCE_DIR='/tmp/mutant-evidence'))
            out = p.stdout + p.stderr
            m = re.search(r'SUMMARY .*', out)
            summ = m.group(0) if m else ''
            g = lambda k: int(re.search(k + r'=(\d+)', summ).group(1)) if re.search(k + r'=(\d+)', summ) else None
            res[mode] = {'exit': p.returncode, 'violations': len(re.findall(r'^VIOLATION', out, re.M)), 'refuted': g('refuted'), 'undecided': g('undecided'),
                         'native_failures': g('native_failures'), 'checker_error': 'CHECKER-ERROR' in out}
    finally:
        subprocess.run(['git', '-C', '/repo', 'checkout', '--', '.'], check=True)
    row = {'mutant': name, 'property': prop, 'applied': True, 'deductive': res['deductive'], 'native': res['native'], 'seconds': round(time.time() - t0, 1)}
    row['caught_deductive'] = res['deductive']['exit'] == 1 and res['deductive']['violations'] > 0
    row['caught_native'] = res['native']['exit'] == 1 and res['native']['violations'] > 0
    row['caught'] = row['caught_deductive'] or row['caught_native']
    try:
        row['summary'] = json.load(open(os.path.join(d, 'meta.json'))).get('summary', '')[:300]
    except Exception:
        row['summary'] = ''
    rows.append(row)
    print(name, 'deductive' if row['caught_deductive'] else '-', 'native' if row['caught_native'] else '-', f"{row['seconds']}s", flush=True)
existing = {}
path = os.path.join(ROOT, 'seeded', 'RESULTS.json')
if only and os.path.exists(path):
    existing = {r['mutant']: r for r in json.load(open(path))}
for r in rows:
    existing[r['mutant']] = r
allrows = [existing[k] for k in sorted(existing)]
json.dump(allrows, open(path, 'w'), indent=1)
with open(os.path.join(ROOT, 'seeded', 'RESULTS.md'), 'w') as f:
    f.write('# Seeded changes against the checks (quick tier, unchanged machinery)\n\n')
    f.write('| change | property | caught by obligations (z3) | caught by bounded native part | what it changes |\n|---|---|---|---|---|\n')
    for r in allrows:
        if not r.get('applied'):
            f.write(f"| {r['mutant']} | {r['property']} | patch does not apply | | {r.get('note', '')} |\n")
            continue
        d, n = r['deductive'], r['native']
        dd = f"yes ({d['refuted']} obligations refuted)" if r['caught_deductive'] else (f"undecided ({d['undecided']})" if d.get('undecided') else 'no')
        nn = f"yes ({n['native_failures']} inputs)" if r['caught_native'] else 'no'
        f.write(f"| {r['mutant']} | {r['property']} | {dd} | {nn} | {r['summary'].replace('|', '/')} |\n")
    caught = sum(1 for r in allrows if r.get('caught'))
    f.write(f"\n{caught} of {len(allrows)} seeded changes are reported as violations; "
            f"{sum(1 for r in allrows if r.get('caught_deductive'))} by a refuted obligation, {sum(1 for r in allrows if r.get('caught_native'))} by the native part.\n")
print('done')
