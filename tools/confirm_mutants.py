#!/usr/bin/env python3
"""Independent confirmation of every seeded change, in a scratch worktree of /repo's HEAD (outside /repo and /verif, removed afterwards):
  1. the demo passes on the unchanged tree,  2. the patch applies,  3. the demo fails on the changed tree,
  4. the repository's test suite gives the baseline counts on the changed tree.
Records what was run and seen under "confirmed" in seeded/<id>/meta.json."""
import concurrent.futures
import glob
import json
import os
import re
import shutil
import subprocess
import sys
import tempfile

ROOT = os.path.dirname(os.path.dirname(os.path.abspath(__file__)))
BASE = os.environ.get('CONFIRM_TMP', '/tmp/confirm')
PY = '/venv/bin/python'


def run(cmd, cwd, env=None, timeout=1800):
    e = dict(os.environ)
    e.update(env or {})
    p = subprocess.run(cmd, cwd=cwd, env=e, capture_output=True, text=True, timeout=timeout)
    return p.returncode, (p.stdout + p.stderr)


def confirm(d):
    name = os.path.basename(d)
    wt = os.path.join(BASE, name)
    shutil.rmtree(wt, ignore_errors=True)
    subprocess.run(['git', '-C', '/repo', 'worktree', 'prune'], capture_output=True)
    r = subprocess.run(['git', '-C', '/repo', 'worktree', 'add', '--detach', wt, 'HEAD'], capture_output=True, text=True)
    if r.returncode:
        return name, {'error': r.stderr[-300:]}
    out = {}
    try:
        env = {'PYTHONPATH': os.path.join(wt, 'src'), 'PYTHONWARNINGS': 'ignore'}
        demo = os.path.join(d, 'demo.py')
        rc0, o0 = run([PY, demo], wt, env)
        out['demo_unchanged_exit'] = rc0
        ra = subprocess.run(['git', '-C', wt, 'apply', os.path.join(d, 'patch.diff')], capture_output=True, text=True)
        out['patch_applies'] = ra.returncode == 0
        if ra.returncode == 0:
            rc1, o1 = run([PY, demo], wt, env)
            out['demo_changed_exit'] = rc1
            out['demo_changed_tail'] = o1.strip().splitlines()[-1][:200] if o1.strip() else ''
            rct, ot = run([PY, '-m', 'pytest', '-q', '-p', 'no:cacheprovider', '--timeout=900', '--continue-on-collection-errors'], wt, env)
            m = re.findall(r'(\d+) (passed|failed|error|errors|skipped)', ot.strip().splitlines()[-1]) if ot.strip() else []
            out['tests_changed'] = {k: int(v) for v, k in m}
        out['commands'] = [f'git worktree add --detach <tmp> HEAD ({subprocess.run(["git", "-C", "/repo", "rev-parse", "--short", "HEAD"], capture_output=True, text=True).stdout.strip()})',
                           'PYTHONPATH=<tmp>/src /venv/bin/python demo.py', 'git apply patch.diff', 'PYTHONPATH=<tmp>/src /venv/bin/python demo.py',
                           'cd <tmp> && PYTHONPATH=<tmp>/src /venv/bin/python -m pytest -q -p no:cacheprovider --timeout=900 --continue-on-collection-errors']
        out['ok'] = bool(out.get('demo_unchanged_exit') == 0 and out.get('patch_applies') and out.get('demo_changed_exit') not in (0, None)
                         and out.get('tests_changed', {}).get('passed') == 371)
    finally:
        subprocess.run(['git', '-C', '/repo', 'worktree', 'remove', '--force', wt], capture_output=True)
        shutil.rmtree(wt, ignore_errors=True)
    return name, out


def main():
    os.makedirs(BASE, exist_ok=True)
    dirs = sorted(glob.glob(os.path.join(ROOT, 'seeded', 'C*-m*')))
    only = sys.argv[1:]
    if only:
        dirs = [d for d in dirs if os.path.basename(d) in only or os.path.basename(d).split('-')[0] in only]
    with concurrent.futures.ThreadPoolExecutor(max_workers=4) as ex:
        for name, out in ex.map(confirm, dirs):
            mp = os.path.join(ROOT, 'seeded', name, 'meta.json')
            meta = json.load(open(mp))
            meta['confirmed'] = out
            json.dump(meta, open(mp, 'w'), indent=1)
            print(name, 'OK' if out.get('ok') else 'CHECK', {k: v for k, v in out.items() if k not in ('commands',)}, flush=True)
    subprocess.run(['git', '-C', '/repo', 'worktree', 'prune'], capture_output=True)
    shutil.rmtree(BASE, ignore_errors=True)


main()
