#!/bin/sh
# tools/try_mutant.sh <seeded/dir> <prop> [extra check args]: apply patch to /repo, run the check, undo.
d=$1; p=$2; shift 2
cd /verif
git -C /repo apply "$(realpath $d)/patch.diff" || { echo "PATCH FAILED"; exit 9; }
PYVC_EVIDENCE_DIR=/tmp/mutant-evidence ./check $p "$@" 2>&1 | grep -E "VIOLATION|UNDECIDED|KNOWN|SUMMARY|CHECKER" | cut -c1-400
rc=$?
git -C /repo checkout -- . 
git -C /repo status --short | grep -v egg-info
