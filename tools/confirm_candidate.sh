#!/bin/sh
# tools/confirm_candidate.sh Cxx mNN: confirm a sub-agent's candidate change kept in /tmp/agent-Cxx (change applied there) and /tmp/agent-Cxx-out:
# demo exits 0 on the unchanged /repo and non-zero on the agent's tree; the FAILED/ERROR test ids of the full suite are the same on both.
# Prints CONFIRMED and copies patch/demo/notes to seeded/Cxx-mNN, or prints why not.  /repo is only read.
p=$1; m=$2; w=/tmp/agent-$p; o=/tmp/agent-$p-out
[ -s $o/patch.diff ] && [ -s $o/demo.py ] || { echo "NOT CONFIRMED: deliverables missing"; exit 1; }
(cd /tmp && PYTHONPATH=/repo/src /venv/bin/python $o/demo.py >/tmp/cc-$p-a.txt 2>&1); a=$?
(cd /tmp && PYTHONPATH=$w/src /venv/bin/python $o/demo.py >/tmp/cc-$p-b.txt 2>&1); b=$?
echo "demo unchanged exit=$a changed exit=$b: $(tail -1 /tmp/cc-$p-b.txt | cut -c1-300)"
ids() { (cd $1 && PYTHONPATH=$1/src /venv/bin/python -m pytest -q -p no:cacheprovider --timeout=900 --continue-on-collection-errors 2>&1 | grep -E '^(FAILED|ERROR)' | sed 's/ - .*//' | sort); }
ids /repo > /tmp/cc-$p-base.txt; ids $w > /tmp/cc-$p-chg.txt
if ! diff /tmp/cc-$p-base.txt /tmp/cc-$p-chg.txt; then echo "NOT CONFIRMED: the suite differs"; exit 1; fi
[ $a = 0 ] && [ $b != 0 ] || { echo "NOT CONFIRMED: demo"; exit 1; }
git -C $w diff > /tmp/cc-$p.diff; cmp -s /tmp/cc-$p.diff $o/patch.diff || echo "note: patch.diff differs from the worktree diff (using the worktree diff)"
d=/verif/seeded/$p-$m; mkdir -p $d; cp /tmp/cc-$p.diff $d/patch.diff; cp $o/demo.py $d/; cp $o/notes.txt $d/ 2>/dev/null
tail -1 /tmp/cc-$p-b.txt | cut -c1-300 > $d/.tail
echo "CONFIRMED -> $d ($(wc -l < /tmp/cc-$p-base.txt) failing ids both ways)"
rm -f /tmp/cc-$p-*.txt /tmp/cc-$p.diff
