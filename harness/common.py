"""Shared pieces of the native (bounded stand-in / replay) harness."""
from __future__ import annotations


class Check:
    def __init__(self, name, gen, test, key=None, space='', bound='', exhaustive=False):
        self.name, self.gen, self.test = name, gen, test
        self.key = key or (lambda inp, detail: name)
        self.space, self.bound, self.exhaustive = space, bound, exhaustive


class Failure(Exception):
    """raised by a test to report a property violation on the current input"""


def must(fn, what):
    """Run fn(); any exception is a property violation ('what' must succeed)."""
    try:
        return fn()
    except Failure:
        raise
    except Exception as e:
        raise Failure(f'{what} raised {type(e).__name__}: {e}')


def must_raise(fn, what, exc=Exception):
    try:
        v = fn()
    except exc:
        return
    except Exception as e:
        raise Failure(f'{what}: raised {type(e).__name__} (expected {getattr(exc, "__name__", exc)}): {e}')
    raise Failure(f'{what}: returned {v!r} instead of raising')


