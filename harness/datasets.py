"""Concrete dataset generators for every convention (native side: real numpy / xarray).

Used by the bounded stand-ins and by replays.  Every generator is deterministic in its
arguments; data variables hold ``1000*j + i`` style values so any permutation of cells shows.
"""
from __future__ import annotations

import itertools
import random

import numpy
import xarray


def _data(shape, offset=0.0):
    """values that encode their own index: sum(idx_k * 100**(n-1-k))."""
    idx = numpy.indices(shape)
    out = numpy.zeros(shape, dtype=float) + offset
    n = len(shape)
    for k in range(n):
        out = out + idx[k] * (100 ** (n - 1 - k))
    return out


def axis_values(n, start=0.0, step=1.0, descending=False, nonuniform=False):
    gaps = numpy.full(max(n - 1, 0), step, dtype=float)
    if nonuniform:
        gaps = gaps * (1 + 0.5 * ((numpy.arange(max(n - 1, 0)) * 7) % 3))
    vals = start + numpy.concatenate([[0.0], numpy.cumsum(gaps)]) if n > 0 else numpy.array([], dtype=float)
    if descending:
        vals = vals[::-1].copy()
    return vals


def cf1d(ny=3, nx=4, *, bounds=None, as_coords=True, descending_lat=False, descending_lon=False,
         nonuniform=False, lat_name='lat', lon_name='lon', ydim=None, xdim=None, time=2, depth=0,
         extra=True, detect='units', bounds_shrink=0.25, origin=(100.0, -10.0), step=(2.0, 1.0), leading_transposed=False):
    ydim = ydim or lat_name
    xdim = xdim or lon_name
    lat = axis_values(ny, origin[1], step[1], descending_lat, nonuniform)
    lon = axis_values(nx, origin[0], step[0], descending_lon, nonuniform)
    lat_attrs = {'units': 'degrees_north'} if detect == 'units' else ({'standard_name': 'latitude'} if detect == 'standard_name' else {'axis': 'Y'})
    lon_attrs = {'units': 'degrees_east'} if detect == 'units' else ({'standard_name': 'longitude'} if detect == 'standard_name' else {'axis': 'X'})
    data_vars = {}
    coords = {}
    if leading_transposed:
        # a data variable stored x-major ahead of everything else: Dataset.sizes then lists x before y
        data_vars['leading'] = xarray.DataArray(_data((nx, ny), 0.125), dims=[xdim, ydim])
    tgt = coords if as_coords else data_vars
    if bounds:
        lat_attrs['bounds'] = 'lat_bnds'
        lon_attrs['bounds'] = 'lon_bnds'
    tgt[lat_name] = xarray.DataArray(lat, dims=[ydim], attrs=lat_attrs)
    tgt[lon_name] = xarray.DataArray(lon, dims=[xdim], attrs=lon_attrs)
    if bounds:
        # deliberately NOT the midpoints, so "given bounds are used as given" is observable
        lb = numpy.stack([lat - bounds_shrink, lat + bounds_shrink], axis=-1)
        nb = numpy.stack([lon - 2 * bounds_shrink, lon + 2 * bounds_shrink], axis=-1)
        btgt = coords if bounds == 'coords' else data_vars
        btgt['lat_bnds'] = xarray.DataArray(lb, dims=[ydim, 'bnds'])
        btgt['lon_bnds'] = xarray.DataArray(nb, dims=[xdim, 'bnds'])
    if extra:
        tdims = (['time'] if time else []) + (['depth'] if depth else [])
        tshape = ([time] if time else []) + ([depth] if depth else [])
        data_vars['temp'] = xarray.DataArray(_data(tuple(tshape) + (ny, nx)), dims=tdims + [ydim, xdim])
        data_vars['flipped'] = xarray.DataArray(_data((nx,) + tuple(tshape) + (ny,), 0.5), dims=[xdim] + tdims + [ydim])
        data_vars['count'] = xarray.DataArray(_data((ny, nx)).astype('int32'), dims=[ydim, xdim])
        data_vars['scalar'] = xarray.DataArray(numpy.arange(max(time, 1), dtype=float), dims=['time' if time else 'record'])
        if time:
            coords['time'] = xarray.DataArray(
                numpy.datetime64('2020-01-01') + numpy.arange(time) * numpy.timedelta64(1, 'D'), dims=['time'],
                attrs={})
            coords['time'].encoding['units'] = 'days since 1990-01-01T00:00:00+10:00'
        if depth:
            coords['depth'] = xarray.DataArray(numpy.arange(depth, dtype=float) * 5.0, dims=['depth'],
                                               attrs={'positive': 'down', 'axis': 'Z'})
    ds = xarray.Dataset(data_vars=data_vars, coords=coords, attrs={'title': 'cf1d'})
    if not as_coords and (lat_name == ydim or lon_name == xdim):
        # xarray promotes same-named 1-D variables to index coordinates; callers who want plain
        # variables must use distinct dimension names
        pass
    return ds


def curvilinear(ny, nx, skew=0.1, radial=False):
    """node grid (ny+1, nx+1) -> x, y"""
    j, i = numpy.meshgrid(numpy.arange(ny + 1, dtype=float), numpy.arange(nx + 1, dtype=float), indexing='ij')
    if radial:
        r = 1.0 + j
        th = numpy.pi / 2 * i / max(nx, 1) * 0.9
        return 100 + r * numpy.cos(th), -10 + r * numpy.sin(th)
    return 100.0 + i + skew * j, -10.0 + j + 0.07 * i


def cf2d(ny=3, nx=4, *, bounds=None, as_coords=True, holes=(), skew=0.1, radial=False, ydim='j', xdim='i',
         lat_name='lat', lon_name='lon', attrs=None, time=2, depth=0, extra=True, std_names=True,
         first_plain=False, bounds_transposed=False, lon_transposed=False):
    gx, gy = curvilinear(ny, nx, skew, radial)
    cx = (gx[:-1, :-1] + gx[:-1, 1:] + gx[1:, 1:] + gx[1:, :-1]) / 4
    cy = (gy[:-1, :-1] + gy[:-1, 1:] + gy[1:, 1:] + gy[1:, :-1]) / 4
    for (hj, hi) in holes:
        if 0 <= hj < ny and 0 <= hi < nx:
            cx[hj, hi] = numpy.nan
            cy[hj, hi] = numpy.nan
    lat_attrs = {'units': 'degrees_north'}
    lon_attrs = {'units': 'degrees_east'}
    if std_names:
        lat_attrs['standard_name'] = 'latitude'
        lon_attrs['standard_name'] = 'longitude'
    data_vars, coords = {}, {}
    if first_plain:
        data_vars['botz'] = xarray.DataArray(_data((ny, nx), 0.25), dims=[ydim, xdim], attrs={'long_name': 'depth'})
    tgt = coords if as_coords else data_vars
    if bounds:
        lat_attrs['bounds'] = 'lat_bnds'
        lon_attrs['bounds'] = 'lon_bnds'
    tgt[lat_name] = xarray.DataArray(cy, dims=[ydim, xdim], attrs=lat_attrs)
    if lon_transposed:
        # the longitude variable stores its two dimensions the other way round than the latitude variable; xarray aligns by name and
        # CF does not ask for the same order. The grid is the latitude variable's (y, x).
        tgt[lon_name] = xarray.DataArray(cx.T.copy(), dims=[xdim, ydim], attrs=lon_attrs)
    else:
        tgt[lon_name] = xarray.DataArray(cx, dims=[ydim, xdim], attrs=lon_attrs)
    if bounds:
        bx = numpy.stack([gx[:-1, :-1], gx[:-1, 1:], gx[1:, 1:], gx[1:, :-1]], axis=-1)
        by = numpy.stack([gy[:-1, :-1], gy[:-1, 1:], gy[1:, 1:], gy[1:, :-1]], axis=-1)
        for (hj, hi) in holes:
            if 0 <= hj < ny and 0 <= hi < nx:
                bx[hj, hi] = numpy.nan
                by[hj, hi] = numpy.nan
        btgt = coords if bounds == 'coords' else data_vars
        if bounds_transposed:
            # bounds stored with the two grid dimensions the other way round than the coordinate: not the coordinate's grid,
            # they must not be used positionally
            btgt['lat_bnds'] = xarray.DataArray(by.transpose(1, 0, 2).copy(), dims=[xdim, ydim, 'four'])
            btgt['lon_bnds'] = xarray.DataArray(bx.transpose(1, 0, 2).copy(), dims=[xdim, ydim, 'four'])
        else:
            btgt['lat_bnds'] = xarray.DataArray(by, dims=[ydim, xdim, 'four'])
            btgt['lon_bnds'] = xarray.DataArray(bx, dims=[ydim, xdim, 'four'])
    if extra:
        tdims = (['time'] if time else []) + (['k'] if depth else [])
        tshape = ([time] if time else []) + ([depth] if depth else [])
        data_vars['temp'] = xarray.DataArray(_data(tuple(tshape) + (ny, nx)), dims=tdims + [ydim, xdim])
        data_vars['flipped'] = xarray.DataArray(_data((nx,) + tuple(tshape) + (ny,), 0.5), dims=[xdim] + tdims + [ydim])
        data_vars['count'] = xarray.DataArray(_data((ny, nx)).astype('int32'), dims=[ydim, xdim])
        if time:
            coords['time'] = xarray.DataArray(
                numpy.datetime64('2020-01-01') + numpy.arange(time) * numpy.timedelta64(1, 'D'), dims=['time'])
            coords['time'].encoding['units'] = 'days since 1990-01-01T00:00:00+10:00'
        if depth:
            coords['zc'] = xarray.DataArray(-numpy.arange(depth, dtype=float)[::-1] * 5.0 - 1, dims=['k'],
                                            attrs={'positive': 'up', 'axis': 'Z'})
    return xarray.Dataset(data_vars=data_vars, coords=coords, attrs=dict(attrs or {'title': 'cf2d'}))


def shoc_simple(ny=3, nx=4, **kw):
    kw.setdefault('lat_name', 'latitude')
    kw.setdefault('lon_name', 'longitude')
    kw.setdefault('attrs', {'ems_version': 'v1.2.3', 'title': 'shoc simple'})
    return cf2d(ny, nx, ydim='j', xdim='i', **kw)


def shoc_standard(ny=3, nx=4, *, node_holes=(), skew=0.1, radial=False, time=2, depth=2, as_coords=True, extra=True, fortran=False,
                  x_transposed=(), centre_holes=()):
    gx, gy = curvilinear(ny, nx, skew, radial)
    for (hj, hi) in node_holes:
        if 0 <= hj <= ny and 0 <= hi <= nx:
            gx[hj, hi] = numpy.nan
            gy[hj, hi] = numpy.nan

    def mean(*arrs):
        return sum(arrs) / len(arrs)
    x_centre = mean(gx[:-1, :-1], gx[:-1, 1:], gx[1:, 1:], gx[1:, :-1])
    y_centre = mean(gy[:-1, :-1], gy[:-1, 1:], gy[1:, 1:], gy[1:, :-1])
    for (hj, hi) in centre_holes:
        # a cell whose centre coordinates are missing although its four nodes are there: the cell is defined by its nodes
        x_centre[hj, hi] = numpy.nan
        y_centre[hj, hi] = numpy.nan
    x_left, y_left = mean(gx[:-1, :], gx[1:, :]), mean(gy[:-1, :], gy[1:, :])
    x_back, y_back = mean(gx[:, :-1], gx[:, 1:]), mean(gy[:, :-1], gy[:, 1:])
    data_vars, coords = {}, {}
    tgt = coords if as_coords else data_vars
    for name, arr, dims in [
        ('x_centre', x_centre, ['j_centre', 'i_centre']), ('y_centre', y_centre, ['j_centre', 'i_centre']),
        ('x_left', x_left, ['j_left', 'i_left']), ('y_left', y_left, ['j_left', 'i_left']),
        ('x_back', x_back, ['j_back', 'i_back']), ('y_back', y_back, ['j_back', 'i_back']),
        ('x_grid', gx, ['j_node', 'i_node']), ('y_grid', gy, ['j_node', 'i_node']),
    ]:
        if name in x_transposed:
            arr, dims = arr.T.copy(), dims[::-1]   # this x variable stores its two dimensions the other way round than its y variable
        if fortran:
            arr = numpy.asfortranarray(arr)        # same values, dimensions and shape; column-major memory layout
        tgt[name] = xarray.DataArray(arr, dims=dims, attrs={'units': 'degrees_east' if name[0] == 'x' else 'degrees_north'})
    if extra:
        tshape = ([time] if time else [])
        tdims = (['record'] if time else [])
        kshape = ([depth] if depth else [])
        kdims = (['k_centre'] if depth else [])
        data_vars['eta'] = xarray.DataArray(_data(tuple(tshape) + (ny, nx)), dims=tdims + ['j_centre', 'i_centre'])
        data_vars['temp'] = xarray.DataArray(_data(tuple(tshape + kshape) + (ny, nx)), dims=tdims + kdims + ['j_centre', 'i_centre'])
        data_vars['u1'] = xarray.DataArray(_data(tuple(tshape) + (ny, nx + 1), 0.1), dims=tdims + ['j_left', 'i_left'])
        data_vars['u2'] = xarray.DataArray(_data((ny + 1,) + tuple(tshape) + (nx,), 0.2), dims=['j_back'] + tdims + ['i_back'])
        data_vars['flag'] = xarray.DataArray(_data((ny + 1, nx + 1)).astype('int32'), dims=['j_node', 'i_node'])
        data_vars['botz'] = xarray.DataArray(_data((ny, nx), 0.7), dims=['j_centre', 'i_centre'])
        if time:
            coords['t'] = xarray.DataArray(
                numpy.datetime64('2020-01-01') + numpy.arange(time) * numpy.timedelta64(1, 'D'), dims=['record'])
            coords['t'].encoding['units'] = 'days since 1990-01-01T00:00:00+10:00'
        if depth:
            coords['z_centre'] = xarray.DataArray(-numpy.arange(depth, dtype=float)[::-1] * 5.0 - 1, dims=['k_centre'],
                                                  attrs={'positive': 'up', 'axis': 'Z'})
    return xarray.Dataset(data_vars=data_vars, coords=coords, attrs={'title': 'shoc standard'})


# --------------------------------------------------------------------------------- meshes


def quad_tri_mesh(ny=2, nx=3, *, split=(), merge=(), jitter=0.0, seed=0):
    """Structured ny x nx cells over a node lattice; cells in ``split`` become two triangles,
    pairs in ``merge`` ((j,i) merged with (j,i+1)) become one hexagon (with collinear vertices).
    Returns (node_x, node_y, faces) with faces as lists of node indexes, counter-clockwise."""
    rng = random.Random(seed)
    nid = lambda j, i: j * (nx + 1) + i
    node_x = numpy.array([100.0 + i + 0.1 * j + (rng.uniform(-jitter, jitter) if jitter else 0.0)
                          for j in range(ny + 1) for i in range(nx + 1)])
    node_y = numpy.array([-10.0 + j + 0.05 * i + (rng.uniform(-jitter, jitter) if jitter else 0.0)
                          for j in range(ny + 1) for i in range(nx + 1)])
    faces = []
    skip = set()
    for (j, i) in merge:
        if 0 <= j < ny and 0 <= i < nx - 1:
            skip.add((j, i + 1))
    for j in range(ny):
        for i in range(nx):
            if (j, i) in skip:
                continue
            if (j, i) in merge and i < nx - 1:
                faces.append([nid(j, i), nid(j, i + 1), nid(j, i + 2), nid(j + 1, i + 2), nid(j + 1, i + 1), nid(j + 1, i)])
            elif (j, i) in split:
                faces.append([nid(j, i), nid(j, i + 1), nid(j + 1, i + 1)])
                faces.append([nid(j, i), nid(j + 1, i + 1), nid(j + 1, i)])
            else:
                faces.append([nid(j, i), nid(j, i + 1), nid(j + 1, i + 1), nid(j + 1, i)])
    return node_x, node_y, faces


def mesh_tables(faces):
    """Reference (oracle) derived tables from the face-node lists."""
    edges = {}
    edge_list = []
    face_edges = []
    for f, nodes in enumerate(faces):
        fe = []
        for a, b in zip(nodes, nodes[1:] + nodes[:1]):
            key = frozenset((a, b))
            if key not in edges:
                edges[key] = len(edge_list)
                edge_list.append((min(a, b), max(a, b)))
            fe.append(edges[key])
        face_edges.append(fe)
    edge_faces = [[] for _ in edge_list]
    for f, fe in enumerate(face_edges):
        for e in fe:
            edge_faces[e].append(f)
    face_faces = [[] for _ in faces]
    for e, fs in enumerate(edge_faces):
        if len(fs) == 2:
            face_faces[fs[0]].append(fs[1])
            face_faces[fs[1]].append(fs[0])
    return edge_list, face_edges, edge_faces, face_faces


def _table(rows, width, start_index, fill_mode, fill_value=-999, pad_front=False):
    """rows of ints -> (array, attrs) in the requested fill representation."""
    n = len(rows)
    ragged = any(len(r) != width for r in rows)
    attrs = {}
    if start_index is not None:
        attrs['start_index'] = start_index
    si = start_index or 0
    if fill_mode == 'nan' or (fill_mode == 'none' and ragged and False):
        arr = numpy.full((n, width), numpy.nan, dtype=float)
        for k, r in enumerate(rows):
            sl = slice(width - len(r), width) if pad_front else slice(0, len(r))
            arr[k, sl] = numpy.array(r, dtype=float) + si
        return arr, attrs
    if fill_mode == 'uint_fill':
        # unsigned indexes with the netCDF default fill of the type in a _FillValue attribute (a netCDF-4 file opened without mask_and_scale,
        # or a dataset built in memory)
        fv = numpy.uint32(4294967295)
        arr = numpy.full((n, width), fv, dtype='uint32')
        for k, r in enumerate(rows):
            sl = slice(width - len(r), width) if pad_front else slice(0, len(r))
            arr[k, sl] = numpy.array(r, dtype='uint32') + si
        attrs['_FillValue'] = fv
        return arr, attrs
    if fill_mode == 'int_fill' or ragged:
        arr = numpy.full((n, width), fill_value, dtype='int32')
        for k, r in enumerate(rows):
            sl = slice(width - len(r), width) if pad_front else slice(0, len(r))
            arr[k, sl] = numpy.array(r, dtype='int32') + si
        attrs['_FillValue'] = numpy.int32(fill_value)
        return arr, attrs
    arr = numpy.array([list(r) for r in rows], dtype='int32').reshape(n, width) + si
    return arr.astype('int32'), attrs


def ugrid(ny=2, nx=3, *, split=(), merge=(), start_index=0, fill='auto', transposed=False,
          tables=(), edge_dimension='auto', edge_values=True, coords_as='vars', face_coords=False, time=2, extra=True,
          jitter=0.0, two_name='Two', face_dimension_attr=True, edge_transposed=False, mesh=None, edge_order='first-seen', depth=0,
          edge_face_missing_first=False, latitude_first=False, edge_coords=False, decoded_fill=-999):
    """decoded_fill: with fill='nan' (tables as xarray decodes them) the _FillValue the file used, remembered in the encoding.
    tables: subset of {'edge_node','face_edge','edge_face','face_face'} to supply.
    fill: 'auto' (int with _FillValue when ragged, none otherwise) | 'nan' | 'int_fill'."""
    node_x, node_y, faces = mesh if mesh is not None else quad_tri_mesh(ny, nx, split=split, merge=merge, jitter=jitter)
    edge_list, face_edges, edge_faces, face_faces = mesh_tables(faces)
    if edge_order == 'reverse':        # a file is free to number its edges as it likes
        ne = len(edge_list)
        edge_list, edge_faces = edge_list[::-1], edge_faces[::-1]
        face_edges = [[ne - 1 - e for e in fe] for fe in face_edges]
    nface, nnode, nedge = len(faces), len(node_x), len(edge_list)
    maxn = max(len(f) for f in faces)
    fmode = {'auto': 'none', 'nan': 'nan', 'int_fill': 'int_fill', 'uint_fill': 'uint_fill'}[fill]
    mesh_attrs = {'cf_role': 'mesh_topology', 'topology_dimension': 2, 'node_coordinates': 'Mesh2_node_x Mesh2_node_y',
                  'face_node_connectivity': 'Mesh2_face_nodes'}
    if face_dimension_attr:
        mesh_attrs['face_dimension'] = 'nMesh2_face'
    data_vars, coords = {}, {}
    ctgt = coords if coords_as == 'coords' else data_vars
    ctgt['Mesh2_node_x'] = xarray.DataArray(node_x, dims=['nMesh2_node'], attrs={'units': 'degrees_east'})
    ctgt['Mesh2_node_y'] = xarray.DataArray(node_y, dims=['nMesh2_node'], attrs={'units': 'degrees_north'})

    def put(name, rows, width, rowdim, coldim, role, tr=False):
        # a boundary edge may be stored as [missing, face] as well as [face, missing]
        arr, attrs = _table(rows, width, start_index, fmode, pad_front=(edge_face_missing_first and role == 'edge_face_connectivity'))
        attrs['cf_role'] = role
        dims = [rowdim, coldim]
        if tr:
            arr, dims = arr.T.copy(), dims[::-1]
        data_vars[name] = xarray.DataArray(arr, dims=dims, attrs=attrs)
        if fmode == 'nan':
            # what xarray hands over after decoding an integer table with a _FillValue: float data, the file's type and fill in .encoding
            data_vars[name].encoding.update({'dtype': numpy.dtype('int32'), '_FillValue': numpy.int32(decoded_fill)})
    put('Mesh2_face_nodes', faces, maxn, 'nMesh2_face', 'nMaxMesh2_face_nodes', 'face_node_connectivity', transposed)
    has_edge_dim = bool({'edge_node', 'edge_face'} & set(tables)) or edge_dimension is True
    if edge_dimension is True or (edge_dimension == 'auto' and has_edge_dim):
        mesh_attrs['edge_dimension'] = 'nMesh2_edge'
    if 'edge_node' in tables:
        mesh_attrs['edge_node_connectivity'] = 'Mesh2_edge_nodes'
        put('Mesh2_edge_nodes', [list(e) for e in edge_list], 2, 'nMesh2_edge', two_name, 'edge_node_connectivity', edge_transposed)
    if 'face_edge' in tables:
        mesh_attrs['face_edge_connectivity'] = 'Mesh2_face_edges'
        put('Mesh2_face_edges', face_edges, maxn, 'nMesh2_face', 'nMaxMesh2_face_nodes', 'face_edge_connectivity', transposed)
    if 'edge_face' in tables:
        mesh_attrs['edge_face_connectivity'] = 'Mesh2_edge_faces'
        put('Mesh2_edge_faces', edge_faces, 2, 'nMesh2_edge', two_name, 'edge_face_connectivity')
    if 'face_face' in tables:
        mesh_attrs['face_face_connectivity'] = 'Mesh2_face_links'
        put('Mesh2_face_links', face_faces, maxn, 'nMesh2_face', 'nMaxMesh2_face_nodes', 'face_face_connectivity', transposed)
    if face_coords:
        mesh_attrs['face_coordinates'] = 'Mesh2_face_x Mesh2_face_y'
        fx = numpy.array([numpy.mean(node_x[f]) for f in faces])
        fy = numpy.array([numpy.mean(node_y[f]) for f in faces])
        ctgt['Mesh2_face_x'] = xarray.DataArray(fx, dims=['nMesh2_face'])
        ctgt['Mesh2_face_y'] = xarray.DataArray(fy, dims=['nMesh2_face'])
    if edge_coords:
        # characteristic edge positions (midpoints) named by the mesh variable - possibly by a mesh that defines no edge dimension at all
        mesh_attrs['edge_coordinates'] = 'Mesh2_edge_x Mesh2_edge_y'
        ex = numpy.array([(node_x[a] + node_x[b]) / 2 for a, b in edge_list])
        ey = numpy.array([(node_y[a] + node_y[b]) / 2 for a, b in edge_list])
        ctgt['Mesh2_edge_x'] = xarray.DataArray(ex, dims=['nMesh2_edge'])
        ctgt['Mesh2_edge_y'] = xarray.DataArray(ey, dims=['nMesh2_edge'])
    if latitude_first:
        # the file lists latitude before longitude (and says so with CF attributes): first-listed = first coordinate everywhere
        mesh_attrs['node_coordinates'] = 'Mesh2_node_y Mesh2_node_x'
        ctgt['Mesh2_node_y'].attrs['standard_name'] = 'latitude'
        ctgt['Mesh2_node_x'].attrs['standard_name'] = 'longitude'
        if face_coords:
            mesh_attrs['face_coordinates'] = 'Mesh2_face_y Mesh2_face_x'
            ctgt['Mesh2_face_y'].attrs.update({'standard_name': 'latitude', 'units': 'degrees_north'})
            ctgt['Mesh2_face_x'].attrs.update({'standard_name': 'longitude', 'units': 'degrees_east'})
    data_vars['Mesh2'] = xarray.DataArray(numpy.int32(0), attrs=mesh_attrs)
    if extra:
        tshape = ([time] if time else [])
        tdims = (['time'] if time else [])
        zshape, zdims = ([depth] if depth else []), (['Mesh2_layers'] if depth else [])
        data_vars['temp'] = xarray.DataArray(_data(tuple(tshape) + tuple(zshape) + (nface,)), dims=tdims + zdims + ['nMesh2_face'])
        if depth:
            coords['Mesh2_layers'] = xarray.DataArray(numpy.arange(depth, dtype=float) * 5.0 + 1.0, dims=['Mesh2_layers'],
                                                      attrs={'positive': 'down', 'axis': 'Z', 'standard_name': 'depth'})
        data_vars['flipped'] = xarray.DataArray(_data((nface,) + tuple(tshape), 0.5), dims=['nMesh2_face'] + tdims)
        data_vars['node_val'] = xarray.DataArray(_data((nnode,), 0.25), dims=['nMesh2_node'])
        data_vars['count'] = xarray.DataArray(_data((nface,)).astype('int32'), dims=['nMesh2_face'])
        if 'edge_dimension' in mesh_attrs and edge_values:
            data_vars['edge_val'] = xarray.DataArray(_data(tuple(tshape) + (nedge,), 0.75), dims=tdims + ['nMesh2_edge'])
        if time:
            coords['time'] = xarray.DataArray(
                numpy.datetime64('2020-01-01') + numpy.arange(time) * numpy.timedelta64(1, 'D'), dims=['time'])
            coords['time'].encoding['units'] = 'days since 1990-01-01T00:00:00+10:00'
    # the mesh variable first, like the sample files
    ordered = {'Mesh2': data_vars.pop('Mesh2')}
    ordered.update(data_vars)
    ds = xarray.Dataset(data_vars=ordered, coords=coords, attrs={'Conventions': 'UGRID-1.0', 'title': 'ugrid'})
    ds.attrs['_oracle_note'] = 'generated'
    return ds


CONVENTION_CLASS = {
    'cf1d': 'CFGrid1D', 'cf2d': 'CFGrid2D', 'shoc_simple': 'ShocSimple', 'shoc_standard': 'ShocStandard',
    'ugrid': 'UGrid',
}
BUILDERS = {'cf1d': cf1d, 'cf2d': cf2d, 'shoc_simple': shoc_simple, 'shoc_standard': shoc_standard, 'ugrid': ugrid}


def build(spec):
    """spec = {'conv': name, **kwargs} (JSON-able) -> dataset"""
    spec = dict(spec)
    conv = spec.pop('conv')
    for k in ('holes', 'node_holes', 'centre_holes', 'split', 'merge', 'tables'):
        if k in spec:
            spec[k] = tuple(tuple(x) if isinstance(x, list) else x for x in spec[k])
    return BUILDERS[conv](**spec)


def shapes(tier):
    if tier == 'quick':
        return [(1, 1), (1, 4), (3, 1), (2, 3), (3, 2)]
    return [(1, 1), (1, 2), (2, 1), (1, 5), (4, 1), (2, 2), (2, 3), (3, 2), (3, 5), (5, 3), (4, 4)]


def all_specs(tier='quick', conventions=None):
    """A spread of dataset specs over every convention."""
    out = []
    for (ny, nx) in shapes(tier):
        out.append({'conv': 'cf1d', 'ny': ny, 'nx': nx})
        out.append({'conv': 'cf1d', 'ny': ny, 'nx': nx, 'bounds': 'vars', 'descending_lat': True})
        out.append({'conv': 'cf2d', 'ny': ny, 'nx': nx})
        out.append({'conv': 'cf2d', 'ny': ny, 'nx': nx, 'bounds': 'vars', 'holes': [[0, 0]] if ny * nx > 1 else []})
        out.append({'conv': 'shoc_simple', 'ny': ny, 'nx': nx, 'bounds': 'vars'})
        out.append({'conv': 'shoc_standard', 'ny': ny, 'nx': nx})
        out.append({'conv': 'ugrid', 'ny': ny, 'nx': nx})
        out.append({'conv': 'ugrid', 'ny': ny, 'nx': nx, 'split': [[0, 0]], 'tables': ['edge_node'], 'start_index': 1})
    if tier != 'quick':
        out.append({'conv': 'cf2d', 'ny': 4, 'nx': 5, 'radial': True, 'holes': [[1, 1], [2, 3]]})
        out.append({'conv': 'shoc_standard', 'ny': 4, 'nx': 3, 'node_holes': [[0, 0], [0, 1]]})
        out.append({'conv': 'ugrid', 'ny': 3, 'nx': 4, 'split': [[0, 0], [1, 2]], 'merge': [[2, 0]],
                    'tables': ['edge_node', 'face_edge', 'edge_face', 'face_face'], 'fill': 'nan', 'transposed': True})
    if conventions:
        out = [s for s in out if s['conv'] in conventions]
    return out


def expected_grids(spec):
    """Oracle: {kind name: shape} each convention must report for ``spec`` (independent of emsarray)."""
    conv = spec['conv']
    ny, nx = spec.get('ny', {'cf1d': 3, 'cf2d': 3, 'shoc_simple': 3, 'shoc_standard': 3, 'ugrid': 2}[conv]), \
        spec.get('nx', {'ugrid': 3}.get(conv, 4))
    if conv in ('cf1d', 'cf2d', 'shoc_simple'):
        return {'face': (ny, nx)}
    if conv == 'shoc_standard':
        return {'face': (ny, nx), 'left': (ny, nx + 1), 'back': (ny + 1, nx), 'node': (ny + 1, nx + 1)}
    node_x, node_y, faces = quad_tri_mesh(ny, nx, split=tuple(map(tuple, spec.get('split', ()))),
                                          merge=tuple(map(tuple, spec.get('merge', ()))))
    edge_list = mesh_tables(faces)[0]
    out = {'face': (len(faces),), 'node': (len(node_x),)}
    tables = set(spec.get('tables', ()))
    if {'edge_node', 'edge_face'} & tables or spec.get('edge_dimension') is True:
        out['edge'] = (len(edge_list),)
    return out


def expected_geometry_names(spec):
    """Oracle: the variables that define the geometry of ``spec`` (independent of emsarray's inventory)."""
    conv = spec['conv']
    if conv == 'cf1d':
        names = [spec.get('lon_name', 'lon'), spec.get('lat_name', 'lat')]
        if spec.get('bounds'):
            names += ['lon_bnds', 'lat_bnds']
        return names
    if conv in ('cf2d', 'shoc_simple'):
        d = 'longitude' if conv == 'shoc_simple' else 'lon'
        e = 'latitude' if conv == 'shoc_simple' else 'lat'
        names = [spec.get('lon_name', d), spec.get('lat_name', e)]
        if spec.get('bounds'):
            names += ['lon_bnds', 'lat_bnds']
        return names
    if conv == 'shoc_standard':
        return ['x_centre', 'y_centre', 'x_grid', 'y_grid', 'x_left', 'y_left', 'x_back', 'y_back']
    names = ['Mesh2', 'Mesh2_face_nodes', 'Mesh2_node_x', 'Mesh2_node_y']
    t = set(spec.get('tables', ()))
    names += [n for k, n in (('edge_node', 'Mesh2_edge_nodes'), ('face_edge', 'Mesh2_face_edges'), ('edge_face', 'Mesh2_edge_faces'),
                             ('face_face', 'Mesh2_face_links')) if k in t]
    if spec.get('edge_coords'):
        names += ['Mesh2_edge_x', 'Mesh2_edge_y']
    if spec.get('face_coords'):
        names += ['Mesh2_face_x', 'Mesh2_face_y']
    return names
