"""Run the bounded stand-ins of one property on the REAL code (/venv/bin/python, editable install of /repo).

usage: run_native.py Cxx --tier quick|thorough --seed N --out report.json [--only check]
A native module defines CHECKS = [Check(...)]; every check enumerates / generates JSON-able inputs and
evaluates the same postcondition as the deductive obligation on real objects.
"""
from __future__ import annotations

import argparse
import importlib
import json
import os
import sys
import time
import traceback
import warnings

ROOT = os.path.dirname(os.path.dirname(os.path.abspath(__file__)))
sys.path.insert(0, ROOT)


from harness.common import Check, Failure, must, must_raise  # noqa: E402,F401


def run_check(chk, tier, seed, max_fail=3):
    n = 0
    distinct = set()
    failures = []
    t0 = time.time()
    for inp in chk.gen(tier, seed):
        n += 1
        try:
            distinct.add(json.dumps(inp, sort_keys=True, default=str))
        except TypeError:
            distinct.add(repr(inp))
        try:
            with warnings.catch_warnings():
                warnings.simplefilter('ignore')
                detail = chk.test(inp)
        except Failure as f:
            detail = str(f)
        if detail:
            key = chk.key(inp, detail)
            if sum(1 for x in failures if x['key'] == key) < max_fail:
                failures.append({'check': chk.name, 'key': key, 'input': inp, 'detail': str(detail)[:2000]})
    return {'function': chk.name, 'space': chk.space, 'bound': chk.bound, 'cases': n, 'distinct': len(distinct),
            'exhaustive': chk.exhaustive, 'failures': len(failures), 'wall_s': round(time.time() - t0, 2)}, failures


def main():
    ap = argparse.ArgumentParser()
    ap.add_argument('prop')
    ap.add_argument('--tier', default='quick')
    ap.add_argument('--seed', type=int, default=0)
    ap.add_argument('--out', required=True)
    ap.add_argument('--only', default=None)
    a = ap.parse_args()
    warnings.simplefilter('ignore')
    rep = {'evaluations': 0, 'distinct': 0, 'bounded': [], 'failures': [], 'rule': ''}
    try:
        mod = importlib.import_module('harness.native.' + a.prop)
        rules = []
        for chk in mod.CHECKS:
            if a.only and chk.name != a.only:
                continue
            summ, fails = run_check(chk, a.tier, a.seed)
            rep['bounded'].append(summ)
            rep['failures'].extend(fails)
            rep['evaluations'] += summ['cases']
            rep['distinct'] += summ['distinct']
            rules.append(f"{chk.name}: {chk.space} [{chk.bound}]")
        rep['rule'] = ' | '.join(rules) + ' ; distinct = distinct JSON-serialised inputs'
    except Exception as e:
        rep['error'] = f'{type(e).__name__}: {e}\n{traceback.format_exc()[-3000:]}'
    json.dump(rep, open(a.out, 'w'), default=str)


if __name__ == '__main__':
    main()
