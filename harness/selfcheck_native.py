"""Native side of the executor-vs-CPython self-check: run the real functions on the shared concrete cases, write JSON."""
import json
import os
import sys
import warnings

sys.path.insert(0, os.path.dirname(os.path.dirname(os.path.abspath(__file__))))
import numpy
import xarray

import emsarray  # noqa: F401
from emsarray import masking
from emsarray.conventions.ugrid import Mesh2DTopology
from emsarray.operations.depth import normalize_depth_variables
from tools.selfcheck_cases import cases


def tolist(a):
    if numpy.ma.isMaskedArray(a):
        mask = numpy.ma.getmaskarray(a)
        data = numpy.asarray(a.data)
        flat = [None if m else (x.item() if hasattr(x, 'item') else x) for x, m in zip(data.ravel(), mask.ravel())]
        return numpy.array(flat, dtype=object).reshape(data.shape).tolist()
    a = numpy.asarray(a)
    if a.dtype.kind == 'f':
        return json.loads(json.dumps(a.tolist()).replace('NaN', 'null'))
    return a.tolist()


def run(case):
    f = case['fn']
    warnings.simplefilter('ignore')
    if f == 'blur_mask':
        return tolist(masking.blur_mask(numpy.array(case['mask'], dtype=bool), size=case['size']))
    if f == 'smear_mask':
        return tolist(masking.smear_mask(numpy.array(case['mask'], dtype=bool), case['pad']))
    if f == 'calculate_grid_mask_bounds':
        m = xarray.Dataset({'cell_mask': (('y', 'x'), numpy.array(case['mask'], dtype=bool))})
        b = masking.calculate_grid_mask_bounds(m)
        return {str(k): [int(v.start), int(v.stop)] for k, v in b.items()}
    if f == 'mask_grid_data_array':
        m = xarray.Dataset({'cell_mask': (('y', 'x'), numpy.array(case['mask'], dtype=bool))})
        da = xarray.DataArray(numpy.array(case['data'], dtype=case.get('dtype', 'float64')), dims=case['dims'], attrs=case.get('attrs', {}), name='v')
        r = masking.mask_grid_data_array(m, da)
        return {'dims': list(r.dims), 'values': tolist(r.values), 'attrs': {k: (v.item() if hasattr(v, 'item') else v) for k, v in r.attrs.items()}}
    if f == 'face_node_array':
        ds = mesh_dataset(case)
        return tolist(Mesh2DTopology(ds).face_node_array)
    if f == 'normalize_depth_variables':
        ds = xarray.Dataset({'temp': (('k', 'x'), numpy.array(case['temp']))}, coords={'zc': ('k', numpy.array(case['z']), {'positive': case['positive']})})
        out = normalize_depth_variables(ds, ['zc'], positive_down=case['p'], deep_to_shallow=case['o'])
        return {'z': tolist(out['zc'].values), 'positive': out['zc'].attrs.get('positive'), 'temp': tolist(out['temp'].values)}
    if f == 'cf1d_index':
        ny, nx = case['shape']
        ds = xarray.Dataset({'temp': (('lat', 'lon'), numpy.zeros((ny, nx)))},
                            coords={'lat': ('lat', numpy.arange(ny) * 1.0, {'units': 'degrees_north'}), 'lon': ('lon', numpy.arange(nx) * 1.0, {'units': 'degrees_east'})})
        ems = ds.ems
        return {'wind': [list(map(int, ems.wind_index(n))) for n in range(ny * nx)], 'ravel': [int(ems.ravel_index((j, i))) for j in range(ny) for i in range(nx)]}
    if f == 'np_view_store':
        a = numpy.array([[10, 11], [20, 21], [30, 31]])
        how = case['how']
        if how == 'transpose-row-mask':
            x, y = numpy.transpose(a)
            x[numpy.array([True, False, True])] = -1
        elif how == 'slice-element':
            v = a[1:3]
            v[0, 1] = -5
        elif how == 'row-slice':
            v = a[2]
            v[0] = 7
        else:
            v = a[:, 1]
            v[1] = -9
        return {'a': a.tolist()}
    if f == 'np_median':
        return {'m': float(numpy.median(numpy.array(case['vals'])))}
    if f == 'np_roll':
        return {'r': numpy.roll(numpy.arange(12).reshape(3, 4), case['shift'], axis=case['axis']).tolist()}
    if f == 'np_clip':
        return {'r': numpy.clip(numpy.array([-4, -1, 0, 2, 3, 7]), case['lo'], case['hi']).tolist()}
    if f == 'np_where':
        wrap = lambda v: numpy.array(v) if isinstance(v, list) else v
        r = numpy.where(numpy.array(case['cond']), wrap(case['x']), wrap(case['y']))
        return {'r': r.tolist(), 'kind': r.dtype.kind}
    if f == 'np_bool_arith':
        m = numpy.array(case['mask'])
        ints = numpy.arange(len(case['mask']))
        return {'sub': (case['n'] - m).tolist(), 'add': (m + ints).tolist(), 'mul': (ints * m).tolist(), 'app': numpy.append(ints, ints[0]).tolist()}
    if f == 'np_linspace':
        return {'r': numpy.linspace(case['a'], case['b'], case['n']).tolist()}
    if f == 'np_unique_small':
        u, first, inv, cnt = numpy.unique(numpy.array(case['vals']), return_index=True, return_inverse=True, return_counts=True)
        return {'u': u.tolist(), 'first': first.tolist(), 'inv': inv.tolist(), 'cnt': cnt.tolist()}
    if f == 'np_slice_store':
        a = numpy.array([[10, 11], [20, 21], [30, 31], [40, 41]])
        v = case['val']
        a[case['lo']:case['hi']] = numpy.array(v) if isinstance(v, list) else v
        return {'a': a.tolist()}
    if f == 'np_mask_slice':
        a = numpy.arange(12).reshape(3, 4)
        m = numpy.array(case['mask'])
        return {'r': (a[m, :case['stop']] if case['axis'] == 0 else a[:case['stop'], m]).tolist()}
    if f == 'np_diff':
        kw = {k: case[k] for k in ('prepend', 'append') if case[k] is not None}
        return {'d': numpy.diff(numpy.array(case['vals']), **kw).tolist()}
    if f == 'np_reshape':
        vals = numpy.arange(int(numpy.prod(case['shape'])))
        if case['layout'] == 'F' and len(case['shape']) > 1:
            a = vals.reshape(case['shape'][::-1]).T
        else:
            a = vals.reshape(case['shape'])
        return {'r': numpy.reshape(a, tuple(case['new']), order=case['order']).tolist()}
    raise KeyError(f)


def mesh_dataset(case):
    faces, si, fill = case['faces'], case['start_index'], case['fill']
    maxn = max(map(len, faces))
    if fill == 'nan':
        arr = numpy.full((len(faces), maxn), numpy.nan)
    else:
        arr = numpy.full((len(faces), maxn), -999, dtype='int32')
    for k, f in enumerate(faces):
        arr[k, :len(f)] = numpy.array(f) + si
    attrs = {'cf_role': 'face_node_connectivity', 'start_index': si}
    if fill == 'int_fill':
        attrs['_FillValue'] = numpy.int32(-999)
    dims = ['nface', 'maxn']
    if case['transposed']:
        arr, dims = arr.T.copy(), dims[::-1]
    return xarray.Dataset({
        'mesh': ((), numpy.int32(0), {'cf_role': 'mesh_topology', 'topology_dimension': 2, 'node_coordinates': 'node_x node_y',
                                       'face_node_connectivity': 'face_node', 'face_dimension': 'nface'}),
        'node_x': (('nnode',), numpy.arange(case['nnode']) * 1.0), 'node_y': (('nnode',), numpy.arange(case['nnode']) * 0.5),
        'face_node': (dims, arr, attrs)}, attrs={'Conventions': 'UGRID-1.0'})


if __name__ == '__main__':
    res = {}
    for case in cases(int(sys.argv[2]) if len(sys.argv) > 2 else 0):
        try:
            res[case['id']] = {'ok': run(case)}
        except Exception as e:
            res[case['id']] = {'raise': type(e).__name__}
    json.dump(res, open(sys.argv[1], 'w'))
