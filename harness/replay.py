"""Replay a violation file against the real code:  /venv/bin/python harness/replay.py replays/Cxx-....json
exit 1 if the recorded concrete input still violates the property, 0 if it no longer does,
2 if the file carries no concrete input (obligation-only report)."""
from __future__ import annotations

import importlib
import json
import os
import sys
import warnings

ROOT = os.path.dirname(os.path.dirname(os.path.abspath(__file__)))
sys.path.insert(0, ROOT)


def main():
    path = sys.argv[1]
    if not os.path.isabs(path):
        path = os.path.join(ROOT, path)
    data = json.load(open(path))
    print('property:', data['property'])
    print('failed obligation:', data.get('failed_obligation'))
    if not data.get('native_check') or data.get('concrete_input') is None:
        print('no concrete failing input recorded (no-failing-input-found); solver model:')
        print(json.dumps(data.get('solver_model'), indent=1)[:3000])
        return 2
    from harness.common import Failure
    mod = importlib.import_module('harness.native.' + data['property'])
    chk = next(c for c in mod.CHECKS if c.name == data['native_check'])
    warnings.simplefilter('ignore')
    try:
        detail = chk.test(data['concrete_input'])
    except Failure as f:
        detail = str(f)
    print('input:', json.dumps(data['concrete_input'])[:2000])
    if detail:
        print('STILL FAILS:', detail)
        return 1
    print('passes now')
    return 0


if __name__ == '__main__':
    sys.exit(main())
