"""C12 bounded stand-in / replay: ocean_floor on real datasets (plain xarray datasets and convention datasets)."""
from __future__ import annotations

import itertools
import random
import warnings

import numpy
import xarray

import emsarray  # noqa: F401
from emsarray.operations.depth import ocean_floor
from harness import datasets
from harness.common import Check, Failure, must

LAYOUTS = [('t', 'k', 'y', 'x'), ('k', 't', 'y', 'x'), ('t', 'y', 'x', 'k'), ('k', 'y', 'x'), ('y', 't', 'k', 'x'), ('t', 'k', 'n')]
SIZES = {'t': 2, 'k': 4, 'y': 2, 'x': 3, 'n': 5, 'kg': 5}


def wet_pattern(shape_kind, rng, nk, ncol):
    """wet[k, col] in *stored* order is produced by the caller; here: per column the set of wet layers by physical rank
    (rank 0 = shallowest)"""
    cols = []
    for c in range(ncol):
        if shape_kind == 'stairs':
            n = c % (nk + 1)
            cols.append(set(range(n)))
        elif shape_kind == 'gaps':              # a missing layer in the middle of the column
            n = 1 + (c % nk)
            w = set(range(n))
            if n >= 3:
                w.discard(1 + c % (n - 2))
            cols.append(w)
        elif shape_kind == 'dry-top':           # dry layers above the surface (z-level models)
            top = c % nk
            cols.append(set(range(top, nk)) if c % 3 else set(range(top, max(top, nk - 1))))
        else:
            cols.append({r for r in range(nk) if rng.random() < 0.6})
    return cols


def make(inp):
    rng = random.Random(inp['seed'])
    nk = SIZES['k']
    positive, order = inp['positive'], inp['order']
    # physical depth (positive down) by rank, shallow -> deep
    # physical depth (positive down) by rank; 'tidal' axes start above the datum, 'sentinel' axes carry a huge top face
    depth_by_rank = numpy.array({'tidal': [-2.5, -1.0, 0.0, 1.5], 'sentinel': [-1e35, 1.0, 3.0, 6.0]}.get(inp.get('axis'), [0.5, 2.0, 5.0, 11.0]))
    ranks = numpy.arange(nk) if order == 'shallow-to-deep' else numpy.arange(nk)[::-1]     # rank of stored layer k
    z = depth_by_rank[ranks] * (1 if str(positive).lower() in ('down', 'none') else -1)
    attrs = {'long_name': 'depth'}
    if positive is not None:
        attrs['positive'] = positive
    coords = {inp.get('zname', 'zc'): xarray.DataArray(z, dims=['k'], attrs=attrs),
              'time': xarray.DataArray(numpy.arange(SIZES['t']) * 1.0, dims=['t'], attrs={'standard_name': 'time'})}
    if inp.get('second'):
        coords['height'] = xarray.DataArray(-z, dims=['k'], attrs={'positive': 'up' if str(positive).lower() in ('down', 'none') else 'down'})
    data_vars = {}
    expect = {}
    for name, dims in inp['vars'].items():
        dims = tuple(dims)
        if 'k' not in dims:
            data_vars[name] = xarray.DataArray(rng_array(rng, [SIZES[d] for d in dims]), dims=dims, attrs={'units': 'm'})
            continue
        loc = [d for d in dims if d not in ('k', 't')]
        ncol = int(numpy.prod([SIZES[d] for d in loc])) if loc else 1
        cols = inp['_cols'].setdefault(tuple(loc), wet_pattern(inp['shape'], rng, nk, ncol))
        canon = ['t'] * ('t' in dims) + ['k'] + loc
        dtype = inp.get('dtypes', {}).get(name, 'float64')
        vals = rng_array(rng, [SIZES[d] for d in canon])
        gapless = dtype != 'float64'
        if dtype == 'gapless-float':
            dtype = 'float64'
        elif dtype != 'float64':
            vals = (vals * 100).astype(dtype)
        arr = vals.reshape([SIZES['t']] * ('t' in dims) + [nk, ncol]).copy()
        want = numpy.full(arr.shape[:-2] + (ncol,), numpy.nan) if dtype == 'float64' else numpy.zeros(arr.shape[:-2] + (ncol,), dtype=dtype)
        for c, wet in enumerate(cols):
            for k in range(nk):
                if not gapless and ranks[k] not in wet:
                    arr[..., k, c] = numpy.nan
            if gapless:
                deepest = int(numpy.argmax(ranks))
                want[..., c] = arr[..., deepest, c]
            elif wet:
                deepest = int(numpy.where(ranks == max(wet))[0][0])
                want[..., c] = arr[..., deepest, c]
        da = xarray.DataArray(arr.reshape([SIZES[d] for d in canon]), dims=canon, attrs={'units': 'u-' + name}).transpose(*dims)
        data_vars[name] = da.copy()
        wdims = [d for d in canon if d != 'k']
        expect[name] = xarray.DataArray(want.reshape([SIZES[d] for d in wdims]), dims=wdims)
    ds = xarray.Dataset(data_vars=data_vars, coords=coords, attrs={'title': 'run'})
    return ds, expect


def rng_array(rng, shape):
    n = int(numpy.prod(shape)) if shape else 1
    return numpy.array([rng.uniform(-50, 50) for _ in range(n)]).reshape(shape)


def gen(tier, seed):
    base_vars = lambda lay: {'temp': lay, 'salt': tuple(d for d in ('t', 'k', 'y', 'x', 'n') if d in lay), 'eta': tuple(d for d in lay if d != 'k'),
                             'profile': ('t', 'k'),
                             # a static depth-resolved field (layer thickness): depth and the horizontal dimensions, no time
                             'thickness': tuple(d for d in ('k', 'y', 'x', 'n') if d in lay)}
    shapes = ('stairs', 'gaps', 'dry-top', 'random')
    for positive, order, lay, shape in itertools.product(('up', 'down', None, 'DOWN'), ('shallow-to-deep', 'deep-to-shallow'), LAYOUTS, shapes):
        if tier == 'quick' and shape == 'random' and lay not in LAYOUTS[:2]:
            continue
        yield {'positive': positive, 'order': order, 'vars': base_vars(lay), 'shape': shape, 'seed': seed, 'nonspatial': 't' in lay}
    for axis, positive, order, shape in itertools.product(('tidal', 'sentinel'), ('up', 'down'), ('shallow-to-deep', 'deep-to-shallow'), ('stairs', 'gaps')):
        # depth axes whose surface end is further from zero than their deep end (layers above the datum)
        yield {'positive': positive, 'order': order, 'vars': base_vars(LAYOUTS[0]), 'shape': shape, 'seed': seed, 'nonspatial': True, 'axis': axis}
    for given in ('tuple', 'iterator', 'generator'):
        # the documented argument type is any iterable: also a one-shot one
        yield {'positive': 'down', 'order': 'shallow-to-deep', 'vars': base_vars(LAYOUTS[0]), 'shape': 'stairs', 'seed': seed, 'nonspatial': True, 'given': given}
    for order, shape in itertools.product(('shallow-to-deep', 'deep-to-shallow'), shapes):
        yield {'positive': 'down', 'order': order, 'vars': base_vars(LAYOUTS[0]), 'shape': shape, 'seed': seed, 'second': True, 'nonspatial': True}
        yield {'positive': 'up', 'order': order, 'vars': base_vars(LAYOUTS[0]), 'shape': shape, 'seed': seed, 'zname': 'k', 'nonspatial': True}
        yield {'positive': 'up', 'order': order, 'vars': base_vars(LAYOUTS[0]), 'shape': shape, 'seed': seed, 'nonspatial': False}
        # an integer variable (holds data in every layer) next to float variables, in either order
        for first in ('flag', 'temp'):
            for dt in ('int32', 'gapless-float'):
                v = {'flag': ('t', 'k', 'y', 'x'), 'temp': ('t', 'k', 'y', 'x')} if first == 'flag' else {'temp': ('t', 'k', 'y', 'x'), 'flag': ('t', 'k', 'y', 'x')}
                yield {'positive': 'down', 'order': order, 'vars': v, 'shape': shape, 'seed': seed, 'dtypes': {'flag': dt}, 'nonspatial': True, 'mixed': first}


def test(inp):
    inp = dict(inp)
    inp['_cols'] = {}
    with warnings.catch_warnings():
        warnings.simplefilter('ignore')
        ds, expect = make(inp)
        names = [inp.get('zname', 'zc')] + (['height'] if inp.get('second') else [])
        snapshot = ds.copy(deep=True)
        kw = {'non_spatial_variables': ['time']} if inp['nonspatial'] else {}
        given = inp.get('given', 'list')
        arg = {'list': names, 'tuple': tuple(names), 'iterator': iter(list(names)), 'generator': (ds[nm] for nm in list(names))}[given]
        out = must(lambda: ocean_floor(ds, arg, **kw), f'ocean_floor (depth coordinates given as a {given})')
    if not ds.identical(snapshot):
        return 'the input dataset was modified'
    if 'k' in out.dims:
        return 'the depth dimension is still present'
    for n in names:
        if n in out.variables:
            return f'depth coordinate {n!r} is still present'
    if out.attrs != ds.attrs:
        return 'global attributes changed'
    for name, v in ds.variables.items():
        if 'k' in v.dims:
            continue
        if name not in out.variables:
            return f'{name!r} (no depth dimension) was dropped'
        o = out.variables[name]
        if o.dims != v.dims or o.attrs != v.attrs or o.values.tobytes() != v.values.tobytes():
            return f'{name!r} (no depth dimension) was altered'
    for name, want in expect.items():
        if name == 'profile':
            continue
        if inp.get('mixed') and name == 'flag':
            continue       # a variable that cannot be missing, grouped with float variables: which layer is "its floor" is not specified
        if name not in out.data_vars:
            return f'{name!r} was dropped'
        o = out[name]
        if set(o.dims) != set(want.dims):
            return f'{name!r}: dims {o.dims}, expected {tuple(want.dims)}'
        if o.attrs != ds[name].attrs:
            return f'{name!r}: attributes changed'
        got = o.transpose(*want.dims).values
        w = want.values
        if got.dtype.kind == 'f':
            ok = numpy.array_equal(numpy.isnan(got), numpy.isnan(w)) and numpy.array_equal(got[~numpy.isnan(got)], w[~numpy.isnan(w)])
        else:
            ok = numpy.array_equal(got, w)
        if not ok:
            bad = numpy.argwhere(~((got == w) | (numpy.isnan(got) & numpy.isnan(w)))) if got.dtype.kind == 'f' else numpy.argwhere(got != w)
            i = tuple(bad[0])
            return f'{name!r}{tuple(want.dims)} at {i}: got {got[i]!r}, the deepest layer that holds data has {w[i]!r} ({len(bad)} of {got.size} wrong)'
    return None


def key(inp, detail):
    if inp.get('mixed') == 'flag' and "'temp'" in detail and '(nan)' in detail:
        return 'floor:float-after-gapless-variable'
    return f"floor:{inp['shape']}"


# ---- convention datasets through dataset.ems.ocean_floor() ---------------------------------------------------------------------
CONV_SPECS = [
    {'conv': 'cf1d', 'ny': 3, 'nx': 4, 'depth': 3}, {'conv': 'shoc_simple', 'ny': 3, 'nx': 3, 'depth': 3},
    {'conv': 'shoc_standard', 'ny': 3, 'nx': 4, 'depth': 3}, {'conv': 'cf2d', 'ny': 3, 'nx': 4, 'depth': 3},
]


def gen_conv(tier, seed):
    for spec in CONV_SPECS:
        for flip in (False, True):
            yield {'spec': spec, 'flip': flip, 'seed': seed}
        # the layer variable held as a plain data variable (a file in which no variable lists it in a `coordinates` attribute)
        yield {'spec': spec, 'flip': False, 'seed': seed, 'depth_as_variable': True}


def test_conv(inp):
    with warnings.catch_warnings():
        warnings.simplefilter('ignore')
        ds = datasets.build(inp['spec'])
        # which variables are depth coordinates is a fact about the dataset (CF: one-dimensional, `positive` up / down), not the convention's say
        oracle = {str(n) for n, v in ds.variables.items() if v.ndim == 1 and str(v.attrs.get('positive', '')).lower() in ('up', 'down')}
        if inp.get('depth_as_variable'):
            ds = ds.reset_coords(sorted(n for n in oracle if ds[n].dims != (n,)))       # a dimension coordinate stays an (index) coordinate
        ems = ds.ems
        dcs = list(ems.depth_coordinates)
        if {str(dc.name) for dc in dcs} != oracle:
            return f'depth_coordinates names {sorted(str(dc.name) for dc in dcs)}, the dataset has the depth coordinates {sorted(oracle)}'
        if not dcs:
            return None
        rng = random.Random(inp['seed'])
        ds = ds.copy(deep=True)
        expect = {}
        for dc in dcs:
            dd = dc.dims[0]
            if inp['flip']:
                ds = ds.isel({dd: slice(None, None, -1)})
        ems = ds.ems
        for dc in ems.depth_coordinates:
            dd = dc.dims[0]
            sigma = 1 if str(dc.attrs.get('positive', 'down')).lower() == 'down' else -1
            d = sigma * dc.values
            for name, v in list(ds.data_vars.items()):
                if dd not in v.dims or v.dtype.kind != 'f' or name in map(str, ems.get_all_geometry_names()):
                    continue
                loc = sorted(x for x in v.dims if x not in (dd, 'time', 'record', 't'))      # canonical order: one floor per set of dimensions
                if not loc:
                    continue
                canon = [x for x in v.dims if x not in loc and x != dd] + [dd] + loc
                arr = v.transpose(*canon).values.copy()
                nk = arr.shape[-len(loc) - 1]
                flat = arr.reshape(arr.shape[:len(canon) - len(loc) - 1] + (nk, -1))
                ncol = flat.shape[-1]
                want = numpy.full(flat.shape[:-2] + (ncol,), numpy.nan)
                cols = ds.attrs.setdefault('_cols_' + str(dd) + str(loc), [sorted(rng.sample(range(nk), c % (nk + 1))) for c in range(ncol)])
                for c, wet in enumerate(cols):
                    for k in range(nk):
                        if k not in wet:
                            flat[..., k, c] = numpy.nan
                    if wet:
                        deepest = max(wet, key=lambda k: d[k])
                        want[..., c] = flat[..., deepest, c]
                ds[name] = (canon, flat.reshape(arr.shape), v.attrs)
                ds[name] = ds[name].transpose(*v.dims)
                expect[name] = (canon, want.reshape(arr.shape[:len(canon) - len(loc) - 1] + arr.shape[len(canon) - len(loc):]), dd)
        for k in [k for k in ds.attrs if k.startswith('_cols_')]:
            del ds.attrs[k]
        out = must(lambda: ds.ems.ocean_floor(), 'dataset.ems.ocean_floor()')
    for name, (canon, want, dd) in expect.items():
        if name not in out:
            return f'{name!r} was dropped'
        wd = [x for x in canon if x != dd]
        if set(out[name].dims) != set(wd):
            return f'{name!r}: dims {out[name].dims}'
        got = out[name].transpose(*wd).values
        if not (numpy.array_equal(numpy.isnan(got), numpy.isnan(want)) and numpy.array_equal(got[~numpy.isnan(got)], want[~numpy.isnan(want)])):
            return f'{name!r}: not the deepest valid value of every column'
    for dc in dcs:
        if dc.name in out.variables or dc.dims[0] in out.dims:
            return f'depth coordinate / dimension {dc.name!r} survives'
    geom = set(map(str, ds.ems.get_all_geometry_names()))
    for g in geom:
        if g not in out.variables or not out[g].identical(ds[g]):
            return f'geometry variable {g!r} changed'
    return None


CHECKS = [
    Check('ocean_floor', gen, test, key=key,
          space='{up, down, absent, DOWN} x {shallow-to-deep, deep-to-shallow} x 6 dimension layouts x floor shapes {staircase, gaps, dry layers on top, random} '
                '+ two coordinates on one dimension, dimension coordinate, no non-spatial variables, integer variable next to float variables',
          bound='4 layers, 6..10 columns, 2 records'),
    Check('ocean_floor_conventions', gen_conv, test_conv, key=lambda i, d: f"floor-conv:{i['spec']['conv']}",
          space='4 convention datasets x {stored order, reversed depth axis} through dataset.ems.ocean_floor(), random floor per column', bound='3 layers'),
]
