"""Shared machinery of the C08 / C09 bounded stand-ins: run make_clip_mask / apply_clip_mask on real datasets and describe what
the mask selects, independently of the code under test (the mask itself is C07's business: expectations are read off the mask)."""
from __future__ import annotations

import os
import shutil
import tempfile
import warnings

import numpy
import shapely
import xarray

import emsarray  # noqa: F401

try:        # the work files are opened with lock=False: read them from one thread (HDF5 is not thread safe, a threaded read can crash the process)
    import dask
    dask.config.set(scheduler='synchronous')
except Exception:       # pragma: no cover
    pass
from harness import datasets
from harness.common import Failure, must

SPECS = [
    {'conv': 'cf1d', 'ny': 4, 'nx': 5, 'depth': 2},
    {'conv': 'cf1d', 'ny': 3, 'nx': 4, 'bounds': 'vars'},
    {'conv': 'cf2d', 'ny': 4, 'nx': 4, 'bounds': 'vars', 'holes': [[1, 1]]},
    {'conv': 'cf2d', 'ny': 3, 'nx': 4, 'bounds': 'vars', 'as_coords': False},
    {'conv': 'cf1d', 'ny': 3, 'nx': 4, 'as_coords': False},
    {'conv': 'shoc_simple', 'ny': 3, 'nx': 5, 'bounds': 'vars'},
    {'conv': 'shoc_standard', 'ny': 4, 'nx': 3},
    {'conv': 'ugrid', 'ny': 3, 'nx': 4},
    {'conv': 'ugrid', 'ny': 3, 'nx': 4, 'split': [[0, 0], [2, 3]], 'tables': ['edge_node']},
    {'conv': 'ugrid', 'ny': 3, 'nx': 4, 'split': [[1, 1]], 'merge': [[2, 0]], 'tables': ['edge_node', 'face_edge'], 'start_index': 1},
    {'conv': 'ugrid', 'ny': 3, 'nx': 4, 'split': [[1, 2]], 'tables': ['edge_node', 'edge_face'], 'fill': 'nan'},
    # one-based tables whose file used 0 for missing entries (below the index range of a one-based table), decoded by xarray: NaN + the encoding
    {'conv': 'ugrid', 'ny': 3, 'nx': 4, 'split': [[1, 2]], 'tables': ['edge_node', 'face_edge', 'face_face'], 'start_index': 1, 'fill': 'nan', 'decoded_fill': 0},
    {'conv': 'ugrid', 'ny': 3, 'nx': 4, 'split': [[0, 1]], 'tables': ['face_face'], 'start_index': 1},
    {'conv': 'ugrid', 'ny': 3, 'nx': 3, 'split': [[0, 0]], 'tables': ['edge_node', 'face_edge', 'edge_face', 'face_face'], 'start_index': 1, 'fill': 'int_fill'},
    {'conv': 'ugrid', 'ny': 3, 'nx': 4, 'split': [[2, 2]], 'tables': ['edge_node'], 'coords_as': 'coords', 'face_coords': True},
    {'conv': 'ugrid', 'ny': 2, 'nx': 4, 'split': [[0, 0]], 'transposed': True, 'tables': ['edge_node'], 'edge_transposed': True},
    {'conv': 'ugrid', 'ny': 3, 'nx': 3, 'split': [[1, 1]], 'tables': ['edge_node'], 'edge_dimension': False},     # edge dimension implied by the table only
    {'conv': 'cf2d', 'ny': 3, 'nx': 4, 'bounds': 'coords'},
    {'conv': 'cf1d', 'ny': 3, 'nx': 4, 'bounds': 'coords'},
]
GEOMS = ['box centre', 'everything', 'edge hugging', 'multi', 'point', 'all but a border cell', 'all but an interior cell']


def _shared_parts(polys):
    a, b = polys[len(polys) // 3], polys[-1]
    pa, pb = a.representative_point(), b.representative_point()
    r = min(a.bounds[2] - a.bounds[0], a.bounds[3] - a.bounds[1]) / 50
    return shapely.GeometryCollection([shapely.Point(pa.x, pa.y).buffer(r), shapely.Point(pa.x + r / 4, pa.y).buffer(r / 2),
                                       shapely.Point(pb.x, pb.y), shapely.Point(pb.x, pb.y + r / 10), a.centroid.buffer(r / 3)])


def geometries(ds):
    x0, y0, x1, y1 = ds.ems.bounds
    cx, cy = (x0 + x1) / 2, (y0 + y1) / 2
    w, h = (x1 - x0), (y1 - y0)
    polys = [p for p in ds.ems.polygons if p is not None]
    return {
        'box centre': shapely.box(cx - w / 6, cy - h / 6, cx + w / 6, cy + h / 6),
        'everything': shapely.box(x0 - 1, y0 - 1, x1 + 1, y1 + 1),
        'edge hugging': shapely.box(x0 - 1, y0 - 1, x0 + w / 8, y1 + 1),
        'multi': shapely.MultiPolygon([shapely.box(x0, y0, x0 + w / 5, y0 + h / 5), shapely.box(x1 - w / 5, y1 - h / 5, x1, y1)]),
        'point': shapely.Point(polys[len(polys) // 2].representative_point()),
        # several parts inside / touching the same cells (a cell hit by two parts must still be selected once)
        'parts sharing cells': _shared_parts(polys),
        # every cell but one on the border (not a corner): its outer side joins two nodes that survive although the side itself does not
        'all but a border cell': shapely.MultiPoint([p.representative_point() for n, p in enumerate(polys) if n != 1]),
        # every cell but one in the interior: all its sides and corners belong to surviving neighbours, so no edge and no node is dropped while
        # the faces are renumbered
        'all but an interior cell': shapely.MultiPoint([p.representative_point() for n, p in enumerate(polys) if n != _interior(polys)]),
    }


def _interior(polys):
    u = shapely.unary_union(polys)
    for n, p in enumerate(polys):
        if p.buffer(1e-6).within(u):
            return n
    return 1


def enrich(ds):
    """add variables that exercise every fill-value rule, on the face grid (dims in stored and in permuted order)"""
    ems = ds.ems
    fdims = list(ems.grid_dimensions[ems.default_grid_kind])
    shape = [ds.sizes[d] for d in fdims]
    n = int(numpy.prod(shape))
    base = numpy.arange(n, dtype='int32').reshape(shape) + 7
    ds = ds.copy()
    ds['i_plain'] = xarray.DataArray(base.astype('int16'), dims=fdims, attrs={'long_name': 'integer without fill value'})
    ds['i_fill'] = xarray.DataArray(base.copy(), dims=fdims, attrs={'_FillValue': numpy.int32(-99), 'long_name': 'integer with _FillValue'})
    ds['i_missing'] = xarray.DataArray(base.astype('int64'), dims=fdims, attrs={'missing_value': numpy.int64(-1)})
    ds['i_zero_fill'] = xarray.DataArray(base.astype('int32') + 1, dims=fdims, attrs={'_FillValue': numpy.int32(0), 'long_name': 'count, 0 = no data'})
    # a short whose missing value is stored as a double the short type cannot hold (legacy 1e35 sentinels)
    ds['i_wide_missing'] = xarray.DataArray(base.astype('int16'), dims=fdims, attrs={'missing_value': numpy.float64(1e35)})
    ds['f_last'] = xarray.DataArray((base * 0.5).reshape(shape + [1]).repeat(3, axis=-1) + numpy.arange(3) * 1000.0, dims=fdims + ['band'],
                                    attrs={'units': 'u'})
    ds['f_first'] = ds['f_last'].transpose('band', *fdims) + 0.25
    ds['no_grid'] = xarray.DataArray(numpy.arange(3) * 1.5, dims=['band'], attrs={'note': 'no spatial dimension'})
    ds.attrs['history'] = 'enriched'
    return ds


class Clip:
    """one clip run: dataset, mask, clipped result (loaded), selection per grid kind"""

    def __init__(self, spec, geom_name, buffer, via_file=False, second=False):
        warnings.simplefilter('ignore')
        self.spec = spec
        ds = enrich(datasets.build(spec))
        if spec.get('as_coords') is False and spec['conv'] == 'cf2d':
            # a file opened without coordinate decoding: the coordinates are plain variables and the data variables keep the CF attribute
            for name in ('temp', 'f_last'):
                if name in ds:
                    ds[name].attrs['coordinates'] = 'lat lon'
        self.original = ds
        ems = ds.ems
        geom = geometries(ds)[geom_name]
        self.mask = must(lambda: ems.make_clip_mask(geom, buffer=buffer), 'make_clip_mask')
        self.tmp = tempfile.mkdtemp(prefix='clip-', dir=os.environ.get('VERIF_TMP'))
        try:
            mask = self.mask
            if via_file:
                mpath = os.path.join(self.tmp, 'mask.nc')
                must(lambda: mask.to_netcdf(mpath), 'saving the mask to netCDF')
                mask = must(lambda: xarray.open_dataset(mpath), 'reopening the mask')
            target = ds
            if second:
                # a second dataset with the same geometry and different data
                geom_names = set(map(str, ems.get_all_geometry_names()))
                target = ds.copy(deep=True)
                for name, v in ds.data_vars.items():
                    if str(name) not in geom_names and v.dtype.kind == 'f':
                        target[name] = v + 12345.5
                        target[name].attrs = dict(v.attrs)
                        target[name].encoding = dict(v.encoding)
                self.original = target
            work = os.path.join(self.tmp, 'work')
            os.mkdir(work)
            self.clipped = must(lambda: target.ems.apply_clip_mask(mask, work).load(), 'apply_clip_mask')
            out = os.path.join(self.tmp, 'clipped.nc')
            self.saved_error = None
            try:
                self.clipped.ems.to_netcdf(out)
                self.reopened = xarray.open_dataset(out).load()
                self.reopened.close()
                self.raw = xarray.open_dataset(out, mask_and_scale=False, decode_times=False).load()
                self.raw.close()
            except Exception as e:      # reported by C09
                self.saved_error = f'{type(e).__name__}: {e}'
                self.reopened = self.raw = None
            if via_file:
                mask.close()
        finally:
            shutil.rmtree(self.tmp, ignore_errors=True)

    # ---- what the mask selects -------------------------------------------------------------------------------------------------
    def grid_selection(self):
        """grids: {mask name: (dims, bool array)} and the crop window {dim: (lo, hi)}"""
        sel = {str(k): (tuple(v.dims), numpy.asarray(v.values).astype(bool)) for k, v in self.mask.data_vars.items()}
        window = {}
        for name, (dims, arr) in sel.items():
            for ax, d in enumerate(dims):
                other = tuple(a for a in range(arr.ndim) if a != ax)
                idx = numpy.flatnonzero(arr.any(axis=other))
                window[d] = (int(idx[0]), int(idx[-1]) + 1)
        return sel, window

    def mesh_selection(self):
        """meshes: {dimension: kept old indexes in order}"""
        topo = self.original.ems.topology
        out = {}
        for what, dim in (('face', topo.face_dimension), ('node', topo.node_dimension)) + ((('edge', topo.edge_dimension),) if 'new_edge_index' in self.mask else ()):
            new = numpy.asarray(self.mask[f'new_{what}_index'].values, dtype=float)
            kept = [k for k in range(len(new)) if numpy.isfinite(new[k])]
            out[str(dim)] = (what, kept, {k: int(new[k]) for k in kept})
        return out


def is_missing(values, attrs, encoding):
    """elementwise: does the entry hold a missing value (NaN, or the declared fill / missing value)"""
    v = numpy.asarray(values)
    m = numpy.zeros(v.shape, dtype=bool)
    if v.dtype.kind == 'f':
        m |= numpy.isnan(v)
    for src in (attrs, encoding):
        for key in ('_FillValue', 'missing_value'):
            if key in src and src[key] is not None:
                try:
                    m |= (v == src[key])
                except Exception:
                    pass
    return m
