"""C08 bounded stand-in / replay: applying a clip mask keeps every selected value and blanks everything else."""
from __future__ import annotations

import numpy

from harness.common import Check, Failure
from harness.native import clip


def gen(tier, seed):
    for si, spec in enumerate(clip.SPECS):
        for gname in clip.GEOMS:
            for buffer in (0, 1):
                if tier == 'quick' and buffer == 1 and gname not in ('box centre', 'point'):
                    continue
                yield {'spec': spec, 'geometry': gname, 'buffer': buffer, 'via_file': False, 'second': False}
        yield {'spec': spec, 'geometry': 'box centre', 'buffer': 1, 'via_file': True, 'second': True}
        if tier != 'quick':
            yield {'spec': spec, 'geometry': 'multi', 'buffer': 0, 'via_file': True, 'second': False}


def compare_values(got, want, what):
    if got.shape != want.shape:
        return f'{what}: shape {got.shape}, expected {want.shape}'
    g, w = numpy.asarray(got), numpy.asarray(want)
    if g.dtype.kind == 'M' or w.dtype.kind == 'M':
        ok = numpy.array_equal(g.astype('datetime64[ns]'), w.astype('datetime64[ns]'))
    elif g.dtype.kind == 'f' or w.dtype.kind == 'f':
        ok = numpy.array_equal(g.astype(float), w.astype(float), equal_nan=True)
    else:
        ok = numpy.array_equal(g, w)
    return None if ok else f'{what}: values changed'


def test(inp):
    run = clip.Clip(inp['spec'], inp['geometry'], inp['buffer'], inp['via_file'], inp['second'])
    ds, out = run.original, run.clipped
    ems = ds.ems
    geometry = set(map(str, ems.get_all_geometry_names()))
    if out.attrs != ds.attrs:
        return f'global attributes changed: {out.attrs} vs {ds.attrs}'
    if list(map(str, out.data_vars)) != list(map(str, ds.data_vars)):
        return f'data variables / their order changed: {list(out.data_vars)} vs {list(ds.data_vars)}'
    if set(map(str, out.coords)) != set(map(str, ds.coords)):
        return f'coordinates changed: {sorted(map(str, out.coords))} vs {sorted(map(str, ds.coords))}'
    for name in ds.variables:
        a0 = {k: v for k, v in ds[name].attrs.items()}
        a1 = {k: v for k, v in out[name].attrs.items()}
        # an attribute xarray decodes on opening (_FillValue, missing_value, ...) may have moved to the encoding: it is not lost
        enc = out[name].encoding
        if (set(a0) - set(a1) - set(enc)) or any(not numpy.array_equal(a0[k], a1[k]) for k in a0 if k in a1 and k not in ('_FillValue', 'missing_value')):
            return f'{name!r}: attributes changed: {a1} vs {a0}'
        if out[name].dims != ds[name].dims:
            return f'{name!r}: dimensions changed: {out[name].dims} vs {ds[name].dims}'
    if inp['spec']['conv'] == 'ugrid':
        return test_mesh(run, ds, out, geometry)
    return test_grid(run, ds, out, geometry)


def test_grid(run, ds, out, geometry):
    sel, window = run.grid_selection()
    for name, v in ds.variables.items():
        name = str(name)
        o = out[name]
        crop = {d: slice(*window[d]) for d in v.dims if d in window}
        want = ds[name].isel(crop)
        if tuple(o.shape) != tuple(want.shape):
            return f'{name!r}: shape {o.shape} after clipping, the mask window gives {want.shape}'
        # which mask applies: the first whose dimensions all belong to the variable (data variables only)
        mask = None
        if name in ds.data_vars:
            for mname, (mdims, marr) in sel.items():
                if set(mdims) <= set(v.dims):
                    mask = (mdims, marr[tuple(slice(*window[d]) for d in mdims)])
                    break
        if mask is None:
            r = compare_values(o.values, want.values, f'{name!r} (no mask applies)')
            if r:
                return r
            continue
        mdims, marr = mask
        # broadcast the mask over the variable
        expand = marr.reshape([marr.shape[mdims.index(d)] if d in mdims else 1 for d in v.dims]) if list(mdims) == [d for d in v.dims if d in mdims] else \
            numpy.transpose(marr, [mdims.index(d) for d in v.dims if d in mdims]).reshape([want.sizes[d] if d in mdims else 1 for d in v.dims])
        full = numpy.broadcast_to(expand, want.shape)
        gv, wv = numpy.asarray(o.values), numpy.asarray(want.values)
        can_miss = v.dtype.kind == 'f' or '_FillValue' in v.attrs or 'missing_value' in v.attrs
        keep_ok = (gv[full].astype(float) == wv[full].astype(float)) | (numpy.isnan(gv[full].astype(float)) & numpy.isnan(wv[full].astype(float)))
        if not keep_ok.all():
            return f'{name!r}: {int((~keep_ok).sum())} selected value(s) changed'
        if can_miss:
            miss = clip.is_missing(gv, v.attrs, v.encoding)
            if not miss[~full].all():
                return f'{name!r}: {int((~miss[~full]).sum())} value(s) outside the selection survive'
        else:
            r = compare_values(gv, wv, f'{name!r} (cannot represent missing values)')
            if r:
                return r
            if gv.dtype != wv.dtype:
                return f'{name!r}: dtype changed from {wv.dtype} to {gv.dtype}'
    return None


def test_mesh(run, ds, out, geometry):
    selection = run.mesh_selection()
    topo_names = geometry
    for name, v in ds.variables.items():
        name = str(name)
        if name in topo_names and name not in ('Mesh2_node_x', 'Mesh2_node_y', 'Mesh2_face_x', 'Mesh2_face_y'):
            continue            # connectivity is C09's business
        o = out[name]
        want = ds[name]
        for d in v.dims:
            if str(d) in selection:
                want = want.isel({d: selection[str(d)][1]})
        r = compare_values(numpy.asarray(o.values), numpy.asarray(want.values), f'{name!r}: rows of the kept {", ".join(selection[str(d)][0] for d in v.dims if str(d) in selection) or "nothing"}')
        if r:
            return r
        if v.dtype.kind in 'iu' and o.dtype != v.dtype:
            return f'{name!r}: dtype changed from {v.dtype} to {o.dtype}'
    return None


def key(inp, detail):
    conv = inp['spec']['conv']
    if 'does not contain primary dimension' in detail:
        return 'apply:ugrid-face_edge/edge_face-primary-dimension'
    return f'apply:{conv}:{detail.split(":")[0][:50]}'


def gen_entry(tier, seed):
    for si in (0, 2, 6, 8):
        for gname in ('line', 'point', 'area and line', 'box centre'):
            for buffer in (0, 1):
                yield {'spec': clip.SPECS[si], 'geometry': gname, 'buffer': buffer}


def test_entry(inp):
    """dataset.ems.clip(region, work_dir, buffer) is apply_clip_mask(make_clip_mask(region, buffer)) for every kind of region (lines, points,
    collections mixing areas and lines) -- the one-step entry point does nothing to the region on the way"""
    import os
    import shutil
    import tempfile
    import warnings
    import shapely
    from harness import datasets
    from harness.common import must
    warnings.simplefilter('ignore')
    ds = clip.enrich(datasets.build(inp['spec']))
    x0, y0, x1, y1 = ds.ems.bounds
    cx, cy, w, h = (x0 + x1) / 2, (y0 + y1) / 2, x1 - x0, y1 - y0
    polys = [p for p in ds.ems.polygons if p is not None]
    line = shapely.LineString([(x0 + w / 10, y0 + h / 10), (cx, cy + h / 5), (x1 - w / 10, cy)])
    geom = {'line': line, 'point': polys[len(polys) // 2].representative_point(),
            'area and line': shapely.GeometryCollection([shapely.box(x0, y0, x0 + w / 4, y0 + h / 4), line]),
            'box centre': shapely.box(cx - w / 6, cy - h / 6, cx + w / 6, cy + h / 6)}[inp['geometry']]
    tmp = tempfile.mkdtemp(prefix='clip-entry-', dir=os.environ.get('VERIF_TMP'))
    try:
        w1, w2 = os.path.join(tmp, 'a'), os.path.join(tmp, 'b')
        os.mkdir(w1)
        os.mkdir(w2)
        mask = must(lambda: ds.ems.make_clip_mask(geom, buffer=inp['buffer']), 'make_clip_mask')
        try:
            two = ds.ems.apply_clip_mask(mask, w1).load()
        except ValueError as e:
            two = e                    # a region that selects nothing is refused by both routes
        try:
            one = ds.ems.clip(geom, w2, buffer=inp['buffer']).load()
        except ValueError as e:
            one = e
        if isinstance(two, Exception) or isinstance(one, Exception):
            if type(one) is not type(two):
                return f'clip() gives {one!r} where make_clip_mask + apply_clip_mask give {two!r}'
            return None
        if set(map(str, one.variables)) != set(map(str, two.variables)):
            return 'clip() and make_clip_mask + apply_clip_mask return different variables'
        for k in two.variables:
            r = compare_values(one[k].values, two[k].values, f'clip() vs make_clip_mask + apply_clip_mask, {k!r}') if one[k].dims == two[k].dims else f'{k!r}: dims differ'
            if r:
                return r
        return None
    finally:
        shutil.rmtree(tmp, ignore_errors=True)


CHECKS = [
    Check('clip_entry', gen_entry, test_entry, key=lambda i, d: f"clip-entry:{i['spec']['conv']}:{i['geometry']}",
          space='4 datasets x {line, point, collection of an area and a line, box} x buffer 0 / 1: dataset.ems.clip against the two-step route', bound='32 clips'),
    Check('apply', gen, test, key=key,
          space='15 datasets (every convention; bounds; coordinates as plain variables; meshes 0/1-based, NaN / _FillValue, transposed, with every optional '
                'table) + float / int16 / int32 with _FillValue / int64 with missing_value variables with the spatial dimensions first and last '
                'x 5 clip geometries x buffer 0/1; masks applied directly and through a netCDF file to a second dataset', bound='about 120 clips'),
]
