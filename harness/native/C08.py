"""C08 bounded stand-in / replay: applying a clip mask keeps every selected value and blanks everything else."""
from __future__ import annotations

import numpy

from harness.common import Check, Failure
from harness.native import clip


def gen(tier, seed):
    for si, spec in enumerate(clip.SPECS):
        for gname in clip.GEOMS:
            for buffer in (0, 1):
                if tier == 'quick' and buffer == 1 and gname not in ('box centre', 'point'):
                    continue
                yield {'spec': spec, 'geometry': gname, 'buffer': buffer, 'via_file': False, 'second': False}
        yield {'spec': spec, 'geometry': 'box centre', 'buffer': 1, 'via_file': True, 'second': True}
        if tier != 'quick':
            yield {'spec': spec, 'geometry': 'multi', 'buffer': 0, 'via_file': True, 'second': False}


def compare_values(got, want, what):
    if got.shape != want.shape:
        return f'{what}: shape {got.shape}, expected {want.shape}'
    g, w = numpy.asarray(got), numpy.asarray(want)
    if g.dtype.kind == 'M' or w.dtype.kind == 'M':
        ok = numpy.array_equal(g.astype('datetime64[ns]'), w.astype('datetime64[ns]'))
    elif g.dtype.kind == 'f' or w.dtype.kind == 'f':
        ok = numpy.array_equal(g.astype(float), w.astype(float), equal_nan=True)
    else:
        ok = numpy.array_equal(g, w)
    return None if ok else f'{what}: values changed'


def test(inp):
    run = clip.Clip(inp['spec'], inp['geometry'], inp['buffer'], inp['via_file'], inp['second'])
    ds, out = run.original, run.clipped
    ems = ds.ems
    geometry = set(map(str, ems.get_all_geometry_names()))
    if out.attrs != ds.attrs:
        return f'global attributes changed: {out.attrs} vs {ds.attrs}'
    if list(map(str, out.data_vars)) != list(map(str, ds.data_vars)):
        return f'data variables / their order changed: {list(out.data_vars)} vs {list(ds.data_vars)}'
    if set(map(str, out.coords)) != set(map(str, ds.coords)):
        return f'coordinates changed: {sorted(map(str, out.coords))} vs {sorted(map(str, ds.coords))}'
    for name in ds.variables:
        a0 = {k: v for k, v in ds[name].attrs.items()}
        a1 = {k: v for k, v in out[name].attrs.items()}
        # an attribute xarray decodes on opening (_FillValue, missing_value, ...) may have moved to the encoding: it is not lost
        enc = out[name].encoding
        if (set(a0) - set(a1) - set(enc)) or any(not numpy.array_equal(a0[k], a1[k]) for k in a0 if k in a1 and k not in ('_FillValue', 'missing_value')):
            return f'{name!r}: attributes changed: {a1} vs {a0}'
        if out[name].dims != ds[name].dims:
            return f'{name!r}: dimensions changed: {out[name].dims} vs {ds[name].dims}'
    if inp['spec']['conv'] == 'ugrid':
        return test_mesh(run, ds, out, geometry)
    return test_grid(run, ds, out, geometry)


def test_grid(run, ds, out, geometry):
    sel, window = run.grid_selection()
    for name, v in ds.variables.items():
        name = str(name)
        o = out[name]
        crop = {d: slice(*window[d]) for d in v.dims if d in window}
        want = ds[name].isel(crop)
        if tuple(o.shape) != tuple(want.shape):
            return f'{name!r}: shape {o.shape} after clipping, the mask window gives {want.shape}'
        # which mask applies: the first whose dimensions all belong to the variable (data variables only)
        mask = None
        if name in ds.data_vars:
            for mname, (mdims, marr) in sel.items():
                if set(mdims) <= set(v.dims):
                    mask = (mdims, marr[tuple(slice(*window[d]) for d in mdims)])
                    break
        if mask is None:
            r = compare_values(o.values, want.values, f'{name!r} (no mask applies)')
            if r:
                return r
            continue
        mdims, marr = mask
        # broadcast the mask over the variable
        expand = marr.reshape([marr.shape[mdims.index(d)] if d in mdims else 1 for d in v.dims]) if list(mdims) == [d for d in v.dims if d in mdims] else \
            numpy.transpose(marr, [mdims.index(d) for d in v.dims if d in mdims]).reshape([want.sizes[d] if d in mdims else 1 for d in v.dims])
        full = numpy.broadcast_to(expand, want.shape)
        gv, wv = numpy.asarray(o.values), numpy.asarray(want.values)
        can_miss = v.dtype.kind == 'f' or '_FillValue' in v.attrs or 'missing_value' in v.attrs
        keep_ok = (gv[full].astype(float) == wv[full].astype(float)) | (numpy.isnan(gv[full].astype(float)) & numpy.isnan(wv[full].astype(float)))
        if not keep_ok.all():
            return f'{name!r}: {int((~keep_ok).sum())} selected value(s) changed'
        if can_miss:
            miss = clip.is_missing(gv, v.attrs, v.encoding)
            if not miss[~full].all():
                return f'{name!r}: {int((~miss[~full]).sum())} value(s) outside the selection survive'
        else:
            r = compare_values(gv, wv, f'{name!r} (cannot represent missing values)')
            if r:
                return r
            if gv.dtype != wv.dtype:
                return f'{name!r}: dtype changed from {wv.dtype} to {gv.dtype}'
    return None


def test_mesh(run, ds, out, geometry):
    selection = run.mesh_selection()
    topo_names = geometry
    for name, v in ds.variables.items():
        name = str(name)
        if name in topo_names and name not in ('Mesh2_node_x', 'Mesh2_node_y', 'Mesh2_face_x', 'Mesh2_face_y'):
            continue            # connectivity is C09's business
        o = out[name]
        want = ds[name]
        for d in v.dims:
            if str(d) in selection:
                want = want.isel({d: selection[str(d)][1]})
        r = compare_values(numpy.asarray(o.values), numpy.asarray(want.values), f'{name!r}: rows of the kept {", ".join(selection[str(d)][0] for d in v.dims if str(d) in selection) or "nothing"}')
        if r:
            return r
        if v.dtype.kind in 'iu' and o.dtype != v.dtype:
            return f'{name!r}: dtype changed from {v.dtype} to {o.dtype}'
    return None


def key(inp, detail):
    conv = inp['spec']['conv']
    if 'does not contain primary dimension' in detail:
        return 'apply:ugrid-face_edge/edge_face-primary-dimension'
    return f'apply:{conv}:{detail.split(":")[0][:50]}'


CHECKS = [
    Check('apply', gen, test, key=key,
          space='15 datasets (every convention; bounds; coordinates as plain variables; meshes 0/1-based, NaN / _FillValue, transposed, with every optional '
                'table) + float / int16 / int32 with _FillValue / int64 with missing_value variables with the spatial dimensions first and last '
                'x 5 clip geometries x buffer 0/1; masks applied directly and through a netCDF file to a second dataset', bound='about 120 clips'),
]
