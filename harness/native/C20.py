"""C20 bounded stand-in / replay: bounds grammar against an independent parser; CLI end-to-end vs library."""
from __future__ import annotations

import argparse
import contextlib
import io
import itertools
import json
import os
import random
import re
import shutil
import tempfile

import numpy
import shapely
import xarray

import emsarray
from emsarray.cli import main as cli_main
from emsarray.cli.utils import bounds_argument, geometry_argument
from harness import datasets
from harness.common import Check, Failure, must, must_raise

try:
    import dask
    dask.config.set(scheduler='synchronous')
except Exception:       # pragma: no cover
    pass

# --- independent oracle for the bounds grammar (hand-written scanner, ASCII + unicode decimal digits) ----------


def _scan_number(s, i):
    n = len(s)
    j = i
    if j < n and s[j] == '-':
        j += 1

    def digits(k):
        if k >= n or not s[k].isdecimal():
            return None
        k += 1
        while k < n:
            if s[k].isdecimal():
                k += 1
            elif s[k] == '_' and k + 1 < n and s[k + 1].isdecimal():
                k += 2
            else:
                break
        return k
    k = digits(j)
    if k is not None:
        if k < n and s[k] == '.':
            k2 = digits(k + 1)
            return k2 if k2 is not None else k + 1
        return k
    if j < n and s[j] == '.':
        return digits(j + 1)
    return None


def oracle_bounds(s):
    """-> list of 4 floats, or None when s is not exactly four comma separated numbers"""
    vals = []
    i = 0
    for f in range(4):
        j = _scan_number(s, i)
        if j is None:
            return None
        vals.append(float(s[i:j]))
        i = j
        if f < 3:
            while i < len(s) and s[i].isspace():
                i += 1
            if i >= len(s) or s[i] != ',':
                return None
            i += 1
            while i < len(s) and s[i].isspace():
                i += 1
    return vals if i == len(s) else None


NUMS = ['0', '1', '12', '1_000', '1_0_0', '-3', '-0.5', '.5', '-.5', '5.', '-5.', '1.25', '1_0.2_5', '00', '٣', '1__0',
        '_1', '1_', '+1', '1e3', '-', '.', '', ' 1', '1 ', 'nan', 'inf', '1..2', '1.2.3', '--1', '0x10', '١٢']
SEPS = [',', ' , ', ',  ', '\t,', ',\n', ' ', ';', ',,']
TAILS = ['', 'x', ',5', ' ', '\n', '.5', '_', '5', ',', ' 5']


def gen_strings(tier, seed):
    rng = random.Random(seed)
    good = [n for n in NUMS if oracle_bounds(f'{n},{n},{n},{n}') is not None]
    seen = set()

    def emit(s):
        if s not in seen:
            seen.add(s)
            return True
        return False
    for n in NUMS:
        for pos in range(4):
            parts = ['1', '2', '3', '4']
            parts[pos] = n
            s = ','.join(parts)
            if emit(s):
                yield {'text': s}
    for sep in SEPS:
        s = sep.join(['1', '2.5', '-3', '.4'])
        if emit(s):
            yield {'text': s}
    for tail in TAILS:
        for last in ('4', '4.5', '4.', '1_0'):
            s = '1,2,3,' + last + tail
            if emit(s):
                yield {'text': s}
            s = tail + '1,2,3,' + last
            if emit(s):
                yield {'text': s}
    for s in ['1,2,3', '1,2,3,4,5', '1,2,3,4,', ',1,2,3,4', '1,2,,4', 'a,b,c,d', '1 2 3 4', '[1,2,3,4]', '{"type": "Point", "coordinates": [1, 2]}',
              '{"type":"Polygon","bbox":[1,2,3,4],"coordinates":[[[0,0],[1,0],[1,1],[0,0]]]}', 'nope', '', '1,2,3,4\r\n', '１,２,３,４',
              # a ring that crosses itself (bow-tie), a ring that touches itself, a polygon with a hole, a multi-polygon: what the library reads is what is used
              '{"type":"Polygon","coordinates":[[[0,0],[4,4],[4,0],[0,4],[0,0]]]}',
              '{"type":"Polygon","coordinates":[[[0,0],[2,2],[4,0],[4,4],[2,2],[0,4],[0,0]]]}',
              '{"type":"Polygon","coordinates":[[[0,0],[9,0],[9,9],[0,9],[0,0]],[[2,2],[2,4],[4,4],[4,2],[2,2]]]}',
              '{"type":"MultiPolygon","coordinates":[[[[0,0],[1,0],[1,1],[0,0]]],[[[5,5],[6,5],[6,6],[5,5]]]]}',
              '{"type":"LineString","coordinates":[[0,0],[1,1],[0,1],[1,0]]}']:
        if emit(s):
            yield {'text': s}
    # long inline GeoJSON (longer than a file name / a path may be): still text, not a path
    import math
    for nv in (24, 400):
        ring = [[round(150 + 3 * math.cos(2 * math.pi * k / nv), 9), round(-20 + 2 * math.sin(2 * math.pi * k / nv), 9)] for k in range(nv)]
        s = json.dumps({'type': 'Polygon', 'coordinates': [ring + [ring[0]]]})
        if emit(s):
            yield {'text': s}
    n_random = 300 if tier == 'quick' else 5000
    for _ in range(n_random):
        parts = [rng.choice(good if rng.random() < 0.8 else NUMS) for _ in range(rng.choice([4, 4, 4, 3, 5]))]
        s = rng.choice(TAILS if rng.random() < 0.15 else ['']) + ''
        s += ''.join(p + rng.choice(SEPS[:5] if rng.random() < 0.9 else SEPS) for p in parts[:-1]) + parts[-1]
        s += rng.choice(TAILS if rng.random() < 0.3 else [''])
        if emit(s):
            yield {'text': s}


def test_string(inp):
    s = inp['text']
    want = oracle_bounds(s)
    for name, f in (('bounds_argument', bounds_argument), ('geometry_argument', geometry_argument)):
        try:
            got = f(s)
            err = None
        except argparse.ArgumentTypeError as e:
            got, err = None, e
        except Exception as e:
            return f'{name}({s!r}) raised {type(e).__name__}: {e} (only ArgumentTypeError is turned into a usage error)'
        if want is not None:
            if got is None:
                return f'{name}({s!r}) refused four comma-separated numbers: {err}'
            exp = shapely.geometry.box(*want)
            if list(got.exterior.coords) != list(exp.exterior.coords):
                return f'{name}({s!r}) = {got.wkt}, expected box{tuple(want)}'
        else:
            if name == 'bounds_argument' and got is not None:
                return f'bounds_argument({s!r}) accepted text that is not four comma-separated numbers -> {got.wkt}'
            if name == 'geometry_argument' and got is not None:
                # acceptable only as GeoJSON text
                try:
                    js = json.loads(s)
                    exp = shapely.geometry.shape(js)
                except Exception:
                    return f'geometry_argument({s!r}) took text that is neither bounds nor GeoJSON as {got.wkt}'
                if got.wkb != exp.wkb:
                    return f'geometry_argument({s!r}) = {got.wkt} but the GeoJSON denotes {exp.wkt}'
            if name == 'geometry_argument' and got is None:
                try:
                    exp = shapely.geometry.shape(json.loads(s))
                except Exception:
                    exp = None
                if exp is not None:
                    return f'geometry_argument({s!r}) refused GeoJSON text that shapely reads as {exp.wkt}: {err}'
    return None


# --- geometry files ------------------------------------------------------------------------------------------


def gen_file(tier, seed):
    docs = [
        {'type': 'Polygon', 'coordinates': [[[1.0000004, 2.0], [3.25, 2.0], [3.25, 4.123456789012], [1.0000004, 4.123456789012], [1.0000004, 2.0]]]},
        {'type': 'Point', 'coordinates': [151.20000049, -33.86000051]},
        {'type': 'MultiPolygon', 'coordinates': [[[[0.0, 0.0], [1e-7, 0.0], [1e-7, 1e-7], [0.0, 0.0]]], [[[5.5, 5.5], [6.1234567, 5.5], [6.1234567, 6.7654321], [5.5, 5.5]]]]},
        {'type': 'Polygon', 'coordinates': [[[0, 0], [4, 4], [4, 0], [0, 4], [0, 0]]]},
    ]
    for k, doc in enumerate(docs):
        for ext in ('.geojson', '.json'):
            yield {'doc': doc, 'ext': ext, 'k': k}


def test_file(inp):
    """a geometry given as a file denotes exactly the geometry written in the file (every digit)"""
    import tempfile
    tmp = tempfile.mkdtemp(prefix='verif-c20-', dir=os.environ.get('VERIF_TMP'))
    try:
        path = os.path.join(tmp, f'shape{inp["k"]}{inp["ext"]}')
        with open(path, 'w') as f:
            json.dump(inp['doc'], f)
        try:
            got = geometry_argument(path)
        except argparse.ArgumentTypeError as e:
            return f'geometry_argument refused a valid GeoJSON file: {e}'
        exp = shapely.geometry.shape(inp['doc'])
        if got.wkb != exp.wkb:
            return f'geometry_argument(file) = {got.wkt} but the file denotes {exp.wkt}'
        return None
    finally:
        shutil.rmtree(tmp, ignore_errors=True)


# --- end to end ----------------------------------------------------------------------------------------------

E2E_SPECS = [
    {'conv': 'cf1d', 'ny': 4, 'nx': 5}, {'conv': 'cf2d', 'ny': 4, 'nx': 4, 'bounds': 'vars'},
    {'conv': 'shoc_standard', 'ny': 3, 'nx': 4}, {'conv': 'ugrid', 'ny': 3, 'nx': 4, 'tables': ['edge_node']},
]


def gen_e2e(tier, seed):
    specs = E2E_SPECS if tier != 'quick' else [E2E_SPECS[0], E2E_SPECS[3], E2E_SPECS[2]]
    for spec in specs:
        yield {'op': 'clip', 'spec': spec, 'clip': '101,-9.5,103.2,-7.5'}
        yield {'op': 'clip', 'spec': spec, 'clip': json.dumps({'type': 'Polygon', 'coordinates': [[[101, -9.5], [103.2, -9.5], [102, -7.6], [101, -9.5]]]})}
        for policy in ('error', 'drop', 'fill'):
            for misses in (False, True):
                yield {'op': 'extract', 'spec': spec, 'policy': policy, 'misses': misses}
        yield {'op': 'extract', 'spec': spec, 'policy': 'drop', 'misses': True, 'columns': ['x', 'y'], 'dim': 'station'}
        for policy, bad in (('drop', '152E'), ('fill', 'n/a'), ('error', '"12,5"')):
            yield {'op': 'extract', 'spec': spec, 'policy': policy, 'misses': False, 'bad_cell': bad}
        for policy in ('error', 'drop', 'fill'):
            yield {'op': 'extract', 'spec': spec, 'policy': policy, 'misses': False, 'empty_record': True}
        if spec is specs[0]:
            # numbers of points outside the model at which an exit status derived from a count would wrap around to success
            for n in (255, 256, 512):
                yield {'op': 'extract', 'spec': spec, 'policy': 'error', 'misses': False, 'many_misses': n}
        for fmt, ext in (('geojson', '.geojson'), ('geojson', '.json'), ('wkt', '.wkt'), ('wkb', '.wkb'), ('shapefile', '.shp')):
            yield {'op': 'export', 'spec': spec, 'format': fmt, 'ext': ext, 'explicit': False}
            yield {'op': 'export', 'spec': spec, 'format': fmt, 'ext': '.dat', 'explicit': True}
        # an output name with a dot in its stem: the files written are the ones named
        yield {'op': 'export', 'spec': spec, 'format': 'shapefile', 'ext': '.shp', 'explicit': False, 'stem': 'mesh.v2'}
        yield {'op': 'export', 'spec': spec, 'format': 'wkt', 'ext': '.wkt', 'explicit': False, 'stem': 'grid_2024.01'}
        yield {'op': 'export', 'spec': spec, 'format': None, 'ext': '.topojson', 'explicit': False}
        yield {'op': 'export', 'spec': spec, 'format': None, 'ext': '', 'explicit': False}
    yield {'op': 'clip-bad', 'spec': E2E_SPECS[0], 'clip': '1,2,3'}
    yield {'op': 'clip-bad', 'spec': E2E_SPECS[0], 'clip': '{"type": "Nope"}'}
    yield {'op': 'clip-bad', 'spec': E2E_SPECS[0], 'clip': '/nonexistent/file.geojson'}


def run_cli(argv):
    """-> exit status (0 for a normal return)"""
    out, err = io.StringIO(), io.StringIO()
    try:
        with contextlib.redirect_stdout(out), contextlib.redirect_stderr(err):
            cli_main(argv)
    except SystemExit as e:
        code = e.code
        # what the shell sees: the low eight bits of an integer status (sys.exit(256) is a success to the caller)
        return (0 if code in (None, 0) else ((code & 0xFF) if isinstance(code, int) else 1)), out.getvalue() + err.getvalue()
    return 0, out.getvalue() + err.getvalue()


def same_dataset(a, b):
    if set(a.variables) != set(b.variables):
        return f'variables differ: {sorted(map(str, a.variables))} vs {sorted(map(str, b.variables))}'
    for k in a.variables:
        va, vb = a[k], b[k]
        if va.dims != vb.dims or va.shape != vb.shape:
            return f'{k}: dims/shape differ {va.dims}{va.shape} vs {vb.dims}{vb.shape}'
        x, y = va.values, vb.values
        if x.dtype.kind in 'fc':
            if not numpy.array_equal(x, y, equal_nan=True):
                return f'{k}: values differ'
        elif not numpy.array_equal(x, y):
            return f'{k}: values differ'
    return None


def test_e2e(inp):
    tmp = tempfile.mkdtemp(prefix='verif-c20-')
    try:
        return _test_e2e(inp, tmp)
    finally:
        shutil.rmtree(tmp, ignore_errors=True)


def _test_e2e(inp, tmp):
    spec = inp['spec']
    src = os.path.join(tmp, 'in.nc')
    datasets.build(spec).to_netcdf(src)
    op = inp['op']
    if op in ('clip', 'clip-bad'):
        out = os.path.join(tmp, 'out.nc')
        code, text = run_cli(['clip', src, inp['clip'], out])
        if op == 'clip-bad':
            if code == 0 or os.path.exists(out):
                return f'unreadable geometry {inp["clip"]!r}: exit status {code}, output exists={os.path.exists(out)}'
            return None
        if code != 0:
            return f'clip exited with {code}: {text[-300:]}'
        geom = geometry_argument(inp['clip'])
        ref = emsarray.open_dataset(src)
        work = os.path.join(tmp, 'work')
        os.mkdir(work)
        lib_out = os.path.join(tmp, 'lib.nc')
        ref.ems.clip(geom, work_dir=work).ems.to_netcdf(lib_out)
        a, b = xarray.open_dataset(out), xarray.open_dataset(lib_out)
        try:
            d = same_dataset(a, b)
            if d:
                return 'clip CLI output differs from library clip: ' + d
            if dict(a.attrs) != dict(b.attrs):
                return 'clip CLI output attributes differ from library clip'
        finally:
            a.close()
            b.close()
            ref.close()
        return None
    if op == 'extract':
        ds = emsarray.open_dataset(src)
        try:
            centres = ds.ems.face_centres
            centres = centres[numpy.isfinite(centres).all(axis=1)]
            pts = [tuple(centres[k]) for k in (0, len(centres) // 2, len(centres) - 1, 0)]
            if inp['misses']:
                pts.insert(1, (0.0, 0.0))
                pts.append((179.0, 80.0))
            for k in range(inp.get('many_misses', 0)):
                pts.append((0.001 * k, 0.0))            # far outside every model used here
            cols = inp.get('columns', ['lon', 'lat'])
            csv = os.path.join(tmp, 'points.csv')
            with open(csv, 'w') as f:
                f.write(f'name,{cols[0]},{cols[1]}\n')
                for k, (x, y) in enumerate(pts):
                    f.write(f'p{k},{float(x)!r},{float(y)!r}\n')
                    if inp.get('empty_record') and k == 1:
                        f.write(',,\n')       # a record whose cells are all empty: a row of missing values, i.e. a point outside the model
                    if inp.get('bad_cell') and k == 1:
                        f.write(f'bad,{inp["bad_cell"]},{float(y)!r}\n')       # a coordinate cell that is not a number: the column is read as text
            out = os.path.join(tmp, 'out.nc')
            argv = ['extract-points', src, csv, out, '--missing-points', inp['policy']]
            if 'columns' in inp:
                argv += ['-c', cols[0], cols[1]]
            if 'dim' in inp:
                argv += ['-d', inp['dim']]
            code, text = run_cli(argv)
            import pandas
            from emsarray.operations import point_extraction
            df = pandas.read_csv(csv)
            try:
                ref = point_extraction.extract_dataframe(ds, df, tuple(cols), point_dimension=inp.get('dim', 'point'),
                                                         missing_points=inp['policy'])
            except point_extraction.NonIntersectingPoints:
                ref = None
            except Exception as e:
                # the library refuses this table (a malformed coordinate column): so must the tool - a failure status and no output file
                if code == 0 or os.path.exists(out):
                    return (f'the library refuses this table ({type(e).__name__}: {str(e)[:80]}) but extract-points exited with {code} '
                            f'(output exists={os.path.exists(out)})')
                return None
            if ref is None:
                if code == 0 or os.path.exists(out):
                    return f'points outside the model with policy error: exit status {code}, output exists={os.path.exists(out)}'
                return None
            if code != 0:
                return f'extract-points exited with {code}: {text[-300:]}'
            # the library result, written the way the library writes point data
            from emsarray.utils import to_netcdf_with_fixes
            lib_out = os.path.join(tmp, 'lib.nc')
            try:
                tname = ds.ems.time_coordinate.name
            except Exception:
                tname = None
            to_netcdf_with_fixes(ref, lib_out, time_variable=tname)
            got, want = xarray.open_dataset(out), xarray.open_dataset(lib_out)
            try:
                d = same_dataset(got, want)
                if d:
                    return 'extract-points CLI output differs from the library result: ' + d
                for k in ref.variables:
                    x, y = ref[k].values, got[k].values
                    if x.dtype.kind == 'f' and ref[k].encoding.get('dtype', x.dtype).kind == 'f':
                        if x.shape != y.shape or not numpy.array_equal(x, y.astype(float), equal_nan=True):
                            return f'extract-points: {k!r} in the file differs from the in-memory library result'
            finally:
                got.close()
                want.close()
            return None
        finally:
            ds.close()
    if op == 'export':
        out = os.path.join(tmp, inp.get('stem', 'geom') + inp['ext'])
        argv = ['export-geometry', src, out]
        if inp['explicit']:
            argv += ['-f', inp['format']]
        code, text = run_cli(argv)
        if inp['format'] is None:
            if code == 0 or os.path.exists(out):
                return f'unknown extension {inp["ext"]!r}: exit status {code}, output exists={os.path.exists(out)}'
            return None
        if code != 0:
            return f'export-geometry exited with {code}: {text[-300:]}'
        from emsarray.operations import geometry
        writer = {'geojson': geometry.write_geojson, 'wkt': geometry.write_wkt, 'wkb': geometry.write_wkb,
                  'shapefile': geometry.write_shapefile}[inp['format']]
        ref = os.path.join(tmp, 'ref' + (inp['ext'] if inp['format'] != 'shapefile' else '.shp'))
        ds = emsarray.open_dataset(src)
        try:
            writer(ds, ref)
        finally:
            ds.close()
        if inp['format'] == 'shapefile':
            import shapefile
            missing = [e for e in ('.shp', '.shx', '.dbf') if not os.path.exists(os.path.splitext(out)[0] + e)] if out.endswith('.shp') else []
            if missing:
                return f'export-geometry {os.path.basename(out)}: the files {missing} with that base name were not written (found {sorted(os.listdir(tmp))})'
            a, b = shapefile.Reader(out if out.endswith('.shp') else out), shapefile.Reader(ref)
            if len(a) != len(b) or [s.points for s in a.shapes()] != [s.points for s in b.shapes()] \
                    or [list(r) for r in a.records()] != [list(r) for r in b.records()]:
                return 'export-geometry shapefile differs from the library writer'
        elif open(out, 'rb').read() != open(ref, 'rb').read():
            return f'export-geometry {inp["format"]} output differs from the library writer'
        return None
    raise ValueError(op)


def key_string(inp, detail):
    if 'accepted text that is not' in detail or 'took text that is neither' in detail:
        return 'bounds_strings:prefix-accepted'
    return 'bounds_strings:other'


CHECKS = [
    Check('geometry_file', gen_file, test_file, key=lambda i, d: 'geometry-file',
          space='4 GeoJSON documents (coordinates with up to 12 decimals, tiny and self-crossing rings) x {.geojson, .json}: the geometry read is bit for bit the one written',
          bound='8 files'),
    Check('bounds_strings', gen_strings, test_string, key=key_string,
          space='bounds strings: every number form (signs, decimals, underscores, unicode digits, malformed) in every position, '
                'separators with spaces/tabs/newlines, leading/trailing junk, 3/5 fields, GeoJSON text; + random compositions',
          bound='~450 strings (quick) / ~5000 (thorough), oracle = hand-written scanner'),
    Check('cli_end_to_end', gen_e2e, test_e2e, key=lambda inp, d: f"cli:{inp['op']}:{inp['spec']['conv']}",
          space='clip / extract-points / export-geometry through emsarray.cli.main on datasets of 3-4 conventions written to disk: '
                'bounds and GeoJSON clips, tables with hits and misses x 3 policies x custom columns/dimension, 4 formats explicit and guessed, '
                'unknown extensions, unreadable geometry',
          bound='3 datasets (quick) / 4 (thorough)'),
]
