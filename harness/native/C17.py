"""C17 bounded stand-in / replay: time-units formatter over ALL offsets; save -> reopen round trip; validation of
the CF-PARSE library contract used by the deductive part."""
from __future__ import annotations

import datetime
import os
import re
import shutil
import tempfile

import cftime
import netCDF4
import numpy
import xarray

import emsarray
from emsarray.utils import format_time_units_for_ems
from harness import datasets
from harness.common import Check, Failure, must

FORM = re.compile(r'[a-z]+ since \d{4}-\d{2}-\d{2} \d{2}:\d{2}:\d{2} [+-]\d{2}:\d{2}')


def offset_text(T, style):
    sign = '-' if T < 0 else '+'
    h, m = divmod(abs(T), 60)
    if style == 'colon':
        return f'{sign}{h:02d}:{m:02d}'
    if style == 'nocolon':
        return f'{sign}{h:02d}{m:02d}'
    if style == 'hours':
        return f'{sign}{h:02d}' if m == 0 else f'{sign}{h:02d}:{m:02d}'
    raise ValueError(style)


EPOCHS = [(1990, 1, 1, 0, 0, 0), (2021, 11, 16, 12, 0, 0), (1970, 1, 1, 23, 59, 59), (2000, 2, 29, 6, 30, 15),
          (950, 3, 4, 5, 6, 7), (1, 1, 2, 0, 0, 0), (9998, 12, 30, 23, 0, 0)]
SPELLINGS = ['{Y:04d}-{M:02d}-{D:02d}T{h:02d}:{m:02d}:{s:02d}{off}', '{Y:04d}-{M:02d}-{D:02d} {h:02d}:{m:02d}:{s:02d} {off}',
             '{Y:04d}-{M}-{D} {h}:{m:02d}:{s:02d} {off}']


def gen_units(tier, seed):
    periods = ['days', 'seconds', 'hours', 'minutes']
    n = 0
    for T in range(-720, 841):
        epochs = EPOCHS if (tier != 'quick' or T % 30 == 0) else EPOCHS[:2]
        for k, ep in enumerate(epochs):
            for si, sp in enumerate(SPELLINGS if (tier != 'quick' or T % 90 == 0) else SPELLINGS[:1]):
                style = ['colon', 'colon', 'nocolon'][si] if T % 60 else ['colon', 'hours', 'nocolon'][si]
                Y, M, D, h, m, s = ep
                yield {'units': f'{periods[(T + k) % 4]} since ' + sp.format(Y=Y, M=M, D=D, h=h, m=m, s=s, off=offset_text(T, style)),
                       'T': T, 'epoch': list(ep)}
    for ep in EPOCHS[:3]:
        Y, M, D, h, m, s = ep
        yield {'units': f'days since {Y:04d}-{M:02d}-{D:02d} {h:02d}:{m:02d}:{s:02d}', 'T': 0, 'epoch': list(ep)}
        yield {'units': f'days since {Y:04d}-{M:02d}-{D:02d}', 'T': 0, 'epoch': [Y, M, D, 0, 0, 0]}
        yield {'units': f'days since {Y:04d}-{M:02d}-{D:02d} {h:02d}:{m:02d}:{s:02d} Z', 'T': 0, 'epoch': list(ep)}


def test_units(inp):
    units, T = inp['units'], inp['T']
    ref = cftime.num2pydate(0, units, 'proleptic_gregorian')
    if cftime._parse_date(cftime._datesplit(units)[1].strip())[-1] != T:
        raise RuntimeError(f'harness: {units!r} does not denote offset {T}')
    new = must(lambda: format_time_units_for_ems(units, 'proleptic_gregorian'), f'format_time_units_for_ems({units!r})')
    if not FORM.fullmatch(new):
        return f"{units!r} -> {new!r}: not of the form '<unit> since YYYY-MM-DD HH:MM:SS <sign>HH:MM'"
    if new.split(' since ')[0] != units.split(' since ')[0]:
        return f'{units!r} -> {new!r}: period changed'
    bits = cftime._parse_date(cftime._datesplit(new)[1].strip())
    if bits[-1] != T:
        return f'{units!r} -> {new!r}: offset field denotes {bits[-1]} minutes, original {T}'
    if list(bits[:6]) != inp['epoch']:
        return f'{units!r} -> {new!r}: local epoch fields {bits[:6]} differ from the original {inp["epoch"]}'
    if cftime.num2pydate(0, new, 'proleptic_gregorian') != ref:
        return f'{units!r} -> {new!r}: reference instant changed'
    return None


def key_units(inp, detail):
    T, Y = inp['T'], inp['epoch'][0]
    cls = []
    if 0 < abs(T) < 600 or T == 0:
        cls.append('single-digit-hour')
    if T < 0 and T % 60:
        cls.append('negative-fractional')
    if Y < 1000:
        cls.append('year<1000')
    return 'format_units:' + ('+'.join(cls) or 'other')


# --- CF-PARSE contract validation (the regex the deductive part assumes for cftime) ---------------------------------------

from_contract = None


def _contract_parse(text):
    import importlib.util
    global from_contract
    if from_contract is None:
        src = open(os.path.join(os.path.dirname(os.path.dirname(os.path.dirname(__file__))), 'pyvc', 'lib', 'timelib.py')).read()
        m = re.search(r'ISO8601_TEXT = \((.*?)\)\nISO8601', src, re.S)
        ns = {}
        exec('ISO8601_TEXT = (' + m.group(1) + ')', ns)
        from_contract = re.compile(ns['ISO8601_TEXT'])
    m = from_contract.match(text.strip())
    if m is None:
        return None
    g = m.groupdict()
    vals = [int(g['year']), int(g['month'] or 1), int(g['day'] or 1), int(g['hour'] or 0), int(g['minute'] or 0), int(g['second'] or 0)]
    tz = g['timezone']
    off = 0
    if tz and tz != 'Z':
        t = re.match(r'([+-])(\d{2})(?::?(\d{2}))?', tz)
        off = (-1 if t.group(1) == '-' else 1) * (int(t.group(2)) * 60 + int(t.group(3) or 0))
    return vals, off


def gen_parse(tier, seed):
    offs = ['', ' Z', 'Z', '   Z', ' +10', '+10', '  +10:00', ' +10:0', ' +10:000', ' -1030x', ' +24:00', ' +99:99', ' -00:00', ' +10:00', ' +1000', ' -03:30', ' +9:30', ' -4:30', ' +0:00', '+09:30', ' +093', ' + 10', ' -11:30',
            ' +00:30', ' +5', ' -12', ' +14:00', '  -0930', ' UTC', ' +1:11', ' -11:1']
    dates = ['1990-01-01 00:00:00', '1990-1-1 0:00:00', '950-01-01 00:00:00', '1-01-02 00:00:00', '2000-02-29T06:30:15',
             '1990-01-01', '1990-01-01 12:00', '12345-01-01 00:00:00', '0950-03-04 05:06:07']
    for d in dates:
        for o in offs:
            if ':' not in d and o and not o.startswith(' '):
                continue        # outside the contract's domain: the code under contract always writes a time part
            yield {'text': d + o}


def test_parse(inp):
    t = inp['text']
    try:
        real = cftime._parse_date(t.strip())
        real = (list(real[:6]), int(real[-1]))
    except Exception as e:
        real = ('error', type(e).__name__)
    mine = _contract_parse(t)
    if mine is None:
        mine = ('error', 'ValueError')
    else:
        mine = (mine[0], mine[1])
    if real[0] == 'error' and mine[0] == 'error':
        return None
    if real != mine:
        return f'CF-PARSE contract disagrees with cftime on {t!r}: cftime {real}, contract {mine}'
    return None


# --- save round trip --------------------------------------------------------------------------------------------------------


def gen_save(tier, seed):
    units = ['days since 1990-01-01T00:00:00+10:00', 'hours since 2000-02-29 06:30:15 -03:30', 'seconds since 1970-01-01 00:00:00 +09:30',
             'days since 1990-01-01 00:00:00']
    specs = datasets.all_specs('quick' if tier == 'quick' else 'thorough')
    if tier == 'quick':
        specs = [s for s in specs if (s.get('ny'), s.get('nx')) in ((2, 3), (1, 4))]
    for k, spec in enumerate(specs):
        yield {'spec': spec, 'units': units[k % len(units)]}
        if k % 3 == 0:
            # the time coordinate stored as a double without a fill value, the way EMS writes it
            yield {'spec': spec, 'units': units[(k + 1) % len(units)], 'time_dtype': 'float64'}
        if k % 3 == 1:
            yield {'spec': spec, 'units': units[(k + 2) % len(units)], 'snapshot': True}
        if k % 3 == 2:
            yield {'spec': spec, 'units': units[k % len(units)], 'encoding_override': True}
    # epochs before the Gregorian reform (climate-model style): the calendar stored next to the numbers decides which instants they are
    for spec in specs[:2]:
        for u in ('days since 0001-01-01 00:00:00', 'hours since 1500-01-01T00:00:00-03:30'):
            yield {'spec': spec, 'units': u, 'time_dtype': 'float64'}


def raw_values(path, name):
    with netCDF4.Dataset(path) as nc:
        nc.set_auto_maskandscale(False)
        return numpy.array(nc.variables[name][...])


def raw_attrs(path):
    out = {}
    with netCDF4.Dataset(path) as nc:
        nc.set_auto_maskandscale(False)
        for name, var in nc.variables.items():
            out[name] = {a: var.getncattr(a) for a in var.ncattrs()}
    return out


def test_save(inp):
    tmp = tempfile.mkdtemp(prefix='verif-c17-')
    try:
        ds = datasets.build(inp['spec'])
        # a packed-style variable whose explicit fill value is falsy (0) and that has missing cells
        fdim = [d for d in ds.sizes if d not in ('time', 'record')][0]
        vals = numpy.arange(ds.sizes[fdim], dtype=float) + 1.0
        vals[::2] = numpy.nan
        ds['zero_fill'] = xarray.DataArray(vals, dims=[fdim])
        ds['zero_fill'].encoding['_FillValue'] = 0.0
        tname = next((n for n in ('time', 't') if n in ds.variables), None)
        if tname is not None:
            ds[tname].encoding['units'] = inp['units']
            ds[tname].encoding['calendar'] = 'proleptic_gregorian'
            if inp.get('time_dtype'):
                ds[tname].encoding['dtype'] = inp['time_dtype']
                ds[tname].encoding['_FillValue'] = None
        src = os.path.join(tmp, 'src.nc')
        ds.to_netcdf(src)                       # a file "from a model"
        orig = emsarray.open_dataset(src)
        if inp.get('snapshot') and tname is not None and ds[tname].ndim == 1:
            orig = orig.isel({ds[tname].dims[0]: 0})      # one time step: the time coordinate becomes a scalar variable
        conv = type(orig.ems).__name__
        before = raw_attrs(src)
        out = os.path.join(tmp, 'out.nc')
        kw = {}
        if inp.get('encoding_override') and tname is not None and not inp.get('snapshot'):
            # the caller asks for other units on disk than the ones remembered from the source file
            kw['encoding'] = {tname: {'units': 'seconds since 1970-01-01 00:00:00'}}
        must(lambda: orig.ems.to_netcdf(out, **kw), f'ems.to_netcdf with time units {inp["units"]!r} {kw}')
        after = raw_attrs(out)
        try:
            back = emsarray.open_dataset(out)
        except Exception as e:
            return f'the saved file cannot be reopened: {type(e).__name__}: {str(e)[:200]}'
        try:
            if type(back.ems).__name__ != conv:
                return f'reopened file detected as {type(back.ems).__name__}, was {conv}'
            try:
                pa = orig.ems.polygons
            except IndexError:
                pa = None       # 1-D CF axis of length 1 without bounds: no polygons in the source either (see C06)
            pb = back.ems.polygons if pa is not None else None
            if pa is not None and (len(pa) != len(pb) or any((a is None) != (b is None) or (a is not None and not a.equals_exact(b, 0)) for a, b in zip(pa, pb))):
                return 'polygons differ after save / reopen'
            if set(orig.variables) != set(back.variables):
                return f'variables differ after save: {set(orig.variables) ^ set(back.variables)}'
            for k in orig.variables:
                a, b = orig[k].values, back[k].values
                if a.dtype != b.dtype or a.shape != b.shape:
                    return f'{k}: dtype/shape changed {a.dtype}{a.shape} -> {b.dtype}{b.shape}'
                if a.dtype.kind in 'fc':
                    same = numpy.array_equal(a, b, equal_nan=True)
                elif a.dtype.kind in 'mM':
                    same = numpy.array_equal(a.astype('int64'), b.astype('int64'))
                else:
                    same = numpy.array_equal(a, b)
                if not same:
                    return f'{k}: values differ after save / reopen'
            for name, attrs in after.items():
                if kw and name == tname:
                    continue        # the caller replaced the encoding of this variable (xarray: the encoding argument replaces, it does not merge)
                if '_FillValue' in before.get(name, {}) and ('_FillValue' not in attrs or not numpy.array_equal(
                        numpy.asarray(attrs['_FillValue'], dtype=float), numpy.asarray(before[name]['_FillValue'], dtype=float), equal_nan=True)):
                    return f'{name}: the _FillValue attribute of the source ({before[name]["_FillValue"]!r}) was lost or changed ({attrs.get("_FillValue")!r})'
                if '_FillValue' in attrs and '_FillValue' not in before.get(name, {}):
                    return f'{name}: saved file has a _FillValue attribute the source did not have'
            if tname is not None:
                u = after[tname].get('units')
                if not FORM.fullmatch(u):
                    return f'saved time units {u!r} not in the EMS form'
                if not kw and cftime.num2pydate(0, u, 'proleptic_gregorian') != cftime.num2pydate(0, before[tname]['units'], 'proleptic_gregorian'):
                    return f'saved time units {u!r} denote another instant than {before[tname]["units"]!r}'
                # the numbers stored in the file, read with the units stored next to them, are the instants of the dataset
                with netCDF4.Dataset(out) as nc:
                    nc.set_auto_maskandscale(False)
                    raw = numpy.atleast_1d(nc.variables[tname][...])
                    cal = getattr(nc.variables[tname], 'calendar', 'proleptic_gregorian')
                got_t = [cftime.num2date(float(x), u, cal) for x in raw.ravel()]
                want_t = [cftime.num2date(float(x), before[tname]['units'], before[tname].get('calendar', 'proleptic_gregorian'))
                          for x in numpy.atleast_1d(raw_values(src, tname)).ravel()]
                if inp.get('snapshot'):
                    want_t = want_t[:1]
                def instant(t):        # seconds from a modern epoch, counted in the date's own calendar: comparable across calendars
                    return float(cftime.date2num(t, 'seconds since 2000-01-01 00:00:00', calendar=t.calendar))
                if len(got_t) != len(want_t) or any(abs(instant(a) - instant(b)) > 1e-3 for a, b in zip(got_t, want_t)):
                    return (f'the instants stored in the saved file (units {u!r}, calendar {cal!r}) differ from those of the dataset '
                            f'(units {before[tname]["units"]!r}, calendar {before[tname].get("calendar", "proleptic_gregorian")!r})')
        finally:
            back.close()
            orig.close()
        return None
    finally:
        shutil.rmtree(tmp, ignore_errors=True)


def key_save(inp, detail):
    u = inp['units']
    m = re.search(r'([+-])(\d{2}):?(\d{2})$', u)
    T = 0 if not m else (-1 if m.group(1) == '-' else 1) * (int(m.group(2)) * 60 + int(m.group(3)))
    if 'to_netcdf with time units' in detail and (abs(T) < 600 or (T < 0 and T % 60)):
        return 'save:time-units-offset'
    return f"save:{inp['spec']['conv']}"


CHECKS = [
    Check('format_units', gen_units, test_units, key=key_units,
          space='every UTC offset -12:00..+14:00 in minutes (1561) x epochs (incl. years < 1000, leap day) x spellings (T / space, '
                '+HH:MM / +HHMM / +HH, unpadded fields) x periods; + offset-free and Z forms',
          bound='quick: all offsets x 2 epochs (7 epochs every 30 min, 3 spellings every 90 min); thorough: full product', exhaustive=False),
    Check('cf_parse_contract', gen_parse, test_parse, key=lambda i, d: 'LIBCONTRACT:CF-PARSE-TZ',
          space='date strings x offset spellings (valid and invalid)', bound='189 strings'),
    Check('save_roundtrip', gen_save, test_save, key=key_save,
          space='datasets of every convention x 4 time-unit strings: ems.to_netcdf -> reopen -> convention, polygons, values, '
                'time instants, no new _FillValue attributes, EMS units form', bound='quick: 16 datasets; thorough: ~90'),
]
