"""C19 bounded stand-in / replay: real matplotlib artists built from datasets whose values identify their cell."""
from __future__ import annotations

import warnings

import matplotlib
matplotlib.use('Agg')
import matplotlib.pyplot as plt
import numpy
import xarray

import emsarray
from harness import datasets
from harness.common import Check, Failure, must, must_raise

SPECS = [
    {'conv': 'cf1d', 'ny': 3, 'nx': 4}, {'conv': 'cf2d', 'ny': 4, 'nx': 4, 'bounds': 'vars', 'holes': [[0, 0], [1, 2], [3, 3]]},
    {'conv': 'cf2d', 'ny': 3, 'nx': 4, 'holes': [[1, 1]]},
    {'conv': 'shoc_standard', 'ny': 3, 'nx': 4, 'node_holes': [[0, 0], [2, 2]]},
    {'conv': 'ugrid', 'ny': 2, 'nx': 3, 'split': [[0, 1]], 'merge': [[1, 0]]},
    # 1-D latitude / longitude coordinates that are not named after their dimensions: lat(y), lon(x)
    {'conv': 'cf1d', 'ny': 3, 'nx': 4, 'ydim': 'y', 'xdim': 'x'},
    # a cell without geometry BEFORE a self-intersecting (bow-tie) cell: the bow-tie has no patch, every other complete cell has one
    {'conv': 'cf2d', 'ny': 3, 'nx': 4, 'bounds': 'vars', 'holes': [[0, 1]], 'bowtie': [1, 2]},
    {'conv': 'cf2d', 'ny': 3, 'nx': 4, 'bounds': 'vars', 'holes': [[0, 0], [0, 2]], 'bowtie': [2, 3]},
]


def gen(tier, seed):
    for s in SPECS:
        yield {'spec': s}


def test(inp):
    spec = dict(inp['spec'])
    bowtie = spec.pop('bowtie', None)
    ds = datasets.build(spec)
    if bowtie:
        for name in ('lon_bnds', 'lat_bnds'):
            v = ds[name].values
            v[bowtie[0], bowtie[1], [1, 2]] = v[bowtie[0], bowtie[1], [2, 1]]          # swap two corners
    ems = ds.ems
    with warnings.catch_warnings():
        warnings.simplefilter('ignore')
        polys = ems.polygons
    shape = datasets.expected_grids(spec)['face']
    size = int(numpy.prod(shape))
    fdims = list(ems.grid_dimensions[ems.default_grid_kind])
    lin = numpy.arange(size, dtype=float).reshape(shape) * 10 + 3
    present = [n for n in range(size) if polys[n] is not None]
    if spec['conv'] in ('cf2d', 'cf1d') and (spec.get('bounds') or spec['conv'] == 'cf1d'):
        # which cells have geometry is a fact about the dataset: complete corners that form a valid outline (independent of the convention)
        import shapely
        from harness.native.C06 import corners_oracle
        corners = corners_oracle(spec)
        if bowtie:
            n_b = bowtie[0] * shape[1] + bowtie[1]
            cb = list(corners[n_b])
            cb[1], cb[2] = cb[2], cb[1]
            corners[n_b] = cb
        expected = [n for n, r in enumerate(corners) if r is not None and shapely.Polygon(r).is_valid]
        if present != expected:
            return f'cells with a polygon {present}; the cells with complete, valid outlines are {expected}'
    variants = {
        'by name': ('marker', ds.assign(marker=(fdims, lin))),
        'transposed': ('marker', ds.assign(marker=(fdims[::-1], lin.T.copy()))),
    }
    try:
        for label, (name, d) in variants.items():
            e = d.ems
            for arg in (name, d[name]):
                coll = must(lambda: e.make_poly_collection(arg), f'make_poly_collection ({label})')
                paths = coll.get_paths()
                arr = numpy.asarray(coll.get_array())
                if len(paths) != len(present) or len(arr) != len(present):
                    return f'{label}: {len(paths)} patches / {len(arr)} values for {len(present)} cells with geometry'
                for k, n in enumerate(present):
                    want = numpy.asarray(polys[n].exterior.coords)
                    got_v = numpy.asarray(paths[k].vertices)[:len(want)]
                    if got_v.shape != want.shape or not numpy.allclose(got_v, want):
                        return f'{label}: patch {k} is not the outline of cell {n}'
                    if arr[k] != n * 10 + 3:
                        return f'{label}: patch {k} shows cell {n} but carries the value of cell {(arr[k] - 3) / 10}'
                clim = coll.get_clim()
                if tuple(clim) != (min(n * 10 + 3 for n in present), max(n * 10 + 3 for n in present)):
                    return f'{label}: colour limits {clim} do not span exactly the plotted values'
        # history: time steps of one variable plotted one after the other on the same dataset (same name, different values)
        steps = numpy.stack([lin, lin * 2 + 1, -lin])
        dt = ds.assign(series=(['step'] + fdims, steps))
        et = dt.ems
        for t in range(3):
            coll = must(lambda: et.make_poly_collection(dt['series'].isel(step=t)), f'make_poly_collection (time step {t} after earlier steps)')
            arr = numpy.asarray(coll.get_array())
            want = steps[t].ravel()[present]
            if len(arr) != len(want) or not numpy.array_equal(arr, want):
                return f'time step {t} plotted after earlier steps of the same variable carries other values than the ones given'
            if tuple(coll.get_clim()) != (want.min(), want.max()):
                return f'time step {t} plotted after earlier steps: colour limits {coll.get_clim()} are not those of the plotted values'
        try:
            et.make_poly_collection(dt['series'])
        except ValueError:
            pass
        else:
            return 'a variable with a leftover dimension is accepted once a slice of the same name was plotted'
        # infinite values (log of zero ...) in cells that have geometry: still one value per patch, each with its own cell
        if len(present) >= 3:
            inf_lin = lin.copy().ravel()
            inf_lin[present[1]] = numpy.inf
            inf_lin[present[-1]] = -numpy.inf
            dinf = ds.assign(marker=(fdims, inf_lin.reshape(shape)))
            coll = must(lambda: dinf.ems.make_poly_collection('marker'), 'make_poly_collection with infinite values')
            arr = numpy.asarray(coll.get_array())
            if len(arr) != len(coll.get_paths()) or len(arr) != len(present):
                return f'infinite values: {len(coll.get_paths())} patches but {len(arr)} values'
            for k, n in enumerate(present):
                if arr[k] != inf_lin[n]:
                    return f'infinite values: patch {k} shows cell {n} but carries another value'
        e = variants['by name'][1].ems
        for want_clim in ((1.0, 2.0), (0.0, 50.0), (0, 30), (-5.0, 0.0), (0.0, 0.0)):
            c2 = e.make_poly_collection('marker', clim=want_clim)
            if tuple(c2.get_clim()) != tuple(float(x) for x in want_clim) and tuple(c2.get_clim()) != tuple(want_clim):
                return f'caller clim {want_clim} not honoured: {tuple(c2.get_clim())}'
        c3 = e.make_poly_collection(array=numpy.arange(len(present)) * 1.0)
        if list(c3.get_array()) != list(numpy.arange(len(present)) * 1.0):
            return 'caller array not honoured'
        import matplotlib.transforms as mtransforms
        tr = mtransforms.Affine2D().scale(2.0)
        c4 = must(lambda: e.make_poly_collection('marker', transform=tr), 'make_poly_collection(transform=...)')
        if must(lambda: c4.get_transform(), 'get_transform') is not tr:
            return 'caller transform overridden'
        must_raise(lambda: e.make_poly_collection('marker', array=numpy.zeros(len(present))), 'data_array and array together', TypeError)
        d3 = ds.assign(stack=(['extra'] + fdims, numpy.stack([lin, lin])))
        must_raise(lambda: d3.ems.make_poly_collection('stack'), 'leftover dimension', ValueError)
        # a variable of another grid of the dataset (edges, nodes) has no value per cell: it is refused, never painted onto the cell polygons
        for kind in ems.grid_kinds:
            if kind == ems.default_grid_kind:
                continue
            kdims = list(ems.grid_dimensions[kind])
            if any(d not in ds.sizes for d in kdims):
                continue
            other = ds.assign(on_other_grid=(kdims, numpy.arange(int(numpy.prod([ds.sizes[d] for d in kdims])), dtype=float).reshape([ds.sizes[d] for d in kdims])))
            for arg in ('on_other_grid', other['on_other_grid']):
                must_raise(lambda: other.ems.make_poly_collection(arg), f'a variable on the {getattr(kind, "value", kind)} grid given to make_poly_collection', (ValueError, IndexError))
        # quiver
        fig = plt.figure()
        ax = fig.add_subplot()
        d4 = ds.assign(u=(fdims, lin), v=(fdims[::-1], (lin * 2).T.copy()))
        if len(fdims) == 2:
            must_raise(lambda: d4.ems.make_quiver(ax, 'u', 'v'), 'vector components with different dimension order', ValueError)
        d5 = ds.assign(u=(fdims, lin), v=(fdims, lin * 2))
        q = must(lambda: d5.ems.make_quiver(ax, 'u', 'v'), 'make_quiver')
        centres = d5.ems.face_centres
        if q.N != size or not numpy.allclose(numpy.asarray(q.XY), centres, equal_nan=True):
            return 'quiver arrows are not at the face centres in linear order'
        # independent of the convention's own face centres: arrow n lies in the polygon of cell n
        import shapely as _sh
        for n_, p_ in enumerate(polys):
            if p_ is not None and not p_.buffer(1e-9).covers(_sh.Point(*numpy.asarray(q.XY)[n_])):
                return f'quiver arrow {n_} at {tuple(numpy.asarray(q.XY)[n_])} does not lie in the polygon of cell {n_}'
        if not numpy.array_equal(numpy.asarray(q.U), lin.reshape(-1)) or not numpy.array_equal(numpy.asarray(q.V), (lin * 2).reshape(-1)):
            return 'quiver components are not those of the same cell'
        must_raise(lambda: d3.assign(s2=(['extra'] + fdims, numpy.stack([lin, lin]))).ems.make_quiver(ax, 'stack', 's2'), 'vector with leftover dimension', ValueError)
        # history: components with missing values in some cells (dry cells at one time step), then a time step where those cells have data:
        # the arrows still sit at the face centres, and plotting does not disturb the convention's face centres
        if size >= 3:
            holes_u = lin.copy().ravel()
            holes_u[[0, size // 2]] = numpy.nan
            steps_u = numpy.stack([holes_u.reshape(shape), lin])
            d7 = ds.assign(u=(['step'] + fdims, steps_u), v=(['step'] + fdims, steps_u * 2))
            e7 = d7.ems
            centres_before = numpy.array(e7.face_centres, copy=True)
            for t in (0, 1):
                q7 = must(lambda: e7.make_quiver(ax, d7['u'].isel(step=t), d7['v'].isel(step=t)), f'make_quiver (time step {t})')
                if not numpy.allclose(numpy.asarray(q7.XY), centres_before, equal_nan=True):
                    return f'quiver arrows of time step {t} are not at the face centres (earlier components had missing values in some cells)'
            if not numpy.array_equal(numpy.asarray(e7.face_centres), centres_before, equal_nan=True):
                return 'plotting vectors with missing components changed the face centres of the convention'
        # animation frames
        nt = 3
        tdim = 'frame'
        frames = numpy.stack([lin + 1000 * t for t in range(nt)])
        d6 = ds.assign(anim=([tdim] + fdims, frames)).assign_coords({tdim: numpy.arange(nt)})
        fig2 = plt.figure()
        import cartopy.crs
        an = must(lambda: d6.ems.animate_on_figure(fig2, scalar='anim', coordinate=tdim, coast=False, gridlines=False), 'animate_on_figure')
        coll = [c for c in fig2.axes[0].collections][0]
        for t in range(nt):
            an._func(t)
            arr = numpy.asarray(coll.get_array())
            if len(arr) != len(present) or any(arr[k] != n * 10 + 3 + 1000 * t for k, n in enumerate(present)):
                return f'animation frame {t}: values are not those of the cells whose outlines are drawn'
    finally:
        plt.close('all')
    return None


CHECKS = [Check('artists', gen, test, key=lambda i, d: f"artists:{i['spec']['conv']}",
                space='5 datasets with and without holes (holes first, between and last): PolyCollection paths / array / clim for variables given by '
                      'name and as arrays, with grid dimensions in both orders; caller array / clim / transform; refusals; Quiver XY / U / V; '
                      'every animation frame', bound='5 datasets')]
