"""C06 bounded stand-in / replay: polygons of real datasets against an independent oracle of the cell corners;
validity mask, invalid-cell dropping, extent."""
from __future__ import annotations

import itertools
import warnings

import numpy
import shapely
import xarray

import emsarray
from emsarray.exceptions import InvalidPolygonWarning
from harness import datasets
from harness.common import Check, Failure, must


def corners_oracle(spec):
    """-> list over linear cell index of (list of (x, y)) or None (cell without geometry)"""
    conv = spec['conv']
    ny, nx = spec.get('ny', 3), spec.get('nx', 4)
    if conv == 'cf1d':
        origin, step = spec.get('origin', (100.0, -10.0)), spec.get('step', (2.0, 1.0))
        lat = datasets.axis_values(ny, origin[1], step[1], spec.get('descending_lat', False), spec.get('nonuniform', False))
        lon = datasets.axis_values(nx, origin[0], step[0], spec.get('descending_lon', False), spec.get('nonuniform', False))
        if spec.get('bounds'):
            s = spec.get('bounds_shrink', 0.25)
            lb = [(v - s, v + s) for v in lat]
            nb = [(v - 2 * s, v + 2 * s) for v in lon]
        else:
            def mids(v):
                n = len(v)
                m = [v[0] - (v[1] - v[0]) / 2] + [(v[k - 1] + v[k]) / 2 for k in range(1, n)] + [v[-1] + (v[-1] - v[-2]) / 2]
                return [(m[k], m[k + 1]) for k in range(n)]
            lb, nb = mids(lat), mids(lon)
        out = []
        for j in range(ny):
            for i in range(nx):
                out.append([(nb[i][0], lb[j][0]), (nb[i][1], lb[j][0]), (nb[i][1], lb[j][1]), (nb[i][0], lb[j][1])])
        return out
    if conv in ('cf2d', 'shoc_simple'):
        gx, gy = datasets.curvilinear(ny, nx, spec.get('skew', 0.1), spec.get('radial', False))
        holes = set(map(tuple, spec.get('holes', ())))
        out = []
        if spec.get('bounds'):
            for j in range(ny):
                for i in range(nx):
                    if (j, i) in holes:
                        out.append(None)
                    else:
                        out.append([(gx[j, i], gy[j, i]), (gx[j, i + 1], gy[j, i + 1]), (gx[j + 1, i + 1], gy[j + 1, i + 1]), (gx[j + 1, i], gy[j + 1, i])])
            return out
        # synthesised: corner (j, i) = mean of the usable centres among (j-1..j, i-1..i)
        cx = (gx[:-1, :-1] + gx[:-1, 1:] + gx[1:, 1:] + gx[1:, :-1]) / 4
        cy = (gy[:-1, :-1] + gy[:-1, 1:] + gy[1:, 1:] + gy[1:, :-1]) / 4
        for (hj, hi) in holes:
            if 0 <= hj < ny and 0 <= hi < nx:
                cx[hj, hi] = cy[hj, hi] = numpy.nan

        def usable(c):
            nan = numpy.isnan(c)
            out = c.copy()
            for j in range(ny):
                for i in range(nx):
                    up = j > 0 and nan[j - 1, i]
                    down = j < ny - 1 and nan[j + 1, i]
                    left = i > 0 and nan[j, i - 1]
                    right = i < nx - 1 and nan[j, i + 1]
                    if (up and down) or (left and right):
                        out[j, i] = numpy.nan
            return out

        def corner_grid(c):
            c = usable(c)
            g = numpy.full((ny + 1, nx + 1), numpy.nan)
            for j in range(ny + 1):
                for i in range(nx + 1):
                    vals = [c[a, b] for a in (j - 1, j) for b in (i - 1, i) if 0 <= a < ny and 0 <= b < nx and not numpy.isnan(c[a, b])]
                    if vals:
                        g[j, i] = sum(vals) / len(vals)
            return g
        sx, sy = corner_grid(cx), corner_grid(cy)
        for j in range(ny):
            for i in range(nx):
                pts = [(sx[j, i], sy[j, i]), (sx[j, i + 1], sy[j, i + 1]), (sx[j + 1, i + 1], sy[j + 1, i + 1]), (sx[j + 1, i], sy[j + 1, i])]
                missing = numpy.isnan(cx[j, i]) or numpy.isnan(cy[j, i])          # the cell's own coordinates are missing
                out.append(None if missing or any(numpy.isnan(v) for p in pts for v in p) else pts)
        return out
    if conv == 'shoc_standard':
        gx, gy = datasets.curvilinear(ny, nx, spec.get('skew', 0.1), spec.get('radial', False))
        for (hj, hi) in spec.get('node_holes', ()):
            gx[hj, hi] = gy[hj, hi] = numpy.nan
        out = []
        for j in range(ny):
            for i in range(nx):
                pts = [(gx[j, i], gy[j, i]), (gx[j, i + 1], gy[j, i + 1]), (gx[j + 1, i + 1], gy[j + 1, i + 1]), (gx[j + 1, i], gy[j + 1, i])]
                out.append(None if any(numpy.isnan(v) for p in pts for v in p) else pts)
        return out
    node_x, node_y, faces = datasets.quad_tri_mesh(spec.get('ny', 2), spec.get('nx', 3), split=tuple(map(tuple, spec.get('split', ()))),
                                                   merge=tuple(map(tuple, spec.get('merge', ()))), jitter=spec.get('jitter', 0.0))
    return [[(node_x[n], node_y[n]) for n in f] for f in faces]


SPECS = [
    {'conv': 'cf1d', 'ny': 3, 'nx': 4}, {'conv': 'cf1d', 'ny': 4, 'nx': 3, 'descending_lat': True, 'nonuniform': True},
    {'conv': 'cf1d', 'ny': 2, 'nx': 5, 'descending_lon': True, 'nonuniform': True},
    {'conv': 'cf1d', 'ny': 3, 'nx': 4, 'bounds': 'vars'}, {'conv': 'cf1d', 'ny': 3, 'nx': 4, 'bounds': 'coords'},
    {'conv': 'cf1d', 'ny': 1, 'nx': 4, 'bounds': 'vars'}, {'conv': 'cf1d', 'ny': 3, 'nx': 1, 'bounds': 'coords'},
    {'conv': 'cf1d', 'ny': 3, 'nx': 4, 'as_coords': False, 'ydim': 'y', 'xdim': 'x', 'bounds': 'vars'},
    # stored bounds on a decreasing axis, each pair still (lower, upper): the order inside the pairs is the opposite of the axis direction
    {'conv': 'cf1d', 'ny': 3, 'nx': 4, 'bounds': 'vars', 'descending_lat': True}, {'conv': 'cf1d', 'ny': 2, 'nx': 5, 'bounds': 'coords', 'descending_lon': True, 'descending_lat': True},
    {'conv': 'cf2d', 'ny': 3, 'nx': 4}, {'conv': 'cf2d', 'ny': 4, 'nx': 4, 'holes': [[1, 1]]},
    # a one-cell-wide river between missing cells (cells bound by NaN on both sides are blanked while bounds are synthesised)
    {'conv': 'cf2d', 'ny': 4, 'nx': 5, 'holes': [[1, 0], [1, 2], [2, 2], [3, 1], [3, 3]]}, {'conv': 'cf2d', 'ny': 4, 'nx': 5, 'holes': [[0, 0], [2, 3], [2, 4]]},
    # missing centres next to a border cell AND at the opposite end of its row / column: the border cell is not "enclosed" (nothing wraps around)
    {'conv': 'cf2d', 'ny': 5, 'nx': 6, 'holes': [[2, 1], [2, 5]]}, {'conv': 'cf2d', 'ny': 5, 'nx': 6, 'holes': [[1, 3], [4, 3]]},
    {'conv': 'cf2d', 'ny': 3, 'nx': 4, 'bounds': 'vars', 'holes': [[0, 1]]}, {'conv': 'cf2d', 'ny': 3, 'nx': 4, 'bounds': 'coords'},
    {'conv': 'cf2d', 'ny': 3, 'nx': 3, 'bounds': 'vars', 'as_coords': False}, {'conv': 'cf2d', 'ny': 4, 'nx': 3, 'radial': True},
    {'conv': 'shoc_simple', 'ny': 3, 'nx': 4, 'bounds': 'vars'}, {'conv': 'shoc_simple', 'ny': 3, 'nx': 4, 'bounds': 'vars', 'first_plain': True},
    {'conv': 'shoc_simple', 'ny': 3, 'nx': 4},
    {'conv': 'shoc_standard', 'ny': 3, 'nx': 4}, {'conv': 'shoc_standard', 'ny': 3, 'nx': 4, 'node_holes': [[0, 0], [2, 2]]},
    # a masked region of the node grid that leaves a lone finite node no complete cell uses (it must not widen the reported extent)
    {'conv': 'shoc_standard', 'ny': 3, 'nx': 4, 'node_holes': [[0, 4], [1, 4], [2, 4], [0, 3], [1, 3]]},
    # cells whose centre coordinates are missing while their four nodes are defined: a cell is its nodes, it keeps its polygon
    {'conv': 'shoc_standard', 'ny': 3, 'nx': 4, 'centre_holes': [[0, 0], [1, 2]]},
    {'conv': 'shoc_standard', 'ny': 2, 'nx': 3, 'as_coords': False}, {'conv': 'shoc_standard', 'ny': 1, 'nx': 3, 'radial': True},
    {'conv': 'ugrid', 'ny': 2, 'nx': 3}, {'conv': 'ugrid', 'ny': 3, 'nx': 3, 'split': [[0, 0], [1, 2]], 'merge': [[2, 0]]},
    {'conv': 'ugrid', 'ny': 2, 'nx': 3, 'split': [[0, 1]], 'start_index': 1, 'fill': 'nan'},
    {'conv': 'ugrid', 'ny': 2, 'nx': 3, 'split': [[0, 1]], 'start_index': 1, 'fill': 'int_fill', 'transposed': True},
    {'conv': 'ugrid', 'ny': 2, 'nx': 3, 'coords_as': 'coords', 'face_coords': True}, {'conv': 'ugrid', 'ny': 2, 'nx': 2, 'tables': ['edge_node', 'face_edge']},
]


def _dedup(ring):
    """a ring without its closing vertex and without immediately repeated vertices (synthesised corners may coincide next to holes)"""
    out = []
    for v in ring:
        if not out or tuple(v) != tuple(out[-1]):
            out.append(tuple(v))
    if len(out) > 1 and out[0] == out[-1]:
        out.pop()
    return out


def gen(tier, seed):
    for s in SPECS:
        yield {'spec': s}


def test(inp):
    spec = inp['spec']
    want = corners_oracle(spec)
    ds = datasets.build(spec)
    original = ds.copy(deep=True)
    with warnings.catch_warnings(record=True) as w:
        warnings.simplefilter('always')
        polys = must(lambda: ds.ems.polygons, 'polygons')
        must(lambda: ds.ems.bounds, 'bounds')
    if not ds.identical(original):
        changed = [str(k) for k in ds.variables if not ds[k].identical(original[k])]
        return f'building the polygons / extent modified the dataset itself: {changed}'
    if len(polys) != len(want):
        return f'{len(polys)} polygon slots for {len(want)} cells'
    if polys.flags.writeable:
        return 'polygon array is writeable'
    mask = ds.ems.mask
    for n, (p, c) in enumerate(zip(polys, want)):
        if c is not None and not shapely.Polygon(c).is_valid:
            c = None              # degenerate / self-intersecting outline: dropped (with a warning)
        if (p is None) != (c is None):
            return f'cell {n}: polygon {"missing" if p is None else "present"} but the coordinates say the cell is {"complete" if c else "incomplete"}'
        if bool(mask[n]) != (p is not None):
            return f'cell {n}: mask {mask[n]} disagrees with polygons'
        if p is None:
            continue
        got = _dedup(list(p.exterior.coords))
        c = _dedup([tuple(map(float, v)) for v in c])
        if len(got) != len(c) or not numpy.allclose(numpy.array(got), numpy.array(c), rtol=0, atol=1e-12):
            return f'cell {n}: vertices {got} differ from the cell the dataset describes {c}'
    present = [p for p in polys if p is not None]
    if present:
        bb = shapely.unary_union(present).bounds
        got = tuple(float(v) for v in ds.ems.bounds)
        if not numpy.allclose(got, bb, rtol=0, atol=1e-12):
            return f'bounds {got} differ from the bounding box of the polygons {bb}'
        if not ds.ems.geometry.buffer(1e-9).contains(shapely.unary_union(present)) or \
                (spec['conv'] != 'cf1d' and not shapely.unary_union(present).buffer(1e-9).contains(ds.ems.geometry)):
            return 'geometry differs from the union of the polygons'
    return None


# --- invalid (self-intersecting) cells -----------------------------------------------------------------------------------------


def gen_invalid(tier, seed):
    for conv in ('cf2d', 'ugrid', 'shoc_standard'):
        for hole_before in (False, True):
            for where in ('interior', 'border'):
                yield {'conv': conv, 'hole_before': hole_before, 'where': where}


def build_invalid(inp):
    conv = inp['conv']
    if conv == 'cf2d':
        ds = datasets.build({'conv': 'cf2d', 'ny': 3, 'nx': 4, 'bounds': 'vars', 'holes': [[0, 0]] if inp['hole_before'] else []})
        j, i = (1, 1) if inp['where'] == 'interior' else (2, 3)
        for name in ('lon_bnds', 'lat_bnds'):
            v = ds[name].values
            v[j, i, [1, 2]] = v[j, i, [2, 1]]          # swap two corners: bow-tie
        return ds, j * 4 + i, 12
    if conv == 'shoc_standard':
        ds = datasets.build({'conv': 'shoc_standard', 'ny': 3, 'nx': 4, 'node_holes': [[0, 0]] if inp['hole_before'] else []})
        # fold the node grid at one node so the cells around it self-intersect: move node (1,1)/(3,4) far across
        j, i = (2, 2) if inp['where'] == 'interior' else (3, 4)
        ds['x_grid'].values[j, i] -= 3.0
        ds['y_grid'].values[j, i] -= 3.0
        if inp['where'] == 'border':
            ds['y_grid'].values[j, i] += 9.0        # folded outwards: the node lies beyond every kept cell
        return ds, None, 12
    ds = datasets.build({'conv': 'ugrid', 'ny': 2, 'nx': 3})
    fn = ds['Mesh2_face_nodes'].values
    f = 4 if inp['where'] == 'interior' else 5
    fn[f, [1, 2]] = fn[f, [2, 1]]
    return ds, f, 6


def test_invalid(inp):
    ds, bad, size = build_invalid(inp)
    with warnings.catch_warnings(record=True) as w:
        warnings.simplefilter('always')
        raw = ds.ems._make_polygons()
        polys = must(lambda: ds.ems.polygons, 'polygons')
    invalid = [n for n, p in enumerate(raw) if p is not None and not p.is_valid]
    if not invalid:
        return None if bad is None else 'harness: no invalid cell produced'
    warned = [x for x in w if issubclass(x.category, InvalidPolygonWarning)]
    for n in range(size):
        r, p = raw[n], polys[n]
        if n in invalid:
            if p is not None:
                return f'self-intersecting cell {n} was kept'
        elif (r is None) != (p is None):
            return f'cell {n}: {"dropped although valid" if p is None else "appeared"} (invalid cells: {invalid})'
    if not warned:
        return 'invalid cells dropped without InvalidPolygonWarning'
    if list(ds.ems.mask) != [p is not None for p in polys]:
        return 'mask disagrees with polygons after dropping invalid cells'
    present = [p for p in polys if p is not None]
    bb = shapely.unary_union(present).bounds
    got = tuple(float(v) for v in ds.ems.bounds)
    if not numpy.allclose(got, bb, rtol=0, atol=1e-12):
        return f'bounds {got} differ from the bounding box of the kept polygons {bb} (a dropped cell still counts)'
    return None


# --- overall geometry of meshes that are not a vertex-for-vertex coverage -----------------------------------------------------------


def gen_union(tier, seed):
    yield {'mesh': 'hanging node'}
    yield {'mesh': 'overlapping faces'}
    yield {'mesh': 'two islands'}


def test_union(inp):
    """dataset.ems.geometry is the union of the cell polygons, also when neighbouring faces do not share whole edges node for node"""
    if inp['mesh'] == 'hanging node':
        # a wide quadrilateral under two narrow ones: node 4 = (1, 1) lies on the wide cell's top edge without being one of its nodes
        nx = [0.0, 2.0, 2.0, 0.0, 1.0, 0.0, 1.0, 2.0]
        ny = [0.0, 0.0, 1.0, 1.0, 1.0, 2.0, 2.0, 2.0]
        faces = [[0, 1, 2, 3], [3, 4, 6, 5], [4, 2, 7, 6]]
    elif inp['mesh'] == 'overlapping faces':
        nx = [0.0, 2.0, 2.0, 0.0, 1.0, 3.0, 3.0, 1.0]
        ny = [0.0, 0.0, 2.0, 2.0, 1.0, 1.0, 3.0, 3.0]
        faces = [[0, 1, 2, 3], [4, 5, 6, 7]]
    else:
        nx = [0.0, 1.0, 1.0, 0.0, 5.0, 6.0, 6.0, 5.0]
        ny = [0.0, 0.0, 1.0, 1.0, 0.0, 0.0, 1.0, 1.0]
        faces = [[0, 1, 2, 3], [4, 5, 6, 7]]
    nx, ny = [100 + x for x in nx], [-10 + y for y in ny]
    ds = datasets.ugrid(mesh=(nx, ny, faces), extra=False)
    polys = must(lambda: ds.ems.polygons, 'polygons')
    present = [p for p in polys if p is not None]
    union = shapely.unary_union(present)
    g = must(lambda: ds.ems.geometry, 'geometry')
    if not g.is_valid:
        return f'the overall geometry is not a valid geometry ({shapely.is_valid_reason(g)})'
    if abs(g.area - union.area) > 1e-12 or not g.equals(union):
        return f'the overall geometry (area {g.area}, {g.geom_type}) is not the union of the cell polygons (area {union.area}, {union.geom_type})'
    bb = tuple(float(v) for v in ds.ems.bounds)
    if not numpy.allclose(bb, union.bounds, rtol=0, atol=1e-12):
        return f'bounds {bb} differ from the bounding box of the polygons {union.bounds}'
    return None


CLASS_OF = {'cf1d': 'CFGrid', 'cf2d': 'CFGrid', 'shoc_simple': 'CFGrid', 'shoc_standard': 'ArakawaC', 'ugrid': 'UGrid'}


def bounds_owner(conv):
    """the class whose `bounds` implementation a dataset of this kind uses, read from the library as it is now (a new override is a new name)"""
    import emsarray.conventions as ec
    import emsarray.conventions.shoc  # noqa: F401
    name = datasets.CONVENTION_CLASS[conv]
    klass = getattr(ec, name, None) or getattr(ec.shoc, name)
    for k in klass.__mro__:
        if 'bounds' in k.__dict__:
            return 'ArakawaC' if k.__name__ == 'Convention' and conv == 'shoc_standard' else k.__name__
    return klass.__name__


def key_invalid(inp, detail):
    if 'differ from the bounding box of the kept polygons' in detail:
        return f"extent:{bounds_owner(inp['conv'])}.bounds:dropped-cell-still-in-bounds"        # per bounds implementation: another class failing is another finding
    return f"invalid:{inp['conv']}"


def key_poly(inp, detail):
    if inp['spec']['conv'] in ('cf2d', 'shoc_simple') and not inp['spec'].get('bounds') and 'polygon present but' in detail:
        return 'polygons:cf2d-missing-centre-gets-polygon'
    if 'bounds' in detail and 'bounding box of the polygons' in detail:
        sp = inp['spec']       # per bounds implementation and per family of inputs: another class, or stored bounds, or a grid without holes is another finding
        return (f"extent:{bounds_owner(sp['conv'])}.bounds:bounds-override:{sp['conv']}:{'stored' if sp.get('bounds') else 'synthesised'}-corners:"
                f"{'holes' if sp.get('holes') else 'no-holes'}")
    return f"polygons:{inp['spec']['conv']}"


CHECKS = [
    Check('union', gen_union, test_union, key=lambda i, d: f"union:{i['mesh']}",
          space='meshes whose faces are not a vertex-for-vertex coverage (a hanging node, overlapping faces, two islands): geometry = union of the polygons, valid',
          bound='3 meshes'),
    Check('polygons', gen, test, key=key_poly,
          space='28 datasets: 1-D CF axes ascending / descending / non-uniform with and without stored bounds (variables or coordinates), '
                'curvilinear 2-D grids with / without bounds and missing cells, SHOC simple / standard incl. masked nodes, meshes '
                '(tri/quad/hex, 0/1-based, NaN / _FillValue, transposed, coordinates as coords): every vertex of every cell against an '
                'independent oracle; mask; bounds and geometry vs bbox / union of the polygons', bound='28 datasets'),
    Check('invalid_cells', gen_invalid, test_invalid, key=key_invalid,
          space='bow-tie / folded cells in CF 2-D, SHOC standard and UGRID datasets, with and without an earlier hole, interior and border',
          bound='12 datasets'),
]
