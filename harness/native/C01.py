"""C01 bounded stand-in / replay: index bijection on real datasets (every cell, margins on both sides)."""
from __future__ import annotations

import numpy

import emsarray  # noqa: F401
from harness import datasets
from harness.common import Check, Failure, must, must_raise


def gen(tier, seed):
    for spec in datasets.all_specs(tier):
        yield spec
    # data stored x-major ahead of the coordinates: Dataset.sizes lists x before y (non-square grids)
    yield {'conv': 'cf1d', 'ny': 3, 'nx': 5, 'leading_transposed': True, 'ydim': 'y', 'xdim': 'x'}
    yield {'conv': 'cf1d', 'ny': 4, 'nx': 2, 'leading_transposed': True, 'ydim': 'y', 'xdim': 'x', 'as_coords': False}
    yield {'conv': 'ugrid', 'ny': 2, 'nx': 3, 'tables': ['edge_node'], 'edge_transposed': True}
    yield {'conv': 'ugrid', 'ny': 2, 'nx': 2, 'tables': ['edge_node', 'edge_face'], 'transposed': True}
    for order in (['face', 'node', 'back', 'left'], ['node', 'left', 'face', 'back'], ['back', 'face', 'node', 'left']):
        yield {'conv': 'shoc_standard', 'ny': 2, 'nx': 3, 'coordinate_order': order}
    # curvilinear grids whose longitude is stored (x, y) while the latitude is stored (y, x), non-square
    yield {'conv': 'cf2d', 'ny': 2, 'nx': 4, 'lon_transposed': True}
    yield {'conv': 'cf2d', 'ny': 4, 'nx': 1, 'lon_transposed': True, 'as_coords': False}
    # meshes with fewer faces than nodes per face, the face dimension not named by an attribute (it is the first dimension of face_node)
    yield {'conv': 'ugrid', 'ny': 1, 'nx': 2, 'face_dimension_attr': False}
    yield {'conv': 'ugrid', 'ny': 1, 'nx': 1, 'face_dimension_attr': False, 'tables': ['edge_node']}
    yield {'conv': 'ugrid', 'ny': 1, 'nx': 3, 'face_dimension_attr': False, 'start_index': 1}
    # the coordinate variables named by the caller (files without CF attributes): CFGrid1D(dataset, latitude=..., longitude=...)
    yield {'conv': 'cf1d', 'ny': 2, 'nx': 5, 'explicit_names': True}
    yield {'conv': 'cf1d', 'ny': 4, 'nx': 3, 'explicit_names': True, 'as_coords': False, 'ydim': 'y', 'xdim': 'x'}
    # tables that mention edges in a dataset without an edge dimension (no attribute, no edge table): still no edge grid
    yield {'conv': 'ugrid', 'ny': 2, 'nx': 3, 'split': [[0, 0]], 'tables': ['face_edge'], 'edge_dimension': False}
    yield {'conv': 'ugrid', 'ny': 2, 'nx': 2, 'tables': ['face_edge', 'face_face'], 'edge_dimension': False, 'start_index': 1}


def native_form(conv, kind, comps):
    if conv in ('cf1d', 'cf2d', 'shoc_simple'):
        return tuple(comps)
    return (kind,) + tuple(comps)


def test(spec):
    ds = datasets.build({k: v for k, v in spec.items() if k not in ('coordinate_order', 'explicit_names')})
    if spec.get('explicit_names'):
        from emsarray.conventions.grid import CFGrid1D
        for n in ('lat', 'lon'):
            ds[n].attrs.clear()            # nothing to detect the coordinates by
        conv = must(lambda: CFGrid1D(ds, latitude='lat', longitude='lon'), "CFGrid1D(dataset, latitude='lat', longitude='lon')")
        conv.bind()
    if spec.get('coordinate_order'):
        # the general Arakawa C convention, its coordinate names given as a mapping in the caller's order, bound to the dataset
        from emsarray.conventions.arakawa_c import ArakawaC, ArakawaCGridKind
        names = {'face': ('y_centre', 'x_centre'), 'left': ('y_left', 'x_left'), 'back': ('y_back', 'x_back'), 'node': ('y_grid', 'x_grid')}
        conv = must(lambda: ArakawaC(ds, coordinate_names={ArakawaCGridKind(k): names[k] for k in spec['coordinate_order']}), 'ArakawaC(dataset, coordinate_names=...)')
        conv.bind()
    ems = must(lambda: ds.ems, 'convention detection')
    sizes = must(lambda: dict(ems.grid_size), 'grid_size')
    kinds = must(lambda: set(ems.grid_kinds), 'grid_kinds')
    if set(sizes) != kinds:
        return f'grid_size keys {set(sizes)} != grid_kinds {kinds}'
    expected = datasets.expected_grids({k: v for k, v in spec.items() if k != 'explicit_names'})
    if {getattr(k, 'value', k) for k in kinds} != set(expected):
        return f'grid_kinds {kinds} but the dataset defines {sorted(expected)}'
    for kind in kinds:
        shape = expected[getattr(kind, 'value', kind)]
        size = int(numpy.prod(shape))
        if sizes[kind] != size:
            return f'grid_size[{kind}]={sizes[kind]} but that grid has extents {shape}'
        seen = set()
        for l in range(size):
            idx = must(lambda: ems.wind_index(l, grid_kind=kind), f'wind_index({l}, {kind})')
            comps = numpy.unravel_index(l, shape)
            expect = native_form(spec['conv'], kind, [int(c) for c in comps])
            if tuple(idx) != expect:
                return f'wind_index({l}, {kind}) = {idx!r}, expected row-major {expect!r} for shape {shape}'
            back = must(lambda: ems.ravel_index(idx), f'ravel_index({idx})')
            if back != l:
                return f'ravel_index(wind_index({l})) = {back}'
            seen.add(tuple(idx))
        if len(seen) != size:
            return f'{kind}: {len(seen)} distinct native indexes for size {size}'
        margin = max(3, max(shape) + 1)
        for l in list(range(-margin - size, 0)) + list(range(size, size + margin)):
            must_raise(lambda: ems.wind_index(l, grid_kind=kind), f'wind_index({l}, {kind}) on size {size}')
        # native indexes just outside the grid, every axis, both sides
        for ax, n in enumerate(shape):
            for bad in (-1, n, -n, n + 1, -n - 1):
                comps = [0 if s > 0 else 0 for s in shape]
                comps[ax] = bad
                idx = native_form(spec['conv'], kind, comps)
                must_raise(lambda: ems.ravel_index(idx), f'ravel_index({idx}) on shape {shape}')
    if spec['conv'] in datasets.CONVENTION_CLASS:
        face = [k for k in kinds if getattr(k, 'value', k) == 'face']
        if face and sizes[face[0]] > 0:
            if tuple(ems.wind_index(0)) != tuple(ems.wind_index(0, grid_kind=face[0])):
                return 'wind_index without grid_kind is not the face grid'
    return None


CHECKS = [Check('index_bijection', gen, test,
                key=lambda inp, d: f"index_bijection:{inp['conv']}",
                space='datasets of every convention (shapes incl. 1xN, Nx1, non-square; UGRID with/without edges, '
                      'transposed connectivity) x every grid kind x every linear index in [-size-margin, size+margin)',
                bound='shapes up to 3x2 (quick) / 5x5 (thorough); exhaustive over indexes of each dataset')]
