"""C03 bounded stand-in / replay: ravel / wind on real DataArrays, every permutation of dimension order."""
from __future__ import annotations

import itertools

import numpy
import xarray

import emsarray  # noqa: F401
from harness import datasets
from harness.common import Check, Failure, must, must_raise

BASE = [
    {'conv': 'cf1d', 'ny': 2, 'nx': 3}, {'conv': 'cf2d', 'ny': 3, 'nx': 2},
    {'conv': 'shoc_standard', 'ny': 2, 'nx': 3}, {'conv': 'ugrid', 'ny': 2, 'nx': 2, 'tables': ['edge_node']},
    {'conv': 'cf1d', 'ny': 1, 'nx': 4}, {'conv': 'shoc_standard', 'ny': 3, 'nx': 1},
]
EXTRA = [('t', 2), ('z', 3), ('w', 2)]


def gen(tier, seed):
    max_extra = 2 if tier == 'quick' else 3
    for spec in (BASE[:4] if tier == 'quick' else BASE):
        for kind in datasets.expected_grids(spec):
            for ne in range(max_extra + 1):
                n_grid = len(datasets.expected_grids(spec)[kind])
                for perm in itertools.permutations(range(n_grid + ne)):
                    yield {'spec': spec, 'kind': kind, 'n_extra': ne, 'perm': list(perm)}
    # a mesh that names an edge dimension on which no variable is defined (the dimension has no size): faces and nodes as ever
    unsized = {'conv': 'ugrid', 'ny': 2, 'nx': 2, 'edge_dimension': True, 'edge_values': False}
    for kind in ('face', 'node'):
        for ne in range(2):
            for perm in itertools.permutations(range(1 + ne)):
                yield {'spec': unsized, 'kind': kind, 'n_extra': ne, 'perm': list(perm)}


def test(inp):
    spec, kind_name = inp['spec'], inp['kind']
    ds = datasets.build(spec)
    ems = ds.ems
    kind = next(k for k in ems.grid_kinds if getattr(k, 'value', k) == kind_name)
    gdims = list(ems.grid_dimensions[kind])
    gshape = datasets.expected_grids(spec)[kind_name]
    extras = EXTRA[:inp['n_extra']]
    names = gdims + [e[0] for e in extras]
    sizes = dict(zip(gdims, gshape))
    sizes.update(dict(extras))
    dims = [names[p] for p in inp['perm']]
    shape = tuple(sizes[d] for d in dims)
    values = numpy.arange(int(numpy.prod(shape)), dtype=float).reshape(shape) + 0.5
    x = xarray.DataArray(values, dims=dims)
    others = [d for d in dims if d not in gdims]
    # oracle: transpose to others + grid dims (convention order), C-order reshape
    oracle = numpy.transpose(values, [dims.index(d) for d in others + gdims]).reshape([sizes[d] for d in others] + [-1]) \
        if values.size or True else None
    r = must(lambda: ems.ravel(x), 'ravel')
    if list(r.dims) != others + ['index']:
        return f'ravel dims {r.dims}, expected {others + ["index"]}'
    if r.values.shape != oracle.shape or not numpy.array_equal(r.values, oracle):
        return f'ravel values differ from row-major flattening for dims {dims}'
    w = must(lambda: ems.wind(r, grid_kind=kind), 'wind(ravel(x))')
    if list(w.dims) != others + gdims:
        return f'wind(ravel) dims {w.dims}, expected {others + gdims}'
    if not numpy.array_equal(w.values, numpy.transpose(values, [dims.index(d) for d in others + gdims])):
        return 'wind(ravel(x)) does not reproduce x'
    # every position of the linear dimension, by axis and by name
    for pos in range(len(others) + 1):
        ydims = others[:pos] + ['cells'] + others[pos:]
        y = r.rename({'index': 'cells'}).transpose(*ydims)
        for kwargs in ({'axis': pos}, {'linear_dimension': 'cells'}, {'axis': pos - len(ydims)}):
            w2 = must(lambda: ems.wind(y, grid_kind=kind, **kwargs), f'wind {kwargs}')
            if list(w2.dims) != others[:pos] + gdims + others[pos:]:
                return f'wind({kwargs}) dims {w2.dims}'
            r2 = must(lambda: ems.ravel(w2, linear_dimension='cells'), 'ravel(wind(y))')
            if list(r2.dims) != others + ['cells'] or not numpy.array_equal(r2.values, r.values):
                return f'ravel(wind(y, {kwargs})) is not the identity'
    # custom names incl. collisions with a grid dimension
    for lin in ('cells', gdims[-1], gdims[0]):
        r3 = must(lambda: ems.ravel(ds_var(ds, x, dims), linear_dimension=lin), f'ravel(linear_dimension={lin})')
        if list(r3.dims) != others + [lin] or not numpy.array_equal(r3.values, oracle):
            return f'ravel(linear_dimension={lin!r}) wrong'
        w3 = must(lambda: ems.wind(r3, grid_kind=kind, linear_dimension=lin), f'wind(linear_dimension={lin})')
        if list(w3.dims) != others + gdims:
            return f'wind(linear_dimension={lin!r}) dims {w3.dims}'
    if inp['n_extra'] == 1:
        # an extra dimension that happens to be called 'index' (the default name of the linear dimension) on an array that is not from the dataset
        xi = x.rename({others[0]: 'index'})
        ri = must(lambda: ems.ravel(xi), "ravel of an array with a dimension named 'index'")
        if len(set(ri.dims)) != len(ri.dims) or list(ri.dims[:-1]) != ['index'] or ri.dims[-1] in ('index',) + tuple(gdims):
            return f"ravel of dims {xi.dims}: result dims {ri.dims} (the new linear dimension must get a name that is not in use)"
        if not numpy.array_equal(ri.values, oracle):
            return "ravel of an array with a dimension named 'index': values differ"
        wi = must(lambda: ems.wind(ri, grid_kind=kind, linear_dimension=ri.dims[-1]), 'wind back')
        if list(wi.dims) != ['index'] + gdims or not numpy.array_equal(wi.values, numpy.transpose(values, [dims.index(d) for d in others + gdims])):
            return "wind(ravel(x)) does not reproduce x when x has a dimension named 'index'"
    if inp['n_extra'] == 0:
        bad = xarray.DataArray(numpy.zeros((2, 2)), dims=['t', 'nowhere'])
        must_raise(lambda: ems.ravel(bad), 'ravel of a variable on no grid', ValueError)
        short = xarray.DataArray(numpy.zeros(int(numpy.prod(gshape)) + 1), dims=['index'])
        must_raise(lambda: ems.wind(short, grid_kind=kind), 'wind of wrong-length data')
    return None


def ds_var(ds, x, dims):
    """x as it would come out of the dataset: with the dataset's coordinates attached where they fit."""
    coords = {k: v for k, v in ds.coords.items() if set(v.dims) <= set(dims) and all(ds.sizes[d] == x.sizes[d] for d in v.dims)}
    return x.assign_coords(coords)


CHECKS = [Check('ravel_wind', gen, test, key=lambda inp, d: f"ravel_wind:{inp['spec']['conv']}:{inp['kind']}",
                space='conventions x grid kinds x 0-3 extra dimensions x every permutation x winding by axis / negative '
                      'axis / name x custom and colliding linear names',
                bound='quick: <=2 extra dims on 4 datasets; thorough: <=3 extra dims on 6 datasets')]
