"""C05 bounded stand-in / replay: select_index(es), select_point(s), extract_points, extract_dataframe on real datasets."""
from __future__ import annotations

import itertools
import random
import warnings

import numpy
import pandas
import shapely
import xarray

import emsarray
from emsarray.operations import point_extraction
from harness import datasets
from harness.common import Check, Failure, must, must_raise

SPECS = [
    {'conv': 'cf1d', 'ny': 3, 'nx': 4, 'depth': 2}, {'conv': 'cf2d', 'ny': 3, 'nx': 4, 'bounds': 'vars', 'holes': [[0, 0]], 'time': 1},
    {'conv': 'shoc_simple', 'ny': 3, 'nx': 3, 'bounds': 'vars', 'depth': 2},
    {'conv': 'shoc_standard', 'ny': 3, 'nx': 4}, {'conv': 'ugrid', 'ny': 2, 'nx': 3, 'split': [[0, 0]], 'tables': ['edge_node'], 'start_index': 1},
    # a mesh without any edge table (no dimension called 'Two') whose data has two time steps and two layers
    {'conv': 'ugrid', 'ny': 2, 'nx': 3, 'split': [[1, 1]], 'time': 2, 'depth': 2},
]


def native(conv, kind, comps):
    if conv in ('cf1d', 'cf2d', 'shoc_simple'):
        return tuple(int(c) for c in comps)
    return (kind,) + tuple(int(c) for c in comps)


def gen_sel(tier, seed):
    for spec in SPECS:
        for kind in datasets.expected_grids(spec):
            yield {'spec': spec, 'kind': kind, 'seed': seed}


def test_sel(inp):
    r = _test_sel(inp, False)
    return r or _test_sel(inp, True) or _test_sel(inp, False, chunked=True)


def _test_sel(inp, labelled, chunked=False):
    spec = inp['spec']
    ds = datasets.build(spec)
    if chunked:
        ds = ds.chunk()          # dask-backed variables (a dataset opened with chunks=...): same values, same order
    if labelled:
        # element numbers of a parent domain as index coordinates on the grid dimensions (not 0..n-1)
        conv0 = ds.ems
        kind0 = next(k for k in conv0.grid_kinds if getattr(k, 'value', k) == inp['kind'])
        geom = set(map(str, conv0.get_all_geometry_names()))
        add = {d: numpy.arange(ds.sizes[d]) + 100 for d in conv0.grid_dimensions[kind0] if str(d) not in geom and d not in ds.coords}
        if not add:
            return None
        ds = ds.assign_coords(add)
    # add a variable with a missing value and an integer variable so bit-exactness is observable
    ems = ds.ems
    kind = next(k for k in ems.grid_kinds if getattr(k, 'value', k) == inp['kind'])
    shape = datasets.expected_grids(spec)[inp['kind']]
    kdims = list(ems.grid_dimensions[kind])
    size = int(numpy.prod(shape))
    rng = random.Random(inp['seed'] + size)
    geometry = set(map(str, ems.get_all_geometry_names()))
    lists = [[0], [size - 1, 0], [1 % size, 1 % size, 0], [rng.randrange(size) for _ in range(5)], list(range(size))[::-1]]
    if size >= 3:
        lists += [[size - 1, 0, 1], [1, size - 1, 0]]          # request orders whose sort permutation is not its own inverse
    for lin in lists:
        idxs = [native(spec['conv'], kind, numpy.unravel_index(l, shape)) for l in lin]
        res = must(lambda: ems.select_indexes(idxs, index_dimension='request'), f'select_indexes({idxs})')
        for name, v in ds.data_vars.items():
            expect = bool(set(v.dims) & set(kdims)) and str(name) not in geometry
            if (name in res.data_vars) != expect:
                return f'{name!r} {"missing from" if expect else "present in"} the selection on {inp["kind"]}'
            if not expect or not set(kdims) <= set(v.dims):
                continue
            r = res[name]
            others = [d for d in v.dims if d not in kdims]
            if set(r.dims) != set(others) | {'request'}:
                return f'{name!r}: dims {r.dims}, expected {others} + request'
            vt = v.transpose(*(others + kdims)).values.reshape([v.sizes[d] for d in others] + [size])
            want = vt[..., lin]
            got = r.transpose(*(others + ['request'])).values
            if got.dtype != v.dtype or got.shape != want.shape or got.tobytes() != want.tobytes():
                return f'{name!r}: selected values are not the stored values in request order (kind {inp["kind"]}, cells {lin})'
        for name in res.variables:
            if str(name) in geometry:
                return f'geometry variable {name!r} is present in the selection'
        one = must(lambda: ems.select_index(idxs[0]), 'select_index')
        for name in one.data_vars:
            v = ds[name]
            if set(kdims) <= set(v.dims):
                others = [d for d in v.dims if d not in kdims]
                if list(one[name].dims) != others:
                    return f'select_index: {name!r} dims {one[name].dims}, expected the other dimensions {others} intact'
    must_raise(lambda: ems.select_indexes([]), 'empty index list', ValueError)
    # history: a selection after an earlier one and an in-place change of the dataset sees the dataset as it is now
    victim = next((n for n, v in ds.data_vars.items() if set(kdims) <= set(v.dims) and str(n) not in geometry and v.dtype.kind == 'f'), None)
    if victim is not None and ds.ems is ems:
        ds[victim] = ds[victim] * 2 + 1
        ds['added_later'] = xarray.DataArray(numpy.arange(size, dtype=float).reshape(shape) + 0.5, dims=kdims)
        lin = lists[1]
        idxs = [native(spec['conv'], kind, numpy.unravel_index(l, shape)) for l in lin]
        res = must(lambda: ds.ems.select_indexes(idxs, index_dimension='request'), 'select_indexes after an in-place change')
        for name in (victim, 'added_later'):
            if name not in res:
                return f'{name!r} (set after an earlier selection) is missing from a later selection'
            v = ds[name]
            others = [d for d in v.dims if d not in kdims]
            want = v.transpose(*(others + kdims)).values.reshape([v.sizes[d] for d in others] + [size])[..., lin]
            got = res[name].transpose(*(others + ['request'])).values
            if got.shape != want.shape or got.tobytes() != want.tobytes():
                return f'{name!r}: a selection made after the variable was replaced in place returns the values from before the change'
    return None


def gen_pts(tier, seed):
    for spec in SPECS:
        for pattern in (['hit'], ['hit', 'miss', 'hit', 'edge'], ['miss', 'hit'], ['hit', 'hit'], ['miss'], ['miss', 'miss'], ['edge', 'hit', 'miss'],
                        # two requests a few 1e-8 apart on either side of one cell edge (different cells, or one of them outside the model)
                        ['in-eps', 'out-eps'], ['out-eps', 'in-eps', 'hit'], ['hit', 'out-eps2', 'in-eps2']):
            for policy in ('error', 'drop'):
                yield {'spec': spec, 'pattern': pattern, 'policy': policy}


def make_points(ds, pattern):
    with warnings.catch_warnings():
        warnings.simplefilter('ignore')
        polys = ds.ems.polygons
    present = [n for n, p in enumerate(polys) if p is not None]
    pts, cells = [], []
    k = 0
    for what in pattern:
        if what == 'hit':
            n = present[(3 * k + 1) % len(present)]
            pts.append(polys[n].representative_point())
        elif what == 'edge':
            n = present[(5 * k) % len(present)]
            a, b = list(polys[n].exterior.coords)[:2]
            pts.append(shapely.Point((a[0] + b[0]) / 2, (a[1] + b[1]) / 2))
        elif what.endswith('eps') or what.endswith('eps2'):
            n = present[0] if what.endswith('eps') else present[-1]
            ring = list(polys[n].exterior.coords)
            a, b = (ring[1], ring[2]) if what.endswith('eps') else (ring[0], ring[1])
            m = ((a[0] + b[0]) / 2, (a[1] + b[1]) / 2)
            cpt = polys[n].representative_point()
            d = (cpt.x - m[0], cpt.y - m[1])
            r = (d[0] ** 2 + d[1] ** 2) ** 0.5
            s_ = (3e-8 if what.startswith('in') else -3e-8) / r
            pts.append(shapely.Point(m[0] + s_ * d[0], m[1] + s_ * d[1]))
        else:
            pts.append(shapely.Point(0.0, 0.0 + k))
        k += 1
    expect = []
    for p in pts:
        hits = [n for n in present if polys[n].intersects(p)]
        expect.append(min(hits) if hits else None)
    return pts, expect


def test_pts(inp):
    spec = inp['spec']
    ds = datasets.build(spec)
    ems = ds.ems
    pts, expect = make_points(ds, inp['pattern'])
    misses = [k for k, e in enumerate(expect) if e is None]
    kept = [k for k, e in enumerate(expect) if e is not None]
    fdims = list(ems.grid_dimensions[ems.default_grid_kind])
    shape = datasets.expected_grids(spec)['face']
    size = int(numpy.prod(shape))
    geometry_names = set(map(str, ems.get_all_geometry_names()))
    for api in ('select_points', 'extract_points'):
        f = (lambda: ems.select_points(pts, point_dimension='station', missing_points=inp['policy'])) if api == 'select_points' else \
            (lambda: point_extraction.extract_points(ds, pts, point_dimension='station', missing_points=inp['policy']))
        if inp['policy'] == 'error' and misses:
            try:
                f()
            except point_extraction.NonIntersectingPoints as e:
                if list(e.indexes) != misses or [p.wkt for p in e.points] != [pts[k].wkt for k in misses]:
                    return f"{api}: 'error' names {list(e.indexes)}, the points outside the model are {misses}"
                continue
            except Exception as e:
                return f"{api}: 'error' raised {type(e).__name__}: {e}"
            return f"{api}: 'error' did not raise although points {misses} miss the model"
        res = must(f, f"{api} with policy {inp['policy']} on hits {kept} / misses {misses}")
        if list(res['station'].values) != kept:
            return f"{api}: kept entries labelled {list(res['station'].values)}, original positions of the hits are {kept}"
        for name, v in ds.data_vars.items():
            if not set(fdims) <= set(v.dims):
                continue
            if name not in res:
                if str(name) in geometry_names:
                    continue        # the geometry variables are dropped from a selection by design
                return f'{api}: variable {name!r}, defined on the selected grid, is missing from the result'
            others = [d for d in v.dims if d not in fdims]
            vt = v.transpose(*(others + fdims)).values.reshape([v.sizes[d] for d in others] + [size])
            want = vt[..., [expect[k] for k in kept]]
            got = res[name].transpose(*(others + ['station'])).values
            if got.shape != want.shape or got.tobytes() != want.tobytes():
                return f'{api}: {name!r} does not hold the values of the looked-up cells in request order'
    return None


def gen_shared(tier, seed):
    yield {'spec': {'conv': 'cf1d', 'ny': 6, 'nx': 7}}
    yield {'spec': {'conv': 'cf2d', 'ny': 5, 'nx': 6, 'bounds': 'vars'}}
    yield {'spec': {'conv': 'ugrid', 'ny': 4, 'nx': 5, 'split': [[1, 1], [2, 3]]}}


def test_shared(inp):
    """Points exactly on edges and vertices shared by several cells: every API that takes points picks the lowest-numbered cell."""
    ds = datasets.build(inp['spec'])
    ems = ds.ems
    with warnings.catch_warnings():
        warnings.simplefilter('ignore')
        polys = ems.polygons
    present = [n for n, p in enumerate(polys) if p is not None]
    pts = []
    seen = set()
    for n in present:
        ring = list(polys[n].exterior.coords)
        for a, b in zip(ring, ring[1:]):
            for xy in (a, ((a[0] + b[0]) / 2, (a[1] + b[1]) / 2)):
                if xy not in seen:
                    seen.add(xy)
                    pts.append(shapely.Point(xy))
    expect, kept_pts = [], []
    for p in pts:
        hits = [n for n in present if polys[n].intersects(p)]
        if hits:            # a midpoint computed in floating point may fall a hair off a slanted edge: then it is simply not a request
            expect.append(min(hits))
            kept_pts.append(p)
    pts = kept_pts
    shape = datasets.expected_grids(inp['spec'])['face']
    size = int(numpy.prod(shape))
    fdims = list(ems.grid_dimensions[ems.default_grid_kind])
    marker = xarray.DataArray(numpy.arange(size, dtype=float).reshape(shape), dims=fdims)
    d2 = ds.assign(cell_number=marker)
    for api in ('select_points', 'extract_points'):
        res = must(lambda: d2.ems.select_points(pts, point_dimension='station') if api == 'select_points' else
                   point_extraction.extract_points(d2, pts, point_dimension='station'), api)
        got = [int(x) for x in res['cell_number'].values]
        bad = [k for k, (g, w) in enumerate(zip(got, expect)) if g != w]
        if bad:
            k = bad[0]
            return f'{api}: point {pts[k].wkt} on a shared boundary got the values of cell {got[k]}, the lowest-numbered cell it touches is {expect[k]} ({len(bad)} of {len(pts)} points)'
    return None


def key_pts(inp, detail):
    if inp['policy'] == 'drop' and all(p == 'miss' for p in inp['pattern']) and 'Need at least one index' in detail:
        return 'points:drop-all-miss'
    return f"points:{inp['spec']['conv']}"


def gen_df(tier, seed):
    for spec in SPECS[:2] + SPECS[3:]:
        for policy in ('error', 'drop', 'fill'):
            for index in ('range', 'shifted', 'permuted', 'sliced', 'strided'):
                for pattern in (['hit', 'miss', 'hit', 'hit'], ['hit', 'hit', 'hit']):
                    yield {'spec': spec, 'policy': policy, 'index': index, 'pattern': pattern}


def test_df(inp):
    spec = inp['spec']
    ds = datasets.build(spec)
    ems = ds.ems
    pts, expect = make_points(ds, inp['pattern'])
    n = len(pts)
    df = pandas.DataFrame({'name': [f'p{k}' for k in range(n)], 'x': [p.x for p in pts], 'y': [p.y for p in pts], 'w': numpy.arange(n) * 1.5})
    if inp['index'] == 'shifted':
        df.index = [10 + k for k in range(n)]
    elif inp['index'] == 'permuted':
        df.index = [(k + 1) % n for k in range(n)]
    elif inp['index'] in ('sliced', 'strided'):
        # a chunk of a longer table: still a pandas RangeIndex, but not 0 .. n-1 (start 2, or every second row)
        pad = pandas.DataFrame({'name': ['pad'] * 2, 'x': [0.0, 0.0], 'y': [0.0, 0.0], 'w': [-1.0, -1.0]})
        if inp['index'] == 'sliced':
            df = pandas.concat([pad, df], ignore_index=True).iloc[2:]
        else:
            rows_ = []
            for k in range(n):
                rows_.append(df.iloc[[k]])
                rows_.append(pad.iloc[[0]])
            df = pandas.concat(rows_, ignore_index=True)[::2]
        assert isinstance(df.index, pandas.RangeIndex) and list(df['name']) == [f'p{k}' for k in range(n)]
    misses = [k for k, e in enumerate(expect) if e is None]
    f = lambda: point_extraction.extract_dataframe(ds, df, ('x', 'y'), point_dimension='station', missing_points=inp['policy'])
    if inp['policy'] == 'error' and misses:
        try:
            f()
        except point_extraction.NonIntersectingPoints as e:
            if list(e.indexes) != misses:
                return f"'error' names {list(e.indexes)}, misses are {misses}"
            return None
        return "'error' did not raise"
    res = must(f, 'extract_dataframe')
    rows = list(range(n)) if inp['policy'] == 'fill' else [k for k in range(n) if expect[k] is not None]
    if res.sizes.get('station') != len(rows):
        return f"policy {inp['policy']}: {res.sizes.get('station')} rows, expected {len(rows)} (table index {list(df.index)})"
    fdims = list(ems.grid_dimensions[ems.default_grid_kind])
    size = int(numpy.prod(datasets.expected_grids(spec)['face']))
    for pos, k in enumerate(rows):
        if str(res['name'].values[pos]) != f'p{k}' or float(res['w'].values[pos]) != k * 1.5:
            return f"row {pos} carries table row {res['name'].values[pos]!s}, expected p{k} (table index {list(df.index)})"
        v = ds['temp']
        if 'temp' not in res:
            return "variable 'temp', defined on the selected grid, is missing from the result"
        others = [d for d in v.dims if d not in fdims]
        vt = v.transpose(*(others + fdims)).values.reshape([v.sizes[d] for d in others] + [size])
        got = res['temp'].transpose(*(others + ['station'])).values[..., pos]
        if expect[k] is None:
            if not numpy.isnan(got).all():
                return f'row {pos} (a miss) holds data'
        elif got.tobytes() != vt[..., expect[k]].tobytes():
            return f'row {pos}: temp is not the value of the cell under point p{k} (table index {list(df.index)})'
    return None


def key_df(inp, detail):
    if inp['index'] != 'range':
        return 'dataframe:non-default-index'
    return f"dataframe:{inp['spec']['conv']}"


CHECKS = [
    Check('selection', gen_sel, test_sel, key=lambda i, d: f"selection:{i['spec']['conv']}:{i['kind']}",
          space='5 datasets x every grid kind x index lists (single, repeats, reversed order, random, all cells): every variable byte-for-byte',
          bound='5 lists per grid kind'),
    Check('points', gen_pts, test_pts, key=key_pts,
          space='5 datasets x 7 hit / boundary / miss patterns x {error, drop} through select_points and extract_points', bound='70 cases'),
    Check('shared_boundaries', gen_shared, test_shared, key=lambda i, d: f"shared:{i['spec']['conv']}",
          space='3 datasets (42, 30 and ~22 cells): every vertex and every edge midpoint of every cell as a request point through select_points and extract_points',
          bound='all vertices and edge midpoints of 3 datasets'),
    Check('dataframe', gen_df, test_df, key=key_df,
          space='4 datasets x {error, drop, fill} x table index {0..n-1, shifted, permuted} x 2 hit/miss patterns', bound='72 cases'),
]
