"""C15 bounded stand-in / replay: write each geometry format, read it back with an independent reader, compare exactly."""
from __future__ import annotations

import json
import os
import shutil
import tempfile
import warnings

import numpy
import shapefile
import shapely
import shapely.errors

import emsarray
from emsarray.operations import geometry
from harness import datasets
from harness.common import Check, Failure, must

SPECS = [
    {'conv': 'cf1d', 'ny': 3, 'nx': 4, 'nonuniform': True}, {'conv': 'cf2d', 'ny': 3, 'nx': 4, 'bounds': 'vars', 'skew': 1 / 3, 'holes': [[0, 0], [1, 2]]},
    {'conv': 'shoc_standard', 'ny': 3, 'nx': 3, 'skew': 1 / 7, 'node_holes': [[0, 0]]},
    {'conv': 'ugrid', 'ny': 2, 'nx': 3, 'split': [[0, 1]], 'merge': [[1, 0]], 'jitter': 0.013},
    {'conv': 'ugrid', 'ny': 2, 'nx': 2, 'tables': ['edge_node'], 'start_index': 1, 'jitter': 0.007},
    # coordinates of small magnitude (around the Greenwich meridian / the equator): more decimal places are needed than for 100-ish values
    {'conv': 'cf1d', 'ny': 3, 'nx': 4, 'nonuniform': True, 'origin': [-0.0023, 0.00071], 'step': [0.0011, 0.0007], 'bounds_shrink': 0.00013},
    # more than 100 cells, fewer than 100 polygons (two rows of holes): indexes with more digits than the number of records
    {'conv': 'cf2d', 'ny': 10, 'nx': 11, 'bounds': 'vars', 'skew': 0.0, 'holes': [[j, i] for j in (0, 1) for i in range(11)]},
    # a 0..360 longitude grid across the antimeridian, and large (projected, metre-like) coordinates: written as they are
    {'conv': 'cf1d', 'ny': 2, 'nx': 5, 'origin': [176.5, -20.0], 'step': [2.0, 1.0]},
    {'conv': 'cf1d', 'ny': 2, 'nx': 3, 'origin': [402500.0, 6215000.0], 'step': [250.0, 250.0]},
    {'conv': 'cf2d', 'ny': 3, 'nx': 4, 'bounds': 'vars', 'holes': [[0, 0]], 'repeat_corner': [1, 2]},
    # data stored x-major ahead of the coordinates: Dataset.sizes lists x before y (non-square)
    {'conv': 'cf1d', 'ny': 3, 'nx': 5, 'leading_transposed': True, 'ydim': 'y', 'xdim': 'x'},
]
FORMATS = ['geojson', 'shapefile', 'wkt', 'wkb']


def gen(tier, seed):
    for s in SPECS:
        for f in FORMATS:
            yield {'spec': s, 'format': f}


def native_oracle(spec, n):
    """the native index of face n as JSON, from the dataset description alone: row-major components over the face grid (y, x) / (j, i)"""
    shape = datasets.expected_grids({k: v for k, v in spec.items() if k != 'repeat_corner'})['face']
    comps = [int(x) for x in numpy.unravel_index(n, shape)]
    if spec['conv'] in ('cf1d', 'cf2d', 'shoc_simple'):
        return comps
    return ['face'] + comps


def ring(p):
    return [tuple(c) for c in p.exterior.coords]


def same_ring(a, b):
    """identical coordinates; shapefiles may store the ring reversed (clockwise) -- same vertices, same cyclic sequence"""
    if a == b:
        return True
    ra = a[:-1]
    for cand in (b[:-1], b[:-1][::-1]):
        if len(cand) == len(ra):
            for k in range(len(ra)):
                if cand[k:] + cand[:k] == ra:
                    return True
    return False


def test(inp):
    spec, fmt = inp['spec'], inp['format']
    ds = datasets.build({k: v for k, v in spec.items() if k != 'repeat_corner'})
    if spec.get('repeat_corner'):
        # a triangular cell stored in four-corner bounds by repeating a corner (CF practice): a valid polygon with a repeated vertex,
        # written to every format vertex for vertex
        j, i = spec['repeat_corner']
        for name in ('lon_bnds', 'lat_bnds'):
            v = ds[name].values.copy()
            v[j, i, 3] = v[j, i, 2]
            ds[name] = (ds[name].dims, v, ds[name].attrs)
    with warnings.catch_warnings():
        warnings.simplefilter('ignore')
        polys = ds.ems.polygons
    present = [n for n, p in enumerate(polys) if p is not None]
    tmp = tempfile.mkdtemp(prefix='verif-c15-')
    try:
        with warnings.catch_warnings():
            warnings.simplefilter('ignore')
            if fmt == 'geojson':
                path = os.path.join(tmp, 'g.geojson')
                must(lambda: geometry.write_geojson(ds, path), 'write_geojson')
                data = json.load(open(path))
                feats = data['features']
                if len(feats) != len(present):
                    return f'{len(feats)} features for {len(present)} cells with polygons'
                for k, n in enumerate(present):
                    got = [tuple(c) for c in feats[k]['geometry']['coordinates'][0]]
                    if got != ring(polys[n]):
                        return f'feature {k}: coordinates {got[:2]}... differ from polygon {n} {ring(polys[n])[:2]}...'
                    props = feats[k]['properties']
                    if props.get('linear_index') != n:
                        return f'feature {k}: linear_index {props.get("linear_index")} but it is cell {n}'
                    idx = props.get('index')
                    want = native_oracle(spec, n)
                    if idx != want or ds.ems.ravel_index(ds.ems.wind_index(n)) != n:
                        return f'feature {k}: native index {idx} does not identify cell {n} ({want})'
            elif fmt == 'shapefile':
                path = os.path.join(tmp, 'grid_v1.2.shp')          # a dot in the stem: the named files are the ones written
                must(lambda: geometry.write_shapefile(ds, path), 'write_shapefile')
                missing = [e for e in ('.shp', '.shx', '.dbf', '.prj') if not os.path.exists(path[:-4] + e)]
                if missing:
                    return f'write_shapefile(grid_v1.2.shp) did not write {missing} under that name (found {sorted(os.listdir(tmp))})'
                r = shapefile.Reader(path)
                if len(r) != len(present):
                    return f'{len(r)} shapes for {len(present)} cells with polygons'
                names = [f[0] for f in r.fields[1:]]
                for k, n in enumerate(present):
                    got = [tuple(c) for c in r.shape(k).points]
                    if not same_ring(ring(polys[n]), got):
                        return f'shape {k}: points differ from polygon {n}'
                    rec = dict(zip(names, list(r.record(k))))
                    lin = next((v for f, v in rec.items() if f.startswith('linear')), 'absent')
                    if lin != n:
                        return f'record {k}: linear index field holds {lin!r} but it is cell {n} (fields {names})'
                    if json.loads(rec['index']) != native_oracle(spec, n):
                        return f'record {k}: native index {rec["index"]} does not identify cell {n}'
            else:
                path = os.path.join(tmp, 'g.' + fmt)
                if fmt == 'wkt':
                    must(lambda: geometry.write_wkt(ds, path), 'write_wkt')
                    text = open(path).read()
                    try:
                        geom = shapely.from_wkt(text)
                    except shapely.errors.ShapelyError as e:
                        return f'the written file is not well-known text: {e} (starts {text[:40]!r})'
                else:
                    must(lambda: geometry.write_wkb(ds, path), 'write_wkb')
                    try:
                        geom = shapely.from_wkb(open(path, 'rb').read())
                    except shapely.errors.ShapelyError as e:
                        return f'the written file is not well-known binary: {e}'
                parts = list(geom.geoms)
                if len(parts) != len(present):
                    return f'{len(parts)} polygons for {len(present)} cells with polygons'
                for k, n in enumerate(present):
                    if ring(parts[k]) != ring(polys[n]):
                        return f'{fmt} polygon {k}: coordinates {ring(parts[k])[1]} differ from cell {n} {ring(polys[n])[1]}'
    finally:
        shutil.rmtree(tmp, ignore_errors=True)
    return None


def key(inp, detail):
    fmt = inp['format']
    if fmt == 'wkt' and 'coordinates' in detail and 'differ' in detail:
        return 'export:wkt-rounding'
    if fmt == 'geojson' and 'coordinates' in detail and 'differ' in detail:
        return 'export:geojson-rounding'
    if fmt == 'shapefile' and 'linear index field holds None' in detail:
        return 'export:shapefile-linear-index-none'
    return f'export:{fmt}'


CHECKS = [Check('export_roundtrip', gen, test, key=key,
                space='5 datasets (all conventions, holes, coordinates that need more than 6 decimals, kind-tagged native indexes) x '
                      '{GeoJSON, Shapefile, WKT, WKB}: written, read back with json / pyshp / shapely, compared exactly, in order, with attributes',
                bound='20 round trips')]
