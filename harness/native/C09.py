"""C09 bounded stand-in / replay: clipped and subsetted datasets remain valid datasets with unchanged geometry."""
from __future__ import annotations

import itertools
import warnings

import numpy
import shapely
import xarray

import emsarray
from harness import datasets
from harness.common import Check, Failure, must
from harness.native import clip


def gen(tier, seed):
    for spec in clip.SPECS:
        for gname in clip.GEOMS:
            for buffer in (0, 1):
                if tier == 'quick' and buffer == 1 and gname not in ('box centre', 'point'):
                    continue
                yield {'spec': spec, 'geometry': gname, 'buffer': buffer}


def same_polygon(a, b):
    if a is None or b is None:
        return a is None and b is None
    return a.equals_exact(b, 0.0) or (list(a.exterior.coords) == list(b.exterior.coords))


def test(inp):
    run = clip.Clip(inp['spec'], inp['geometry'], inp['buffer'])
    ds, out = run.original, run.clipped
    conv = type(ds.ems)
    if type(out.ems) is not conv:
        return f'the clipped dataset is recognised as {type(out.ems).__name__}, the input is {conv.__name__}'
    if run.saved_error:
        return f'the clipped dataset cannot be saved and reopened: {run.saved_error}'
    if type(run.reopened.ems) is not conv:
        return f'the saved and reopened clipped dataset is recognised as {type(run.reopened.ems).__name__}'
    polys0 = ds.ems.polygons
    sel_window = None if inp['spec']['conv'] == 'ugrid' else run.grid_selection()[1]
    if sel_window is not None and not explicit_geometry(inp['spec']) and any(hi - lo < 2 for lo, hi in sel_window.values()):
        return None      # one row / column left and no stored bounds: cell edges cannot be inferred from a single coordinate value
    for label, d in (('clipped', out), ('reopened', run.reopened)):
        polys1 = must(lambda: d.ems.polygons, f'polygons of the {label} dataset')
        r = check_polygons(run, inp, ds, d, polys0, polys1, label)
        if r:
            return r
    if inp['spec']['conv'] == 'ugrid':
        spec = inp['spec']
        has_edges = bool({'edge_node', 'edge_face'} & set(spec.get('tables', ()))) or spec.get('edge_dimension') is True
        if has_edges and not any(what == 'edge' for what, _, _ in run.mesh_selection().values()):
            return 'the mesh stores edges (an edge table names the edge dimension) but clipping does not select / renumber edges'
        if has_edges and not out.ems.topology.has_edge_dimension:
            return 'the clipped mesh lost its edge dimension'
        return check_topology(run, ds, out)
    return None


def explicit_geometry(spec):
    return spec['conv'] in ('cf2d', 'shoc_simple', 'shoc_standard', 'ugrid') or bool(spec.get('bounds'))


def check_polygons(run, inp, ds, d, polys0, polys1, label):
    spec = inp['spec']
    if spec['conv'] == 'ugrid':
        what, kept, renum = run.mesh_selection()[str(ds.ems.topology.face_dimension)]
        if len(polys1) != len(kept):
            return f'{label}: {len(polys1)} polygons for {len(kept)} selected faces'
        for new, old in enumerate(kept):
            if not same_polygon(polys1[new], polys0[old]):
                return f'{label}: polygon {new} is not the polygon of selected face {old}'
        return None
    sel, window = run.grid_selection()
    ems = ds.ems
    fdims = list(ems.grid_dimensions[ems.default_grid_kind])
    mname = 'face_mask' if 'face_mask' in sel else 'cell_mask'
    mdims, marr = sel[mname]
    shape0 = [ds.sizes[x] for x in fdims]
    lo = [window[x][0] for x in fdims]
    shape1 = [window[x][1] - window[x][0] for x in fdims]
    if len(polys1) != int(numpy.prod(shape1)):
        return f'{label}: {len(polys1)} polygons, the mask window has {int(numpy.prod(shape1))} cells'
    for n1 in range(len(polys1)):
        idx1 = numpy.unravel_index(n1, shape1)
        idx0 = tuple(int(a + b) for a, b in zip(idx1, lo))
        n0 = int(numpy.ravel_multi_index(idx0, shape0))
        selected = bool(marr[tuple(idx0[fdims.index(x)] for x in mdims)])
        p1, p0 = polys1[n1], polys0[n0]
        if selected:
            if explicit_geometry(spec) and not same_polygon(p1, p0):
                return f'{label}: selected cell {idx0} has a different polygon after clipping'
            if p0 is not None and p1 is None:
                return f'{label}: selected cell {idx0} lost its polygon'
        elif explicit_geometry(spec) and p1 is not None and not same_polygon(p1, p0):
            return f'{label}: cell {idx0} outside the selection shows a polygon the original did not have'
    return None


def check_topology(run, ds, out):
    t0, t1 = ds.ems.topology, out.ems.topology
    selection = run.mesh_selection()
    renum = {what: r for what, kept, r in selection.values()}
    kept = {what: k for what, k, r in selection.values()}
    faces0 = [[int(x) for x in numpy.ma.masked_array(r).compressed()] for r in t0.face_node_array]
    faces1 = [[int(x) for x in numpy.ma.masked_array(r).compressed()] for r in t1.face_node_array]
    want = [[renum['node'][n] for n in faces0[f]] for f in kept['face']]
    if faces1 != want:
        return f'face_node: faces of the clipped mesh {faces1[:3]} are not the selected faces under the new node numbering {want[:3]}'
    attrs = t0.mesh_attributes
    tables = {
        'edge_node_connectivity': ('edge', 'node', 'edge_node_array'), 'face_edge_connectivity': ('face', 'edge', 'face_edge_array'),
        'edge_face_connectivity': ('edge', 'face', 'edge_face_array'), 'face_face_connectivity': ('face', 'face', 'face_face_array'),
        'face_node_connectivity': ('face', 'node', 'face_node_array'),
    }
    for attr, (rowkind, colkind, prop) in tables.items():
        if attr not in attrs or attrs[attr] not in ds.variables:
            continue
        name = attrs[attr]
        if name not in out.variables:
            return f'{attr}: variable {name!r} is missing from the clipped dataset'
        v0, v1 = ds[name], out[name]
        if v1.dims != v0.dims:
            return f'{name!r}: dimension order changed from {v0.dims} to {v1.dims}'
        if v0.attrs.get('start_index') != v1.attrs.get('start_index'):
            return f'{name!r}: start_index changed from {v0.attrs.get("start_index")!r} to {v1.attrs.get("start_index")!r}'
        raw = run.raw[name]
        if raw.dtype.kind not in 'iu':
            return f'{name!r}: saved with dtype {raw.dtype}, an integer table is expected'
        if v0.dtype.kind in 'iu' and raw.dtype != v0.dtype:
            return f'{name!r}: integer type changed from {v0.dtype} to {raw.dtype}'
        if rowkind not in kept or (colkind not in renum):
            continue
        a0 = [[int(x) for x in numpy.ma.masked_array(r).compressed()] for r in getattr(t0, prop)]
        a1 = [[int(x) for x in numpy.ma.masked_array(r).compressed()] for r in getattr(t1, prop)]
        want = [[renum[colkind][x] for x in a0[r] if x in renum[colkind]] for r in kept[rowkind]]
        if a1 != want:
            return f'{name!r}: rows {a1[:3]} are not the selected rows under the new numbering {want[:3]}'
        size = {'node': t1.node_count, 'face': t1.face_count, 'edge': t1.edge_count if t1.has_edge_dimension else 0}[colkind]
        if any(x < 0 or x >= size for r in a1 for x in r):
            return f'{name!r}: refers to an element that did not survive'
    # the tables agree with each other
    if t1.has_edge_dimension:
        en = [frozenset(int(x) for x in numpy.ma.masked_array(r).compressed()) for r in t1.edge_node_array]
        fe = [[int(x) for x in numpy.ma.masked_array(r).compressed()] for r in t1.face_edge_array]
        for f, nodes in enumerate(faces1):
            pairs = [frozenset(p) for p in zip(nodes, nodes[1:] + nodes[:1])]
            if 'face_edge_connectivity' in attrs or True:
                if [en[e] for e in fe[f]] != pairs and sorted(map(sorted, (en[e] for e in fe[f]))) != sorted(map(sorted, pairs)):
                    return f'face {f}: face_edge / edge_node of the clipped mesh disagree with face_node'
        sides = {frozenset(p) for nodes in faces1 for p in zip(nodes, nodes[1:] + nodes[:1])}
        orphans = [e for e, pair in enumerate(en) if pair not in sides]
        if orphans:
            return f'edge(s) {orphans[:4]} of the clipped mesh are not a side of any surviving face (edge_node disagrees with face_node)'
        if len(en) != len(sides):
            return f'the clipped mesh has {len(en)} edges but its faces have {len(sides)} distinct sides'
    return None


# ---- select_variables -------------------------------------------------------------------------------------------------------------
def gen_select(tier, seed):
    for spec in clip.SPECS:
        yield {'spec': spec}
    # SHOC datasets without a time coordinate whose data nevertheless has a dimension with the name the convention expects for it
    yield {'spec': {'conv': 'shoc_standard', 'ny': 2, 'nx': 3, 'time': 0}, 'time_dimension_only': 't'}
    yield {'spec': {'conv': 'shoc_simple', 'ny': 2, 'nx': 3, 'time': 0}, 'time_dimension_only': 'time'}


def test_select(inp):
    warnings.simplefilter('ignore')
    ds = clip.enrich(datasets.build(inp['spec']))
    if inp.get('time_dimension_only'):
        face = [d for d in ds['botz' if 'botz' in ds else 'count'].dims]
        ds['steps'] = xarray.DataArray(numpy.zeros((2,) + tuple(ds.sizes[d] for d in face)), dims=[inp['time_dimension_only']] + face)
    ems = ds.ems
    geometry = set(map(str, ems.get_all_geometry_names()))
    names = [str(n) for n in ds.data_vars if str(n) not in geometry]
    polys0 = ems.polygons
    subsets = [[], names[:1], names[-2:], names]
    for keep in subsets:
        sub = must(lambda: ems.select_variables(keep), f'select_variables({keep})')
        if type(sub.ems) is not type(ems):
            return f'select_variables({keep}): recognised as {type(sub.ems).__name__}'
        got = {str(n) for n in sub.data_vars} - geometry
        if got != set(keep):
            return f'select_variables({keep}) kept {sorted(got)}'
        for g in geometry:
            if g not in sub.variables or not sub[g].identical(ds[g]):
                return f'select_variables({keep}): geometry variable {g!r} changed or was dropped'
        polys1 = sub.ems.polygons
        if len(polys1) != len(polys0) or any(not same_polygon(a, b) for a, b in zip(polys1, polys0)):
            return f'select_variables({keep}): polygons changed'
    return None


def key(inp, detail):
    return f"clip-valid:{inp['spec']['conv']}:{detail.split(':')[0][:60]}"


CHECKS = [
    Check('clip_valid', gen, test, key=key,
          space='15 datasets (as C08) x 5 clip geometries x buffer 0/1: convention recognised (also after to_netcdf / reopen), selected polygons identical, '
                'no foreign polygon where geometry is explicit, mesh tables present / renumbered / consistent / same start_index and integer type',
          bound='about 105 clips'),
    Check('select_variables', gen_select, test_select, key=lambda i, d: f"select:{i['spec']['conv']}",
          space='15 datasets x 4 subsets of data variables: geometry variables and polygons identical', bound='60 subsets'),
]
