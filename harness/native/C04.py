"""C04 bounded stand-in / replay: point lookup against brute force over all polygons."""
from __future__ import annotations

import random
import warnings

import numpy
import shapely

import emsarray
from harness import datasets
from harness.common import Check, Failure, must, must_raise

SPECS = [
    {'conv': 'cf1d', 'ny': 12, 'nx': 25}, {'conv': 'cf1d', 'ny': 3, 'nx': 4, 'bounds': 'vars'},
    {'conv': 'cf2d', 'ny': 5, 'nx': 6, 'bounds': 'vars', 'holes': [[0, 0], [2, 2], [2, 3]]}, {'conv': 'cf2d', 'ny': 6, 'nx': 5, 'radial': True},
    # corners made from the centres; missing centres next to a border cell and at the opposite end of its row / column (nothing wraps around)
    {'conv': 'cf2d', 'ny': 5, 'nx': 6, 'holes': [[2, 1], [2, 5]]}, {'conv': 'cf2d', 'ny': 5, 'nx': 6, 'holes': [[1, 3], [4, 3]]},
    {'conv': 'shoc_simple', 'ny': 4, 'nx': 5, 'bounds': 'vars', 'holes': [[1, 1]]},
    {'conv': 'shoc_standard', 'ny': 5, 'nx': 6, 'node_holes': [[0, 0], [3, 3]]},
    {'conv': 'ugrid', 'ny': 4, 'nx': 5, 'split': [[0, 0], [2, 2]], 'merge': [[3, 0]]},
    {'conv': 'ugrid', 'ny': 6, 'nx': 8, 'start_index': 1, 'tables': ['edge_node']},
    # faces of different sizes interleaved (quad, triangles, quad, ...): position n is face n whatever its size
    {'conv': 'ugrid', 'ny': 3, 'nx': 4, 'split': [[0, 1], [1, 0], [1, 2], [2, 3]], 'merge': [[2, 0]]},
]


def gen(tier, seed):
    for s in SPECS:
        yield {'spec': s, 'seed': seed, 'n_random': 60 if tier == 'quick' else 600}


def points_for(polys, rng, n_random):
    pts = []
    present = [p for p in polys if p is not None]
    for p in present:
        pts.append(p.representative_point())                         # interior
        cs = list(p.exterior.coords)
        pts.append(shapely.Point(cs[0]))                              # shared vertex
        pts.append(shapely.Point((cs[0][0] + cs[1][0]) / 2, (cs[0][1] + cs[1][1]) / 2))   # on an edge (shared or hull)
    x0, y0, x1, y1 = shapely.unary_union(present).bounds
    for _ in range(n_random):
        pts.append(shapely.Point(rng.uniform(x0 - 0.5, x1 + 0.5), rng.uniform(y0 - 0.5, y1 + 0.5)))
    pts += [shapely.Point(x0 - 1e-9, y0 - 1e-9), shapely.Point(x1 + 50, y1 + 50), shapely.Point(0, 0)]
    return pts


def test(inp):
    ds = datasets.build(inp['spec'])
    ems = ds.ems
    with warnings.catch_warnings():
        warnings.simplefilter('ignore')
        polys = ems.polygons
    rng = random.Random(inp['seed'] * 1000 + len(polys))
    # hole interiors: points inside cells that have no geometry but whose corners are known (oracle)
    from harness.native.C06 import corners_oracle
    want = corners_oracle(inp['spec'])           # the cell each position denotes, from the coordinates of the dataset (independent of emsarray)
    for n, (q, w) in enumerate(zip(polys, want)):
        if q is not None and w is not None and shapely.Polygon(w).is_valid and not shapely.Polygon(w).buffer(1e-9).contains(q):
            return f'the polygon at position {n} is not the cell the dataset describes at position {n} (lookups would name another cell)'
    pts = points_for(polys, rng, inp['n_random'])
    for p in pts:
        hits = [n for n, q in enumerate(polys) if q is not None and q.intersects(p)]
        res = must(lambda: ems.get_index_for_point(p), f'get_index_for_point({p.wkt})')
        if not hits:
            if res is not None:
                return f'point {p.wkt} intersects no cell but lookup returned {res.linear_index}'
            must_raise(lambda: ems.select_point(p), f'select_point({p.wkt}) outside every cell', ValueError)
            continue
        if res is None:
            return f'point {p.wkt} intersects cells {hits} but lookup returned None'
        if res.linear_index != min(hits):
            return f'point {p.wkt} intersects cells {hits}; lookup returned {res.linear_index}, not the lowest'
        if tuple(res.index) != tuple(ems.wind_index(min(hits))) or res.polygon is not polys[min(hits)] and not res.polygon.equals(polys[min(hits)]):
            return f'point {p.wkt}: index / polygon of the result do not describe cell {min(hits)}'
    return None


def gen_invalid(tier, seed):
    from harness.native.C06 import gen_invalid as g
    yield from g(tier, seed)


def test_invalid(inp):
    from harness.native.C06 import build_invalid
    ds, bad, size = build_invalid(inp)
    ems = ds.ems
    with warnings.catch_warnings():
        warnings.simplefilter('ignore')
        raw = ems._make_polygons()
        ems.polygons
    good = [p if (p is not None and p.is_valid) else None for p in raw]     # oracle: complete and valid cells
    for n, p in enumerate(raw):
        if p is None:
            continue
        pt = p.representative_point() if p.is_valid else shapely.Point(p.exterior.coords[0])
        hits = [k for k, q in enumerate(good) if q is not None and q.intersects(pt)]
        res = must(lambda: ems.get_index_for_point(pt), 'get_index_for_point')
        got = None if res is None else res.linear_index
        if got != (min(hits) if hits else None):
            return f'point {pt.wkt}: lookup returned {got}, valid cells containing it: {hits} (cell {n} {"is invalid" if not p.is_valid else "is valid"})'
    return None


CHECKS = [Check('lookup_with_invalid_cells', gen_invalid, test_invalid, key=lambda i, d: f"lookup_invalid:{i['conv']}",
                space='datasets with a self-intersecting cell (with / without an earlier hole): dropped cells are never returned, '
                      'valid cells still are', bound='12 datasets'),
          Check('point_lookup', gen, test, key=lambda i, d: f"point_lookup:{i['spec']['conv']}",
                space='8 datasets (incl. 12x25 grid with a multi-level tree, holes, radial cells, mixed meshes) x points: every cell interior, '
                      'shared vertices, edge midpoints, random points around the hull, far outside', bound='~1000 (quick) / ~5000 (thorough) points per run')]
