"""C16 bounded stand-in / replay: cache keys on real datasets; fresh processes with different hash seeds."""
from __future__ import annotations

import json
import os
import subprocess
import sys

import numpy
import xarray

import emsarray
from emsarray.operations.cache import make_cache_key
from harness import datasets
from harness.common import Check, Failure, must

ROOT = os.path.dirname(os.path.dirname(os.path.dirname(os.path.abspath(__file__))))
SPECS = [
    {'conv': 'cf1d', 'ny': 3, 'nx': 4}, {'conv': 'cf1d', 'ny': 3, 'nx': 4, 'bounds': 'vars'},
    {'conv': 'cf2d', 'ny': 3, 'nx': 4, 'bounds': 'vars'}, {'conv': 'shoc_simple', 'ny': 3, 'nx': 4, 'bounds': 'vars'},
    {'conv': 'shoc_standard', 'ny': 3, 'nx': 4},
    {'conv': 'ugrid', 'ny': 2, 'nx': 3, 'split': [[0, 0]]},
    {'conv': 'ugrid', 'ny': 2, 'nx': 3, 'tables': ['edge_node', 'face_edge', 'edge_face', 'face_face'], 'face_coords': True},
    {'conv': 'ugrid', 'ny': 2, 'nx': 3, 'tables': ['edge_face']},
    # edge coordinate variables named by a mesh with / without an edge dimension: geometry either way
    {'conv': 'ugrid', 'ny': 2, 'nx': 2, 'tables': ['edge_node'], 'edge_coords': True}, {'conv': 'ugrid', 'ny': 2, 'nx': 2, 'edge_coords': True},
]


def geometry_names(ds):
    return [str(n) for n in ds.ems.get_all_geometry_names()]


def key_in_fresh_process(spec, seed):
    code = ('import sys, json, warnings; warnings.simplefilter("ignore"); sys.path.insert(0, %r)\n'
            'from harness import datasets\nimport emsarray\nfrom emsarray.operations.cache import make_cache_key\n'
            'print(make_cache_key(datasets.build(json.loads(sys.argv[1]))))' % ROOT)
    env = dict(os.environ)
    env['PYTHONHASHSEED'] = str(seed)
    env['PYTHONWARNINGS'] = 'ignore'
    r = subprocess.run([sys.executable, '-c', code, json.dumps(spec)], capture_output=True, text=True, env=env, timeout=120)
    if r.returncode != 0:
        raise Failure(f'fresh process failed: {r.stderr[-400:]}')
    return r.stdout.strip().splitlines()[-1]


def gen(tier, seed):
    for k, spec in enumerate(SPECS if tier != 'quick' else SPECS):
        yield {'spec': spec, 'processes': 2 if tier == 'quick' else 5}


def test(inp):
    spec = inp['spec']
    ds = datasets.build(spec)
    key = must(lambda: make_cache_key(ds), 'make_cache_key')
    if make_cache_key(datasets.build(spec)) != key:
        return 'two identical datasets built separately get different keys'
    # the key describes the geometry as it is now: same Dataset object, edited in place between two calls
    g0 = [str(n) for n in ds.ems.get_all_geometry_names() if ds[n].dtype.kind == 'f' and ds[n].size > 1]
    if g0:
        d1 = datasets.build(spec)
        before = make_cache_key(d1)
        vals = numpy.array(d1[g0[0]].values, copy=True)
        vals.flat[0] += 0.125
        d1[g0[0]] = (d1[g0[0]].dims, vals, d1[g0[0]].attrs)          # dataset[name] = ...: the same Dataset object
        after = make_cache_key(d1)
        d1[g0[0]].attrs['verif_note'] = 'edited'
        after2 = make_cache_key(d1)
        if before != key or after == before or after2 == after:
            return f'in-place edit of {g0[0]!r} between two calls on one dataset: the key did not follow the geometry'
    # non-geometry edits must not change the key
    edits = {
        'global attribute': lambda d: d.assign_attrs(history='edited', other=3),
        'data values': lambda d: d.assign(temp=d['temp'] * 2 + 1),
        'extra data variable': lambda d: d.assign(extra=d['temp'] * 0),
        'dropped data variable': lambda d: d.drop_vars('count') if 'count' in d else d.drop_vars('temp'),
        'data variable attribute': lambda d: d.assign(temp=d['temp'].assign_attrs(units='K')),
    }
    tdim = next((t for t in ('time', 'record') if t in ds.dims), None)
    if tdim:
        edits['fewer time steps'] = lambda d: d.isel({tdim: slice(0, 1)})
        # one time step: the time coordinate stays behind as a scalar coordinate -- still not geometry
        edits['first time step alone'] = lambda d: d.isel({tdim: 0})
        edits['last time step alone'] = lambda d: d.isel({tdim: -1})
    gdims = [d for d in ds['temp'].dims if d != tdim]
    if gdims:
        # auxiliary (non-geometry) coordinates on the grid dimensions: cell areas, labels
        edits['auxiliary coordinate on the grid'] = lambda d: d.assign_coords(cell_area=(gdims, numpy.full([d.sizes[x] for x in gdims], 2.5)))
        edits['labels on a grid dimension'] = lambda d: d.assign_coords({'label_' + str(gdims[0]): ((gdims[0],), numpy.arange(d.sizes[gdims[0]]) + 100)})
    for name, f in edits.items():
        d2 = f(datasets.build(spec))
        if type(d2.ems) is not type(ds.ems):
            continue
        if make_cache_key(d2) != key:
            return f'{name}: key changed although only non-geometry content differs'
    # fresh interpreters with different hash seeds
    for seed in range(1, inp['processes'] + 1):
        k2 = key_in_fresh_process(spec, seed * 7919)
        if k2 != key:
            return f'key differs in a fresh process with PYTHONHASHSEED={seed * 7919}: {k2[:12]} vs {key[:12]}'
    want = datasets.expected_geometry_names(spec)
    if set(geometry_names(ds)) != set(want):
        return f'geometry inventory {sorted(geometry_names(ds))} differs from the geometry variables of the dataset {sorted(want)}'
    # single geometry edits must change the key
    for g in want:
        base = datasets.build(spec)
        v = base[g]
        cases = {}
        if v.size:
            vals = v.values.copy()
            flat = vals.reshape(-1)
            if vals.dtype.kind == 'f':
                flat[-1] = (flat[-1] if numpy.isfinite(flat[-1]) else 0.0) + 0.125
            else:
                flat[-1] = flat[-1] + 1
            cases['one value'] = base.assign({g: (v.dims, vals, v.attrs, v.encoding)}) if g not in base.coords else \
                base.assign_coords({g: (v.dims, vals, v.attrs)})
        cases['attribute added'] = _with_attrs(base, g, dict(v.attrs, verif_extra='x'))
        cases['underscore attribute added'] = _with_attrs(base, g, dict(v.attrs, _CoordinateAxisType='Lat'))
        if v.attrs:
            k0 = sorted(v.attrs)[-1]
            cases['attribute removed'] = None
        cases['attribute changed'] = _with_attrs(base, g, dict(v.attrs, long_name='changed by verif'))
        if v.dtype.kind == 'f' and v.ndim >= 1:
            cases['dtype'] = _with_values(base, g, v.values.astype('float32'))
        if v.ndim == 2 and v.shape[0] != v.shape[1]:
            pass
        for name, d2 in cases.items():
            if d2 is None:
                continue
            try:
                if type(d2.ems) is not type(ds.ems):
                    continue
                k2 = make_cache_key(d2)
            except Exception:
                continue
            if k2 == key:
                return f'{g}: {name} did not change the key'
    # a geometry variable whose encoding remembers a narrower dtype than the values it holds (float32 on disk with a double scale / offset,
    # values replaced after opening): the key follows the values held, to the last bit
    for g in want:
        base = datasets.build(spec)
        v = base[g]
        if v.dtype != numpy.float64 or not v.size or not numpy.isfinite(v.values.reshape(-1)[0]):
            continue
        vals = v.values.copy()
        flat = vals.reshape(-1)
        flat[0] = numpy.nextafter(flat[0], numpy.inf)             # one unit in the last place: invisible in float32
        keys = []
        for data in (v.values.copy(), vals):
            d2 = _with_values(datasets.build(spec), g, data)
            d2[g].encoding['dtype'] = numpy.dtype('float32')
            try:
                keys.append(make_cache_key(d2) if type(d2.ems) is type(ds.ems) else None)
            except Exception:
                keys.append(None)
        if None in keys:
            continue
        if keys[0] == keys[1]:
            return f'{g}: a one-ulp change of a float64 value did not change the key when the encoding names float32'
    # the name of a geometry variable is part of the key: any other name gives another key - also a name that differs only in its Unicode
    # composition (xarray keeps such names apart; they are different variables)
    if spec['conv'] in ('cf1d', 'cf2d'):
        g = [n for n in want if str(n).startswith('lon') and 'bnds' not in str(n)][0]
        seen = {}
        for new_name in ('lon_r\u00e9f', 'lon_re\u0301f', 'lon_\u212b', 'lon_\u00c5', 'longitude_2'):
            d2 = datasets.build(spec).rename({g: new_name})
            try:
                if type(d2.ems) is not type(ds.ems):
                    continue
                k2 = make_cache_key(d2)
            except Exception:
                continue
            if k2 == key:
                return f'{g}: renaming it to {new_name!r} did not change the key'
            if k2 in seen:
                return f'{g}: the names {seen[k2]!r} and {new_name!r} give one key'
            seen[k2] = new_name
    # the same values held in dask arrays, chunked along the first / a later / every dimension: the key is that of the values, not of the chunk
    # layout (the buffers are swapped in place: attribute objects, and their reference counts, stay exactly as they were)
    import dask.array
    for label in ('one chunk', 'the first dimension', 'a later dimension', 'every dimension'):
        base = datasets.build(spec)
        touched = False
        for g in geometry_names(base):
            v = base[g]
            if v.ndim == 0:
                continue
            if label == 'one chunk':
                chunks = v.shape
            elif label == 'the first dimension':
                chunks = (max(1, v.shape[0] // 2),) + v.shape[1:]
            elif label == 'a later dimension':
                if v.ndim < 2:
                    continue
                chunks = (v.shape[0],) + tuple(max(1, n // 2) for n in v.shape[1:])
            else:
                chunks = tuple(1 for _ in v.shape)
            try:
                base[g].variable.data = dask.array.from_array(numpy.ascontiguousarray(v.values), chunks=chunks)
            except ValueError:
                continue            # an index coordinate cannot be held in a dask array
            touched = True
        if not touched:
            continue
        try:
            k2 = make_cache_key(base)
        except Exception as e:
            return f'chunked along {label}: make_cache_key raised {type(e).__name__}: {e}'
        if k2 != key:
            return f'the same values in dask arrays chunked along {label} give another key'
    # F-ordered storage of the same values must give the same key
    for g in geometry_names(ds):
        base = datasets.build(spec)
        v = base[g]
        if v.ndim == 2:
            # swap the buffer in place: attribute objects (and their reference counts) stay exactly as they were
            base[g].variable.values = numpy.asfortranarray(v.values)
            if not base[g].values.flags['F_CONTIGUOUS'] or base[g].values.flags['C_CONTIGUOUS']:
                continue
            if make_cache_key(base) != key:
                return f'{g}: same values in Fortran memory order give a different key'
    return None


def _with_attrs(ds, g, attrs):
    d = ds.copy()
    d[g].attrs = attrs
    return d


def _with_values(ds, g, vals):
    v = ds[g]
    if g in ds.coords:
        return ds.assign_coords({g: (v.dims, vals, v.attrs)})
    return ds.assign({g: (v.dims, vals, v.attrs, v.encoding)})


def gen_marshal(tier, seed):
    yield {'case': 'joined-strings'}
    yield {'case': 'shared-object'}


def test_marshal(inp):
    a = datasets.build({'conv': 'cf1d', 'ny': 3, 'nx': 4})
    b = datasets.build({'conv': 'cf1d', 'ny': 3, 'nx': 4})
    if inp['case'] == 'joined-strings':
        b['lat'].attrs = {''.join(['un', 'its']): ''.join(['degrees_', 'north'])}
        a['lat'].attrs = {'units': 'degrees_north'}
    else:
        s = ''.join(['a', 'b', 'c'])
        a['lat'].attrs = {'units': 'degrees_north', 'x': s, 'y': s}
        b['lat'].attrs = {'units': 'degrees_north', 'x': ''.join(['a', 'b', 'c']), 'y': ''.join(['a', 'b', 'c'])}
    if dict(a['lat'].attrs) != dict(b['lat'].attrs):
        raise RuntimeError('harness: attrs not equal')
    if make_cache_key(a) != make_cache_key(b):
        return 'two datasets whose geometry attributes have equal values (built from different string objects) get different keys ' \
               '(marshal encodes interning / reference sharing)'
    return None


CHECKS = [
    Check('cache_key', gen, test, key=lambda i, d: f"cache_key:{i['spec']['conv']}",
          space='8 datasets over all conventions x {non-geometry edits (must keep the key), single geometry edits: value, dtype, '
                'attribute add/change (must change it), Fortran-ordered storage, fresh interpreter processes with other hash seeds}',
          bound='8 datasets, 2 (quick) / 5 (thorough) fresh processes each'),
    Check('marshal_refcount', gen_marshal, test_marshal, key=lambda i, d: 'marshal-refcount',
          space='equal-valued attribute dictionaries built from different string objects', bound='2 constructions'),
]
