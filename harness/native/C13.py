"""C13 bounded stand-in / replay: normalize_depth_variables on real datasets."""
from __future__ import annotations

import copy
import itertools
import warnings

import numpy
import xarray

import emsarray  # noqa: F401
from emsarray.operations.depth import normalize_depth_variables
from harness.common import Check, Failure, must, must_raise

OPTS = [None, True, False]


def build(inp):
    n = inp['n']
    z = numpy.array(inp['z'], dtype=float)
    name = 'k' if inp['dimcoord'] else 'zc'
    attrs = {'axis': 'Z', 'long_name': 'depth'}
    if inp['attr'] is not None:
        attrs['positive'] = inp['attr']
    data_vars = {
        'temp': xarray.DataArray(numpy.arange(n * 3, dtype=float).reshape(n, 3) + 0.5, dims=['k', 'x'], attrs={'units': 'C'}),
        'flipped': xarray.DataArray(numpy.arange(n * 3, dtype=float).reshape(3, n) + 100.25, dims=['x', 'k']),
        'surface': xarray.DataArray(numpy.arange(3, dtype=float), dims=['x']),
    }
    coords = {}
    if inp['bounds']:
        attrs['bounds'] = 'z_bnds'
        half = numpy.abs(numpy.gradient(z)) / 2 if n > 1 else numpy.array([0.5])
        zb = numpy.stack([z - half * 0.9, z + half * 1.1], axis=-1)
        if inp['bounds'] == 'coords':
            coords['z_bnds'] = xarray.DataArray(zb, dims=['k', 'two'], attrs={'long_name': 'bounds'})
        else:
            data_vars['z_bnds'] = xarray.DataArray(zb, dims=['k', 'two'], attrs={'long_name': 'bounds'})
    coords[name] = xarray.DataArray(z, dims=['k'], attrs=attrs)
    coords[name].encoding['dtype'] = 'float64'
    if inp.get('labels') and not inp['dimcoord']:
        # the depth dimension carries its own index coordinate (layer numbers), unrelated to the direction of the depth values
        lab = numpy.arange(n) if inp['labels'] == 'increasing' else numpy.arange(n)[::-1].copy()
        coords['k'] = xarray.DataArray(lab, dims=['k'], attrs={'long_name': 'layer number'})
    extra = inp.get('second')
    if extra:
        coords['height'] = xarray.DataArray(-z, dims=['k'], attrs={'positive': 'up'})
    return xarray.Dataset(data_vars=data_vars, coords=coords, attrs={'title': 't'}), name


def gen(tier, seed):
    zs = {
        'inc+': [0.5, 1.5, 3.0, 7.0], 'dec+': [7.0, 3.0, 1.5, 0.5], 'inc-': [-7.0, -3.0, -1.5, -0.5],
        'dec-': [-0.5, -1.5, -3.0, -7.0], 'two': [1.0, 2.0], 'cross': [-1.0, 0.5, 2.0, 4.0],
        # exactly half of the levels positive (not "more than half"), the two middle values summing to something positive
        'half2': [-1.0, 5.0], 'half4': [-3.0, -1.0, 2.0, 4.0], 'half4-zero': [2.0, 1.0, 0.0, -1.0],
    }
    attrs = ['down', 'up', 'DOWN', 'Up', None]
    for (zn, z), attr, dimcoord, bounds in itertools.product(zs.items(), attrs, (True, False), (False, 'vars', 'coords')):
        if tier == 'quick' and bounds == 'coords' and zn not in ('inc+', 'dec-'):
            continue
        for p, o in itertools.product(OPTS, OPTS):
            yield {'z': z, 'n': len(z), 'attr': attr, 'dimcoord': dimcoord, 'bounds': bounds, 'p': p, 'o': o, 'zname': zn}
    for p, o in itertools.product(OPTS, OPTS):
        yield {'z': zs['dec+'], 'n': 4, 'attr': 'down', 'dimcoord': False, 'bounds': False, 'p': p, 'o': o,
               'second': True, 'zname': 'dec+two-coords'}
    for (zn, z), attr, labels in itertools.product(zs.items(), ('down', 'up'), ('increasing', 'decreasing')):
        if zn == 'two' and tier == 'quick':
            continue
        for p, o in itertools.product(OPTS, OPTS):
            yield {'z': z, 'n': len(z), 'attr': attr, 'dimcoord': False, 'bounds': False, 'p': p, 'o': o, 'zname': zn + '-labelled-' + labels,
                   'labels': labels}


def snapshot(ds):
    return {k: (v.dims, numpy.array(v.values, copy=True), copy.deepcopy(dict(v.attrs)), copy.deepcopy(dict(v.encoding)))
            for k, v in ds.variables.items()}, dict(ds.attrs)


def unchanged(ds, snap):
    sv, sa = snap
    if dict(ds.attrs) != sa or list(ds.variables) != list(sv):
        return 'input dataset attrs/variables modified'
    for k, (dims, vals, attrs, enc) in sv.items():
        v = ds.variables[k]
        if v.dims != dims or dict(v.attrs) != attrs or not numpy.array_equal(v.values, vals, equal_nan=True):
            return f'input variable {k!r} was modified'
    return None


def test(inp):
    ds, name = build(inp)
    names = [name] + (['height'] if inp.get('second') else [])
    p, o = inp['p'], inp['o']
    snap = snapshot(ds)
    out = must(lambda: normalize_depth_variables(ds, names, positive_down=p, deep_to_shallow=o), 'normalize_depth_variables')
    bad = unchanged(ds, snap)
    if bad:
        return bad
    z = numpy.array(inp['z'], dtype=float)
    attr = inp['attr']
    if attr is not None:
        s_in = 1 if attr.lower() == 'down' else -1
    else:
        s_in = 1 if (z > 0).sum() > len(z) / 2 else -1
    s_out = (1 if p else -1) if p is not None else s_in
    d_in = s_in * z
    rev = False if o is None else ((d_in[0] > d_in[1]) != o)
    perm = numpy.arange(len(z))[::-1] if rev else numpy.arange(len(z))
    zo = out[name]
    if zo.dims != ('k',):
        return f'coordinate dims {zo.dims}'
    if p is not None and zo.attrs.get('positive') != ('down' if p else 'up'):
        return f"positive attribute {zo.attrs.get('positive')!r} after positive_down={p}"
    if p is None and zo.attrs.get('positive') != attr:
        return f"positive attribute changed to {zo.attrs.get('positive')!r} although positive_down=None"
    if {k: v for k, v in zo.attrs.items() if k != 'positive'} != {k: v for k, v in ds[name].attrs.items() if k != 'positive'}:
        return 'other coordinate attributes changed'
    want = s_in * s_out * z[perm]
    if not numpy.array_equal(zo.values, want):
        return f'coordinate values {zo.values.tolist()} but physical depth requires {want.tolist()} (attr {attr!r}, positive_down={p}, deep_to_shallow={o})'
    d_out = s_out * zo.values
    if o is True and not numpy.all(numpy.diff(d_out) < 0):
        return f'not deep-to-shallow: physical depths {d_out.tolist()}'
    if o is False and not numpy.all(numpy.diff(d_out) > 0):
        return f'not shallow-to-deep: physical depths {d_out.tolist()}'
    if not numpy.array_equal(out['temp'].values, ds['temp'].values[perm, :]) or out['temp'].dims != ('k', 'x'):
        return 'temp no longer attached to its depth'
    if not numpy.array_equal(out['flipped'].values, ds['flipped'].values[:, perm]) or out['flipped'].dims != ('x', 'k'):
        return 'flipped no longer attached to its depth'
    if not numpy.array_equal(out['surface'].values, ds['surface'].values):
        return 'variable without the depth dimension changed'
    if inp['bounds']:
        wantb = s_in * s_out * ds['z_bnds'].values[perm, :]
        if not numpy.array_equal(out['z_bnds'].values, wantb):
            return f'bounds not transformed with the coordinate: {out["z_bnds"].values.tolist()} vs {wantb.tolist()}'
        if dict(out['z_bnds'].attrs) != dict(ds['z_bnds'].attrs):
            return 'bounds attributes changed'
    if inp.get('second'):
        ho = out['height']
        s2 = (1 if p else -1) if p is not None else -1
        if not numpy.array_equal(ho.values, (-1) * s2 * (-z)[perm]):
            return f'second coordinate on the same dimension wrong: {ho.values.tolist()}'
    if dict(out.attrs) != dict(ds.attrs) or set(out.variables) != set(ds.variables):
        return 'global attributes / variable inventory changed'
    out2 = must(lambda: normalize_depth_variables(out, names, positive_down=p, deep_to_shallow=o), 'second normalisation')
    for k in out.variables:
        if not numpy.array_equal(out2[k].values, out[k].values, equal_nan=True) or dict(out2[k].attrs) != dict(out[k].attrs) \
                or out2[k].dims != out[k].dims:
            return f'not idempotent: {k!r} changed on the second application'
    return None


def key(inp, detail):
    case = 'positive-attr-case' if inp['attr'] in ('DOWN', 'Up') else 'other'
    return f'normalize:{case}'


def gen_multi(tier, seed):
    axes = {'inc+': ([0.5, 1.5, 3.0], 'down'), 'dec+': ([3.0, 1.5, 0.5], 'down'), 'inc-': ([-3.0, -1.5, -0.5], 'up'), 'dec-': ([-0.5, -1.5, -3.0], 'up')}
    for a, b in itertools.permutations(axes, 2):
        for p, o in itertools.product(OPTS, OPTS):
            for order in ((0, 1), (1, 0)):
                yield {'axes': [axes[a], axes[b]], 'names': [a, b], 'p': p, 'o': o, 'order': order}


def test_multi(inp):
    """Several depth coordinates, each on its own dimension (water column + sediment layers): every one is normalised on its own."""
    data_vars, coords = {}, {}
    for k, (z, attr) in enumerate(inp['axes']):
        n = len(z)
        coords[f'z{k}'] = xarray.DataArray(numpy.array(z), dims=[f'k{k}'], attrs={'positive': attr, 'axis': 'Z'})
        data_vars[f'v{k}'] = xarray.DataArray(numpy.arange(n * 2, dtype=float).reshape(n, 2) + 10 * k, dims=[f'k{k}', 'x'])
    ds = xarray.Dataset(data_vars=data_vars, coords=coords)
    p, o = inp['p'], inp['o']
    snap = snapshot(ds)
    names = [f'z{k}' for k in inp['order']]
    out = must(lambda: normalize_depth_variables(ds, names, positive_down=p, deep_to_shallow=o), 'normalize_depth_variables (two coordinates)')
    bad = unchanged(ds, snap)
    if bad:
        return bad
    for k, (z, attr) in enumerate(inp['axes']):
        z = numpy.array(z)
        s_in = 1 if attr == 'down' else -1
        s_out = (1 if p else -1) if p is not None else s_in
        d_in = s_in * z
        rev = False if o is None else ((d_in[0] > d_in[1]) != o)
        perm = numpy.arange(len(z))[::-1] if rev else numpy.arange(len(z))
        want = s_in * s_out * z[perm]
        if not numpy.array_equal(out[f'z{k}'].values, want):
            return (f'coordinate z{k} ({inp["names"][k]}, listed {"first" if inp["order"][0] == k else "second"}) is {out[f"z{k}"].values.tolist()}, '
                    f'expected {want.tolist()} (positive_down={p}, deep_to_shallow={o})')
        if not numpy.array_equal(out[f'v{k}'].values, ds[f'v{k}'].values[perm, :]):
            return f'v{k} no longer attached to its depth'
        if out[f'z{k}'].attrs.get('positive') != (('down' if p else 'up') if p is not None else attr):
            return f'positive attribute of z{k} is {out[f"z{k}"].attrs.get("positive")!r}'
    return None


def gen_accessor(tier, seed):
    for conv in ('cf1d', 'shoc_standard', 'ugrid'):
        for p, o in itertools.product(OPTS, OPTS):
            for first in ('down', 'up'):
                yield {'conv': conv, 'p': p, 'o': o, 'first': first}


def test_accessor(inp):
    """dataset.ems.normalize_depth_variables on a convention dataset with two depth coordinates on ONE dimension (opposite sign conventions) and a
    third on another: every depth coordinate of the dataset ends up with the requested sign and order."""
    from harness import datasets
    import warnings
    with warnings.catch_warnings():
        warnings.simplefilter('ignore')
        ds = datasets.build({'conv': inp['conv'], 'ny': 2, 'nx': 3, 'depth': 0})
        fdims = list(ds.ems.grid_dimensions[ds.ems.default_grid_kind])
    z = numpy.array([0.5, 1.5, 3.0])
    sgn = {'down': 1.0, 'up': -1.0}
    other = 'up' if inp['first'] == 'down' else 'down'
    names = {'shoc_standard': ('z_centre', 'z_grid', 'k_centre', 'k_grid')}.get(inp['conv'], ('depth_a', 'depth_b', 'layer', 'sed'))
    za, zb, dim, dim2 = names
    if inp['conv'] == 'shoc_standard':
        coords = {za: ((dim,), sgn[inp['first']] * z, {'positive': inp['first'], 'axis': 'Z'}), zb: ((dim2,), sgn[other] * z[::-1].copy(), {'positive': other, 'axis': 'Z'})}
    else:
        coords = {za: ((dim,), sgn[inp['first']] * z, {'positive': inp['first'], 'axis': 'Z'}), zb: ((dim,), sgn[other] * z, {'positive': other, 'axis': 'Z'}),
                  'zsed': ((dim2,), sgn[other] * z[::-1].copy(), {'positive': other, 'axis': 'Z'})}
    ds = ds.assign_coords(coords)
    shape = tuple(ds.sizes[d] for d in fdims)
    ds['col'] = xarray.DataArray(numpy.arange(3 * int(numpy.prod(shape)), dtype=float).reshape((3,) + shape), dims=[dim] + fdims)
    ds['col2'] = xarray.DataArray(numpy.arange(3 * int(numpy.prod(shape)), dtype=float).reshape((3,) + shape) + 100, dims=[dim2] + fdims)
    p, o = inp['p'], inp['o']
    with warnings.catch_warnings():
        warnings.simplefilter('ignore')
        found = sorted(str(d.name) for d in ds.ems.depth_coordinates)
        if found != sorted(coords):
            return f'depth_coordinates {found}, the dataset has {sorted(coords)}'
        kw = {k: v for k, v in (('positive_down', p), ('deep_to_shallow', o)) if v is not None}
        out = must(lambda: ds.ems.normalize_depth_variables(**kw), 'dataset.ems.normalize_depth_variables')
    for name, (dims, vals, attrs) in coords.items():
        s_in = sgn[attrs['positive']]
        s_out = (1.0 if p else -1.0) if p is not None else s_in
        got = out[name].values
        depth_in = sorted((s_in * vals).tolist())
        if sorted((s_out * got).tolist()) != depth_in:
            return f'{name}: values {got.tolist()} with positive={out[name].attrs.get("positive")!r} are not the physical depths {depth_in} (positive_down={p})'
        if out[name].attrs.get('positive') != (('down' if p else 'up') if p is not None else attrs['positive']):
            return f'{name}: positive attribute is {out[name].attrs.get("positive")!r} (positive_down={p})'
        if p is not None and not (numpy.all(got >= 0) if p else numpy.all(got <= 0)):
            return f'{name}: values {got.tolist()} do not follow the requested sign convention (positive_down={p})'
        if o is not None:
            d = s_out * got
            if (d[0] > d[-1]) != o:
                return f'{name}: order {got.tolist()} is not the requested one (deep_to_shallow={o})'
    return None


CHECKS = [Check('normalize', gen, test, key=key,
                space='6 monotonic depth axes (>= 2 levels; all-positive, all-negative, zero-crossing) x positive attr '
                      '{down, up, DOWN, Up, absent} x {dimension coordinate, auxiliary} x bounds {none, variable, coordinate} '
                      'x 9 option pairs, + two coordinates on one dimension; applied twice',
                bound='enumerated, finite family of axes', exhaustive=False),
          Check('multi', gen_multi, test_multi, key=lambda i, d: 'normalize:several-coordinates',
                space='two depth coordinates on separate dimensions, every ordered pair of 4 axis layouts x 9 option pairs x both listing orders',
                bound='216 cases', exhaustive=False),
          Check('accessor', gen_accessor, test_accessor, key=lambda i, d: f"normalize-accessor:{i['conv']}",
                space='dataset.ems.normalize_depth_variables on 3 convention datasets with two depth coordinates on one dimension (opposite signs) + one on another x 9 option pairs x 2',
                bound='54 cases', exhaustive=False)]
