"""C18 bounded stand-in / replay: Transect.segments / transect_dataset / prepare_data_array_for_transect on real datasets.
The optional cfunits import is satisfied by harness/stubs/cfunits (axis labels only)."""
from __future__ import annotations

import math
import os
import sys
import warnings

sys.path.insert(0, os.path.join(os.path.dirname(os.path.dirname(os.path.abspath(__file__))), 'stubs'))

import numpy
import pyproj
import shapely
import shapely.ops

import emsarray  # noqa: F401
from emsarray.transect import Transect
from harness import datasets
from harness.common import Check, Failure, must

GEOD = pyproj.Geod(ellps='WGS84')
SPECS = [
    {'conv': 'cf1d', 'ny': 4, 'nx': 5, 'depth': 3, 'bounds': 'vars'},
    {'conv': 'cf2d', 'ny': 4, 'nx': 5, 'bounds': 'vars', 'holes': [[1, 2], [2, 3]], 'depth': 3, 'skew': 0.0},
    {'conv': 'shoc_standard', 'ny': 4, 'nx': 4, 'node_holes': [[1, 1]], 'depth': 3},
    {'conv': 'ugrid', 'ny': 3, 'nx': 4, 'split': [[0, 0], [1, 2]], 'merge': [[2, 0]], 'depth': 3},
    {'conv': 'fine', 'ny': 12, 'nx': 4, 'd': 0.01},          # 1 km cells: metre-scale errors in the distances show up as wrong order
]


def build(spec):
    if spec['conv'] != 'fine':
        return datasets.build(spec)
    import xarray
    ny, nx, d = spec['ny'], spec['nx'], spec['d']
    lat = -30 + d * numpy.arange(ny)
    lon = 150 + d * numpy.arange(nx)
    return xarray.Dataset({'temp': (('k', 'lat', 'lon'), numpy.arange(3 * ny * nx, dtype=float).reshape(3, ny, nx), {'units': 'degC'})},
                          coords={'lat': ('lat', lat, {'units': 'degrees_north'}), 'lon': ('lon', lon, {'units': 'degrees_east'}),
                                  'zc': ('k', [1., 2., 4.], {'positive': 'down'})})



def paths(ds):
    x0, y0, x1, y1 = ds.ems.bounds
    w, h = x1 - x0, y1 - y0
    cx, cy = (x0 + x1) / 2, (y0 + y1) / 2
    polys = [p for p in ds.ems.polygons if p is not None]
    first = polys[0]
    fx0, fy0, fx1, fy1 = first.bounds
    inner = first.representative_point()
    edge = list(first.exterior.coords)[:2]
    return {
        'straight through': [(x0 - 0.3, cy + 0.013 * h), (x1 + 0.3, cy + 0.021 * h)],
        'diagonal, starts and ends outside': [(x0 - 0.2, y0 - 0.1), (x1 + 0.2, y1 + 0.3)],
        'starts inside, ends outside': [(inner.x, inner.y), (cx, cy + 0.07 * h), (x1 + 0.5, y1 + 0.1)],
        'starts outside, ends inside': [(x0 - 0.5, cy), (cx + 0.01 * w, cy - 0.03 * h)],
        'inside one cell': [(inner.x - 0.01 * (fx1 - fx0), inner.y), (inner.x + 0.02 * (fx1 - fx0), inner.y + 0.01 * (fy1 - fy0))],
        'bent: leaves a cell and comes back': [(fx0 + 0.1 * (fx1 - fx0), fy0 - 0.4 * (fy1 - fy0) - 0.05), (fx0 + 0.3 * (fx1 - fx0), fy0 + 0.6 * (fy1 - fy0)),
                                               (fx0 + 0.5 * (fx1 - fx0), fy0 - 0.4 * (fy1 - fy0) - 0.05), (fx0 + 0.7 * (fx1 - fx0), fy0 + 0.5 * (fy1 - fy0)),
                                               (fx0 + 0.8 * (fx1 - fx0), fy0 - 0.3 * (fy1 - fy0) - 0.05)],
        'several vertices, zig-zag': [(x0 - 0.1, y0 + 0.2 * h), (x0 + 0.3 * w, y1 - 0.1 * h), (x0 + 0.5 * w, y0 + 0.1 * h), (x0 + 0.7 * w, y1 + 0.2), (x1 + 0.1, y0 + 0.4 * h)],
        'along a cell edge': [(2 * edge[0][0] - edge[1][0], 2 * edge[0][1] - edge[1][1]), (3 * edge[1][0] - 2 * edge[0][0], 3 * edge[1][1] - 2 * edge[0][1])],
        'misses the model': [(x1 + 1.0, y0), (x1 + 2.0, y1)],
        'vertical, reversed': [(cx + 0.03 * w, y1 + 0.2), (cx + 0.031 * w, y0 - 0.2)],
        'heading north': [(cx + 0.03 * w, y0 - 0.04 * h), (cx + 0.032 * w, y1 + 0.04 * h)],
        **_shared_edge_paths(polys),
        **_corner_touch_path(first, inner),
        'heading north from inside': [(cx - 0.13 * w, y0 + 0.03 * h), (cx - 0.128 * w, y1 - 0.02 * h)],
    }


def _corner_touch_path(first, inner):
    """a path that runs through the first cell and later ends exactly on one of its corners, arriving from outside: the cell meets the path in
    a line piece and an isolated point (a geometry collection), and still has to be listed with its line piece (seeded change C18-m17)"""
    c = first.exterior.coords[0]
    vx, vy = c[0] - inner.x, c[1] - inner.y
    return {'through a cell, then ends on a corner of it': [(inner.x, inner.y), (inner.x - 3.1 * vy, inner.y + 3.1 * vx), (c[0] + 0.83 * vx, c[1] + 0.83 * vy), (c[0], c[1])]}


def _shared_edge_paths(polys):
    """paths that run exactly along an edge shared by two cells (GEOS hands such pieces back in ring direction, not path direction),
    in both directions, and a bent path with one leg on a shared edge"""
    out = {}
    for a_i, a in enumerate(polys):
        ea = list(zip(a.exterior.coords[:-1], a.exterior.coords[1:]))
        for b in polys[a_i + 1:]:
            eb = {frozenset(e) for e in zip(b.exterior.coords[:-1], b.exterior.coords[1:])}
            for p, q in ea:
                if frozenset((p, q)) in eb:
                    ext = lambda u, v, t: (u[0] + (v[0] - u[0]) * t, u[1] + (v[1] - u[1]) * t)
                    out['along a shared edge'] = [ext(p, q, -0.7), ext(p, q, 1.6)]
                    out['along a shared edge, reversed'] = [ext(p, q, 1.6), ext(p, q, -0.7)]
                    out['bent, one leg on a shared edge'] = [ext(p, q, -0.4), ext(p, q, 1.0), (q[0] + 0.37 * (q[1] - p[1]) + 0.11, q[1] - 0.37 * (q[0] - p[0]) + 0.23)]
                    return out
    return out


def gen(tier, seed):
    for spec in SPECS:
        ds = build(spec)
        for name in paths(ds):
            yield {'spec': spec, 'path': name}


def geod_length(line):
    xs, ys = zip(*line.coords)
    return GEOD.line_length(xs, ys)


def test(inp):
    warnings.simplefilter('ignore')
    ds = build(inp['spec'])
    ems = ds.ems
    line = shapely.LineString(paths(ds)[inp['path']])
    depth_name = [str(d.name) for d in ems.depth_coordinates][0]
    tr = must(lambda: Transect(ds, line, depth=depth_name), 'Transect(...)')
    segs = must(lambda: tr.segments, 'Transect.segments')
    polys = ems.polygons
    present = [p for p in polys if p is not None]
    union = shapely.unary_union(present)
    inside = union.intersection(line)
    inside_len = inside.length
    tol = 1e-9 * max(1.0, line.length)
    # each segment lies in its cell and names it
    total = 0.0
    for k, s in enumerate(segs):
        n = int(s.linear_index)
        if polys[n] is None or not polys[n].equals(s.polygon):
            return f'segment {k}: linear index {n} is not the cell whose polygon the segment holds'
        if tuple(ems.wind_index(n)) != tuple(s.index):
            return f'segment {k}: native index {s.index} is not the native index of cell {n}'
        if not polys[n].buffer(1e-9).covers(s.intersection):
            return f'segment {k}: the intersection does not lie within the polygon of cell {n}'
        if not line.buffer(1e-9).covers(s.intersection):
            return f'segment {k}: the intersection does not lie on the path'
        if s.intersection.length <= 0:
            return f'segment {k}: an empty / point-like piece is listed as a segment'
        if not (s.start_distance <= s.end_distance):
            return f'segment {k}: start {s.start_distance} after end {s.end_distance}'
        total += s.intersection.length
    if abs(total - inside_len) > 10 * tol + 1e-9 * len(segs):
        return f'the segment lengths add up to {total:.9g} (data units), the path inside the model has length {inside_len:.9g}'
    # listed by increasing distance from the start
    starts = [s.start_distance for s in segs]
    if starts != sorted(starts):
        return 'segments are not listed by increasing distance from the start'
    proj = [line.project(s.intersection.interpolate(0.5, normalized=True)) for s in segs]
    if any(b < a - 1e-9 for a, b in zip(proj, proj[1:])):
        return 'segments are not in path order: a later segment lies closer to the start of the path than an earlier one'
    total_m = geod_length(line)
    for k, s in enumerate(segs):
        if s.start_distance < -1e-6 or s.end_distance > total_m * (1 + 1e-2) + 1e-6:
            return f'segment {k}: distances [{s.start_distance:.3f}, {s.end_distance:.3f}] m fall outside the path (0 .. {total_m:.3f} m)'
        # the metric length of the piece agrees with its end-point distances (pieces are short: geodesic vs projected differ by < 0.1 %)
        want = geod_length(s.intersection)
        got = s.end_distance - s.start_distance
        if abs(got - want) > 1e-2 * max(want, 1.0) + 0.5:
            return f'segment {k}: end - start = {got:.3f} m but the piece is {want:.3f} m long'
        # position along the path agrees with the normalised projection of the end points
        for pt, dist in ((s.start_point, s.start_distance), (s.end_point, s.end_distance)):
            frac = line.project(pt, normalized=True)
            along = geod_length(shapely.ops.substring(line, 0, frac, normalized=True)) if frac > 0 else 0.0
            if abs(dist - along) > 1e-2 * max(along, 1.0) + 0.5:
                return f'segment {k}: an end point {along:.3f} m along the path is reported at {dist:.3f} m'
    for a, b in zip(segs, segs[1:]):
        if b.start_distance < a.end_distance - 1e-3 * max(1.0, a.end_distance) - 0.5 and a.linear_index != b.linear_index:
            return 'two segments of different cells overlap along the path (cells do not overlap)'
    # the transect dataset and the prepared data
    td = must(lambda: tr.transect_dataset, 'transect_dataset')
    if [int(v) for v in td['linear_index'].values] != [int(s.linear_index) for s in segs]:
        return 'transect_dataset.linear_index does not list the cells of the segments in order'
    db = td['distance_bounds'].values
    if db.shape != (len(segs), 2) or any(db[k, 0] != s.start_distance or db[k, 1] != s.end_distance for k, s in enumerate(segs)):
        return 'transect_dataset.distance_bounds does not hold [start, end] of every segment'
    name = 'temp'
    v = ds[name]
    prepared = must(lambda: tr.prepare_data_array_for_transect(v), 'prepare_data_array_for_transect')
    ddim = ds[depth_name].dims[0]
    fdims = list(ems.grid_dimensions[ems.default_grid_kind])
    if list(prepared.dims[-2:])[0] != ddim or prepared.shape[-1] != len(segs):
        return f'prepared data has dims {prepared.dims} / shape {prepared.shape}, expected (..., {ddim}, {len(segs)} segments)'
    shape = [ds.sizes[d] for d in fdims]
    others = [d for d in v.dims if d not in fdims and d != ddim]
    canon = v.transpose(*others, ddim, *fdims).values
    got = prepared.transpose(*others, ddim, prepared.dims[-1]).values
    for k, s in enumerate(segs):
        idx = numpy.unravel_index(int(s.linear_index), shape)
        want = canon[(Ellipsis,) + tuple(idx)]
        if got[..., k].tobytes() != want.tobytes():
            return f'prepared data, segment {k}: not the values of cell {int(s.linear_index)} at every depth'
    if prepared.attrs != v.attrs:
        return 'prepared data lost the attributes of the variable'
    if inp['path'] == 'misses the model' and segs:
        return 'a path that misses the model has segments'
    return None


def key(inp, detail):
    if 'shared edge' in inp['path'] and detail.startswith('the segment lengths add up to'):
        return 'transect:shared-edge-counted-once-per-neighbour'
    return f"transect:{inp['spec']['conv']}:{detail.split(':')[0][:50]}"


CHECKS = [
    Check('transect', gen, test, key=key,
          space='4 datasets (grids and meshes, with holes, depth axis) x 10 polylines: straight, diagonal, starting / ending inside, inside one cell, '
                'leaving and re-entering a cell, zig-zag over holes, along a cell edge, missing the model, reversed',
          bound='40 transects; lengths compared with tolerance 1e-9 (data units) / 0.2 % (metres)'),
]
