"""C07 bounded stand-in / replay: ring growing and edge/node marking primitives exhaustively up to 4x4; clip masks of
every convention against a brute-force oracle (shapely.intersects per polygon, rings by explicit neighbourhoods)."""
from __future__ import annotations

import itertools

import numpy
import shapely
import xarray

import emsarray
from emsarray import masking
from harness import datasets
from harness.common import Check, Failure, must


def gen_arrays(tier, seed):
    maxn = 3 if tier == 'quick' else 4
    for ny in range(1, maxn + 1):
        for nx in range(1, maxn + 1):
            if tier == 'quick' and ny * nx > 9:
                continue
            for bits in range(2 ** (ny * nx)):
                yield {'ny': ny, 'nx': nx, 'bits': bits}
    if tier == 'quick':
        # the 4x4 layer is sampled in the quick tier
        for bits in range(0, 2 ** 16, 97):
            yield {'ny': 4, 'nx': 4, 'bits': bits}


def arr_of(inp):
    ny, nx = inp['ny'], inp['nx']
    return numpy.array([(inp['bits'] >> k) & 1 for k in range(ny * nx)], dtype=bool).reshape(ny, nx)


def blur_oracle(a, size):
    ny, nx = a.shape
    out = numpy.zeros_like(a)
    for j in range(ny):
        for i in range(nx):
            out[j, i] = a[max(0, j - size):j + size + 1, max(0, i - size):i + size + 1].any()
    return out


def test_blur(inp):
    a = arr_of(inp)
    for size in (1, 2, 3):
        got = must(lambda: masking.blur_mask(a.copy(), size=size), 'blur_mask')
        if got.shape != a.shape or got.dtype != a.dtype or not numpy.array_equal(got, blur_oracle(a, size)):
            return f'blur_mask(size={size}) of {a.astype(int).tolist()} = {got.astype(int).tolist()}, expected {blur_oracle(a, size).astype(int).tolist()}'
    return None


def smear_oracle(a, pad_axes):
    ny, nx = a.shape
    dj, di = pad_axes
    out = numpy.zeros((ny + dj, nx + di), dtype=bool)
    for j in range(ny):
        for i in range(nx):
            if a[j, i]:
                for y in ((j, j + 1) if dj else (j,)):
                    for x in ((i, i + 1) if di else (i,)):
                        out[y, x] = True
    return out


def test_smear(inp):
    a = arr_of(inp)
    for pad in ([False, True], [True, False], [True, True], [False, False]):
        got = must(lambda: masking.smear_mask(a.copy(), pad), 'smear_mask')
        want = smear_oracle(a, pad)
        if got.shape != want.shape or not numpy.array_equal(got, want):
            return f'smear_mask({pad}) of {a.astype(int).tolist()} = {got.astype(int).tolist()}, expected {want.astype(int).tolist()}'
    return None


# --- clip masks ---------------------------------------------------------------------------------------------------------------

CLIP_SPECS = [
    {'conv': 'cf1d', 'ny': 4, 'nx': 5}, {'conv': 'cf1d', 'ny': 1, 'nx': 5, 'bounds': 'vars'},
    {'conv': 'cf2d', 'ny': 4, 'nx': 4, 'bounds': 'vars', 'holes': [[1, 1], [0, 3]]},
    {'conv': 'shoc_simple', 'ny': 3, 'nx': 5, 'bounds': 'vars'},
    {'conv': 'shoc_standard', 'ny': 4, 'nx': 3}, {'conv': 'shoc_standard', 'ny': 3, 'nx': 4, 'node_holes': [[0, 0]]},
    {'conv': 'ugrid', 'ny': 3, 'nx': 4}, {'conv': 'ugrid', 'ny': 3, 'nx': 4, 'split': [[0, 0], [2, 3]], 'tables': ['edge_node']},
    {'conv': 'ugrid', 'ny': 4, 'nx': 5, 'split': [[1, 1]], 'merge': [[2, 0]], 'tables': ['edge_node', 'face_edge'], 'start_index': 1},
    # coordinate arrays in column-major (Fortran) memory order: same values, dimensions and shapes
    {'conv': 'shoc_standard', 'ny': 3, 'nx': 4, 'fortran': True},
    # a mesh that stores its face-face table: rings are still "shares a node", corner neighbours included, not "shares an edge"
    {'conv': 'ugrid', 'ny': 3, 'nx': 4, 'split': [[1, 1]], 'tables': ['face_face'], 'start_index': 1},
    {'conv': 'ugrid', 'ny': 3, 'nx': 4, 'tables': ['edge_node', 'edge_face', 'face_face']},
    # meshes that list a node no face uses (and an edge to it that borders no face): never part of a clip, also when every face is kept
    {'conv': 'ugrid', 'ny': 2, 'nx': 3, 'orphan': True}, {'conv': 'ugrid', 'ny': 2, 'nx': 3, 'tables': ['edge_node'], 'start_index': 1, 'orphan': True},
]


def build(spec):
    spec = dict(spec)
    orphan = spec.pop('orphan', False)
    ds = datasets.build(spec)
    if orphan:
        si = spec.get('start_index', 0)
        n_old = ds.sizes['nMesh2_node']
        x1, y1 = float(ds['Mesh2_node_x'].max()) + 3.0, float(ds['Mesh2_node_y'].max()) + 3.0
        ds = ds.pad({'nMesh2_node': (0, 1)}, constant_values=0)
        ds['Mesh2_node_x'].values[-1], ds['Mesh2_node_y'].values[-1] = x1, y1
        if 'Mesh2_edge_nodes' in ds:
            attrs = {k: dict(ds[k].attrs) for k in ds.variables}
            ds = ds.pad({'nMesh2_edge': (0, 1)}, constant_values=0)
            for k, a in attrs.items():
                ds[k].attrs.update(a)
            ds['Mesh2_edge_nodes'].values[-1] = [n_old + si, 0 + si]
    return ds


def _shared_parts(polys):
    a, b = polys[len(polys) // 3], polys[-1]
    pa, pb = a.representative_point(), b.representative_point()
    r = min(a.bounds[2] - a.bounds[0], a.bounds[3] - a.bounds[1]) / 50
    return shapely.GeometryCollection([shapely.Point(pa.x, pa.y).buffer(r), shapely.Point(pa.x + r / 4, pa.y).buffer(r / 2),
                                       shapely.Point(pb.x, pb.y), shapely.Point(pb.x, pb.y + r / 10), a.centroid.buffer(r / 3)])


def geometries(ds):
    x0, y0, x1, y1 = ds.ems.bounds
    cx, cy = (x0 + x1) / 2, (y0 + y1) / 2
    w, h = (x1 - x0), (y1 - y0)
    polys = [p for p in ds.ems.polygons if p is not None]
    first = polys[0]
    inner = polys[len(polys) // 2]
    px, py = first.exterior.coords[0]
    return {
        'box centre': shapely.box(cx - w / 6, cy - h / 6, cx + w / 6, cy + h / 6),
        'everything': shapely.box(x0 - 1, y0 - 1, x1 + 1, y1 + 1),
        'corner touch': shapely.box(px - 0.5, py - 0.5, px, py),
        'edge hugging': shapely.box(x0 - 1, y0 - 1, x0 + w / 8, y1 + 1),
        'line': shapely.LineString([(x0, y0), (cx, cy + h / 5), (x1, cy)]),
        'point': shapely.Point(first.representative_point()),
        # a point exactly on a corner / on a side that several cells share: touching counts, every one of them is marked
        'point on a shared corner': shapely.Point(inner.exterior.coords[2]),
        'point on a shared side': shapely.Point((inner.exterior.coords[1][0] + inner.exterior.coords[2][0]) / 2, (inner.exterior.coords[1][1] + inner.exterior.coords[2][1]) / 2),
        'multi': shapely.MultiPolygon([shapely.box(x0, y0, x0 + w / 5, y0 + h / 5), shapely.box(x1 - w / 5, y1 - h / 5, x1, y1)]),
        'outside': shapely.box(x1 + 5, y1 + 5, x1 + 6, y1 + 6),
        # several parts inside / touching the same cells (a cell hit by two parts must still be selected once)
        'parts sharing cells': _shared_parts(polys),
        'collection': shapely.GeometryCollection([shapely.box(x0, y0, x0 + w / 5, y0 + h / 5), shapely.LineString([(cx, y0), (cx, y1)])]),
    }


def gen_clip(tier, seed):
    for spec in CLIP_SPECS:
        ds = build(spec)
        for gname in geometries(ds):
            for buffer in ((0, 1, 2) if tier == 'quick' else (0, 1, 2, 3)):
                yield {'spec': spec, 'geometry': gname, 'buffer': buffer}


def ring_grid(hit, buffer):
    return blur_oracle(hit, buffer) if buffer else hit


def test_clip(inp):
    ds = build(inp['spec'])
    spec = {k: v for k, v in inp['spec'].items() if k != 'orphan'}
    geom = geometries(ds)[inp['geometry']]
    ems = ds.ems
    polys = ems.polygons
    hit = numpy.array([p is not None and bool(shapely.intersects(p, geom)) for p in polys])
    buffer = inp['buffer']
    mask = must(lambda: ems.make_clip_mask(geom, buffer=buffer), 'make_clip_mask')
    shapes = datasets.expected_grids(spec)
    if spec['conv'] != 'ugrid':
        ny, nx = shapes['face']
        want = ring_grid(hit.reshape(ny, nx), buffer)
        name = 'face_mask' if spec['conv'] == 'shoc_standard' else 'cell_mask'
        got = mask[name].values
        if got.shape != want.shape or not numpy.array_equal(got, want):
            return f'{name} differs from intersecting cells + {buffer} rings: got {got.astype(int).tolist()}, expected {want.astype(int).tolist()}'
        if list(mask[name].dims) != list(ems.grid_dimensions[ems.default_grid_kind]):
            return f'{name} dims {mask[name].dims}'
        if spec['conv'] == 'shoc_standard':
            for kind, pad in (('left', [False, True]), ('back', [True, False]), ('node', [True, True])):
                w = smear_oracle(want, pad)
                g = mask[kind + '_mask'].values
                if g.shape != w.shape or not numpy.array_equal(g, w):
                    return f'{kind}_mask does not mark exactly the {kind}s of marked cells'
        # monotone in the buffer
        if buffer:
            smaller = ems.make_clip_mask(geom, buffer=buffer - 1)[name].values
            if (smaller & ~got).any():
                return 'enlarging the buffer unmarked a cell'
        return None
    # meshes
    node_x, node_y, faces = datasets.quad_tri_mesh(spec.get('ny', 2), spec.get('nx', 3), split=tuple(map(tuple, spec.get('split', ()))),
                                                   merge=tuple(map(tuple, spec.get('merge', ()))))
    edge_list, face_edges, edge_faces, face_faces = datasets.mesh_tables(faces)
    F = set(numpy.flatnonzero(hit).tolist())
    for _ in range(buffer):
        nodes = set(n for f in F for n in faces[f])
        F = {f for f in range(len(faces)) if f in F or nodes & set(faces[f])}
    keptF = sorted(F)
    nf = mask['new_face_index'].values
    if len(nf) != len(faces):
        return 'new_face_index has the wrong length'
    got_kept = [f for f in range(len(faces)) if numpy.isfinite(nf[f])]
    if got_kept != keptF:
        return f'kept faces {got_kept}, expected intersecting faces + {buffer} node-sharing rings {keptF}'
    if [int(nf[f]) for f in keptF] != list(range(len(keptF))):
        return f'kept faces are not renumbered contiguously in their original order: {[int(nf[f]) for f in keptF]}'
    keptN = sorted(set(n for f in keptF for n in faces[f]))
    nn = mask['new_node_index'].values
    if len(nn) != ds.sizes['nMesh2_node']:
        return 'new_node_index has the wrong length'
    gotN = [n for n in range(len(nn)) if numpy.isfinite(nn[n])]
    if gotN != keptN or [int(nn[n]) for n in keptN] != list(range(len(keptN))):
        return f'kept nodes / numbering wrong: {gotN} -> {[int(nn[n]) for n in gotN]}, expected {keptN} numbered in order'
    has_edges = 'edge' in shapes
    if has_edges != ('new_edge_index' in mask):
        return f'new_edge_index present={"new_edge_index" in mask} but the mesh has edges={has_edges}'
    if has_edges:
        # edges in the order of the file's own edge table
        topo = ems.topology
        en = numpy.asarray(topo.edge_node_array)
        file_edges = [frozenset(int(x) for x in row) for row in en]
        keptE = sorted(e for e, pair in enumerate(file_edges)
                       if any(pair == frozenset((a, b)) for f in keptF for a, b in zip(faces[f], faces[f][1:] + faces[f][:1])))
        ne = mask['new_edge_index'].values
        gotE = [e for e in range(len(file_edges)) if numpy.isfinite(ne[e])]
        if gotE != keptE or [int(ne[e]) for e in keptE] != list(range(len(keptE))):
            return f'kept edges / numbering wrong: {gotE}, expected the edges of kept faces {keptE} numbered in order'
    if buffer:
        smaller = ems.make_clip_mask(geom, buffer=buffer - 1)['new_face_index'].values
        if (numpy.isfinite(smaller) & ~numpy.isfinite(nf)).any():
            return 'enlarging the buffer dropped a face'
    return None


def key_clip(inp, detail):
    if 'renumbered contiguously in their original order' in detail and inp['buffer'] == 0 and inp['spec']['conv'] == 'ugrid':
        return 'clip_masks:ugrid-buffer0-face-order'
    return f"clip_masks:{inp['spec']['conv']}"


CHECKS = [
    Check('blur_exhaustive', gen_arrays, test_blur, key=lambda i, d: 'blur_mask',
          space='all boolean arrays ny x nx x sizes 1..3 against the eight-direction ring definition',
          bound='quick: all arrays up to 3x3 + every 97th 4x4 array; thorough: all arrays up to 4x4', exhaustive=False),
    Check('smear_exhaustive', gen_arrays, test_smear, key=lambda i, d: 'smear_mask',
          space='all boolean arrays ny x nx x the four padding patterns against "edge/node of a marked cell"',
          bound='quick: up to 3x3 + sampled 4x4; thorough: all up to 4x4', exhaustive=False),
    Check('clip_masks', gen_clip, test_clip, key=key_clip,
          space='9 datasets (all conventions, holes, mixed meshes, 1-based) x 9 clip geometries (box, all, corner touch, border, line, '
                'point, multi-part, outside, collection) x buffer 0..2(3): brute-force intersects + explicit rings; edge/node masks; '
                'mesh renumbering; monotone in the buffer', bound='243 (quick) / 324 (thorough) clips'),
]
