"""C10 bounded stand-in / replay: Mesh2DTopology on generated meshes in every encoding."""
from __future__ import annotations

import itertools
import warnings

import numpy

import emsarray  # noqa: F401
from emsarray.conventions.ugrid import Mesh2DTopology, NoEdgeDimensionException
from harness import datasets
from harness.common import Check, Failure, must

MESHES = [
    {'ny': 2, 'nx': 3, 'split': [[0, 0]], 'merge': []},                 # triangles + quads
    {'ny': 2, 'nx': 3, 'split': [[1, 2]], 'merge': [[0, 0]]},           # triangle, quads, hexagon
    {'ny': 1, 'nx': 1, 'split': [], 'merge': []},                       # one quad, boundary edges only
    {'ny': 2, 'nx': 2, 'split': [], 'merge': []},                       # uniform quads: no fill needed
    {'ny': 3, 'nx': 4, 'split': [[0, 0], [2, 3]], 'merge': [[1, 1]]},
]
TABLES = ['edge_node', 'face_edge', 'edge_face', 'face_face']


def rows(arr):
    return [[int(x) for x in numpy.ma.masked_array(r).compressed()] for r in arr]


def gen(tier, seed):
    subsets = [tuple(t for t, b in zip(TABLES, bits) if b) for bits in itertools.product((0, 1), repeat=4)]
    meshes = MESHES[:3] if tier == 'quick' else MESHES
    n = 0
    for mesh, si, fill, tr, tables in itertools.product(meshes, (0, 1), ('auto', 'nan', 'int_fill'), (False, True), subsets):
        n += 1
        for edge_dimension, coords_as, edge_order in ((True, 'vars', 'first-seen'), ('auto', 'coords', 'reverse'), (False, 'vars', 'reverse')):
            if edge_dimension is False and ({'edge_node', 'edge_face'} & set(tables)):
                continue        # an edge table implies the dimension
            if tier == 'quick' and (n + len(tables)) % 3 and edge_dimension != 'auto':
                continue
            yield {'mesh': mesh, 'start_index': si, 'fill': fill, 'transposed': tr, 'tables': list(tables),
                   'edge_dimension': edge_dimension, 'coords_as': coords_as, 'edge_order': edge_order}
    for mesh in meshes:     # a supplied edge-face table whose boundary edges are stored as [missing, face]; face-face derived from it
        for fill, si in (('int_fill', 0), ('nan', 1)):
            yield {'mesh': mesh, 'start_index': si, 'fill': fill, 'transposed': False, 'tables': ['edge_node', 'edge_face'], 'edge_dimension': 'auto',
                   'coords_as': 'vars', 'edge_order': 'first-seen', 'edge_face_missing_first': True}
    for mesh in meshes:     # tables with their own index base
        for fill in ('auto', 'nan'):
            yield {'mesh': mesh, 'start_index': 1, 'fill': fill, 'transposed': False, 'tables': ['edge_node', 'face_edge', 'edge_face', 'face_face'], 'edge_dimension': 'auto',
                   'coords_as': 'vars', 'edge_order': 'reverse', 'mixed_base': True}
    # meshes in which another dimension has size two as well and comes first (exactly two faces; two nodes per ... no: two faces): the
    # dimension of the edge tables is still 'Two', and supplied tables are used as given
    for mesh in ({'ny': 1, 'nx': 2, 'split': [], 'merge': []}, {'ny': 2, 'nx': 1, 'split': [], 'merge': []}):
        for tables in (['edge_node'], ['edge_node', 'edge_face'], ['edge_node', 'face_edge', 'edge_face', 'face_face']):
            yield {'mesh': mesh, 'start_index': 0, 'fill': 'auto', 'transposed': False, 'tables': tables, 'edge_dimension': 'auto',
                   'coords_as': 'vars', 'edge_order': 'reverse'}
    for mesh in meshes:     # unsigned index tables whose missing entries are the type's default fill value, named by a _FillValue attribute
        for si, tr, tables in ((0, False, []), (1, True, ['face_edge', 'face_face']), (1, False, ['edge_node', 'edge_face'])):
            yield {'mesh': mesh, 'start_index': si, 'fill': 'uint_fill', 'transposed': tr, 'tables': tables, 'edge_dimension': 'auto',
                   'coords_as': 'vars', 'edge_order': 'first-seen'}
    for mesh in meshes:     # an edge dimension named by the mesh on which no variable is defined (it has no size): every edge table is derived
        for orphan in (False, True):
            yield {'mesh': mesh, 'start_index': 0, 'fill': 'auto', 'transposed': False, 'tables': [], 'edge_dimension': True, 'edge_values': False,
                   'coords_as': 'vars', 'edge_order': 'first-seen', 'orphan': orphan}
    for mesh in meshes:     # other spellings
        yield {'mesh': mesh, 'start_index': None, 'fill': 'int_fill', 'transposed': False, 'tables': ['edge_node'], 'edge_dimension': 'auto',
               'coords_as': 'vars', 'edge_order': 'reverse', 'two_name': 'nv'}
        yield {'mesh': mesh, 'start_index': 1, 'fill': 'nan', 'transposed': False, 'tables': ['edge_node', 'edge_face'], 'edge_dimension': 'auto',
               'coords_as': 'coords', 'edge_order': 'reverse', 'edge_transposed': True, 'face_dimension_attr': False}


def gen_fill(tier, seed):
    """face_edge tables as xarray hands them over after decoding: float with NaN, the file's _FillValue kept in .encoding"""
    for mesh in MESHES[:2]:
        for si in (0, 1):
            for fv in (-1, 0, 1, 3, 'ne-1', 'ne+1', 99999):
                yield {'mesh': mesh, 'start_index': si, 'fill': 'nan', 'transposed': False, 'tables': ['face_edge'], 'edge_dimension': True,
                       'coords_as': 'vars', 'edge_order': 'reverse', 'encoding_fill': fv}


def test_fill(inp):
    ds, faces, node_x, node_y = build(inp)
    ref_edges, ref_fe, ref_ef, ref_ff = datasets.mesh_tables([list(f) for f in faces])
    ne = len(ref_edges)
    si = inp['start_index']
    fv = inp['encoding_fill']
    fv = {'ne-1': ne - 1 + si, 'ne+1': ne + 1 + si}.get(fv, fv)
    ds['Mesh2_face_edges'].encoding['_FillValue'] = fv
    given = [[ne - 1 - e for e in r] for r in ref_fe]
    with warnings.catch_warnings(record=True) as w:
        warnings.simplefilter('always')
        topo = Mesh2DTopology(ds)
        valid = topo.has_valid_face_edge_connectivity
        fe = must(lambda: topo.face_edge_array, 'face_edge_array')
    warned = any(issubclass(x.category, emsarray.exceptions.ConventionViolationWarning) for x in w)
    if fv < si or fv > ne + si:
        if not valid or warned:
            return f'_FillValue {fv} cannot be an edge index ({si}..{ne - 1 + si}) but the supplied table is rejected'
        if rows(fe) != given:
            return 'supplied face_edge table is not used as given'
    elif si <= fv <= ne - 1 + si:
        if valid or not warned:
            return f'_FillValue {fv} is a possible edge index ({si}..{ne - 1 + si}) but the table is accepted silently'
    return None


def build(inp):
    m = inp['mesh']
    kw = {k: inp[k] for k in ('start_index', 'fill', 'transposed', 'edge_dimension', 'coords_as', 'edge_order')}
    for k in ('two_name', 'edge_transposed', 'face_dimension_attr', 'edge_face_missing_first', 'edge_values'):
        if k in inp:
            kw[k] = inp[k]
    ds = datasets.ugrid(m['ny'], m['nx'], split=tuple(map(tuple, m['split'])), merge=tuple(map(tuple, m['merge'])), tables=tuple(inp['tables']),
                        face_coords=True, **kw)
    if inp.get('mixed_base'):
        # every table carries its own index base: the optional tables are rewritten zero-based without a start_index attribute
        # while the face-node table stays one-based (or the other way round)
        for name in ('Mesh2_edge_nodes', 'Mesh2_face_edges', 'Mesh2_edge_faces', 'Mesh2_face_links'):
            if name in ds.variables:
                v = ds[name]
                si = v.attrs.get('start_index', 0) or 0
                vals = v.values
                if vals.dtype.kind == 'f':
                    new = vals - si
                else:
                    fv = v.attrs.get('_FillValue')
                    new = numpy.where(vals == fv, vals, vals - si) if fv is not None else vals - si
                attrs = {k: a for k, a in v.attrs.items() if k != 'start_index'}
                enc = dict(v.encoding)
                ds[name] = (v.dims, new.astype(vals.dtype), attrs)
                ds[name].encoding.update(enc)
    node_x, node_y, faces = datasets.quad_tri_mesh(m['ny'], m['nx'], split=tuple(map(tuple, m['split'])), merge=tuple(map(tuple, m['merge'])))
    if inp.get('orphan'):
        # a node that no face uses (V - E + F is then not 1): the tables and counts are those of the faces all the same
        attrs = {k: dict(ds[k].attrs) for k in ds.variables}
        enc = {k: dict(ds[k].encoding) for k in ds.variables}
        ds = ds.pad({'nMesh2_node': (0, 1)}, constant_values=0)
        for k in attrs:
            ds[k].attrs.update(attrs[k])
            ds[k].encoding.update(enc[k])
        ds['Mesh2_node_x'].values[-1], ds['Mesh2_node_y'].values[-1] = float(node_x.max()) + 3.0, float(node_y.max()) + 3.0
        node_x, node_y = ds['Mesh2_node_x'].values.copy(), ds['Mesh2_node_y'].values.copy()
    return ds, faces, node_x, node_y


def test(inp):
    with warnings.catch_warnings():
        warnings.simplefilter('error', emsarray.exceptions.ConventionViolationWarning)
        ds, faces, node_x, node_y = build(inp)
        topo = must(lambda: Mesh2DTopology(ds), 'Mesh2DTopology(dataset)')
        fn = must(lambda: topo.face_node_array, 'face_node_array')
        maxn = max(len(f) for f in faces)
        if fn.shape != (len(faces), maxn):
            return f'face_node_array has shape {fn.shape}, expected {(len(faces), maxn)} (faces first)'
        if not numpy.issubdtype(fn.dtype, numpy.integer):
            return f'face_node_array has dtype {fn.dtype}'
        if rows(fn) != [list(f) for f in faces]:
            return f'face_node_array does not list the nodes of the mesh faces: {rows(fn)[:3]} vs {faces[:3]}'
        for f, nodes in enumerate(faces):
            if numpy.ma.getmaskarray(fn)[f].tolist() != [False] * len(nodes) + [True] * (maxn - len(nodes)):
                return f'face {f}: missing entries are not exactly the trailing ones'
        if topo.face_dimension != 'nMesh2_face' or topo.node_dimension != 'nMesh2_node' or topo.max_node_dimension != 'nMaxMesh2_face_nodes':
            return f'dimensions: face {topo.face_dimension!r} node {topo.node_dimension!r} max-node {topo.max_node_dimension!r}'
        if (topo.face_count, topo.node_count, topo.max_node_count) != (len(faces), len(node_x), maxn):
            return 'counts differ from the mesh'
        if topo.node_x.values.tobytes() != node_x.tobytes() or topo.node_y.values.tobytes() != node_y.tobytes():
            return 'node coordinates differ'
        if topo.face_x is None or topo.face_y is None:
            return 'face coordinates named by the mesh variable are not found'
        ref_edges, ref_fe, ref_ef, ref_ff = datasets.mesh_tables([list(f) for f in faces])
        has_edges = inp['edge_dimension'] is True or bool({'edge_node', 'edge_face'} & set(inp['tables']))
        if topo.has_edge_dimension != has_edges:
            return f'has_edge_dimension is {topo.has_edge_dimension}'
        if not has_edges:
            try:
                topo.edge_node_array
            except NoEdgeDimensionException:
                pass
            else:
                return 'edge_node_array without any edge dimension'
            if 'face_face' in inp['tables'] and sorted(map(sorted, rows(topo.face_face_array))) != sorted(map(sorted, ref_ff)) and \
                    [sorted(r) for r in rows(topo.face_face_array)] != [sorted(r) for r in ref_ff]:
                return 'supplied face_face table is not used as given'
            return None
        if topo.edge_dimension != 'nMesh2_edge':
            return f'edge dimension {topo.edge_dimension!r}'
        en = must(lambda: topo.edge_node_array, 'edge_node_array')
        fe = must(lambda: topo.face_edge_array, 'face_edge_array')
        ef = must(lambda: topo.edge_face_array, 'edge_face_array')
        ff = must(lambda: topo.face_face_array, 'face_face_array')
        ne = len(ref_edges)
        if en.shape != (ne, 2):
            return f'edge_node_array shape {en.shape}, the mesh has {ne} edges'
        if topo.edge_count != ne:
            return f'edge_count {topo.edge_count}'
        supplied_order = ref_edges[::-1] if inp['edge_order'] == 'reverse' else ref_edges
        if 'edge_node' in inp['tables']:
            if [sorted(r) for r in rows(en)] != [sorted(e) for e in supplied_order]:
                return 'supplied edge_node table is not used as given'
        edges = [frozenset(r) for r in rows(en)]
        if any(len(e) != 2 for e in edges) or len(set(edges)) != len(edges):
            return 'edge_node_array has degenerate or duplicate edges'
        if set(edges) != {frozenset(e) for e in ref_edges}:
            return 'edges are not exactly the consecutive node pairs of the faces'
        # Each table lives in an edge numbering: the file's (supplied tables), or the one edge_node_array has (derived from it).
        # A file that supplies face_edge / edge_face without edge_node leaves its numbering unspecified to the reader, so those
        # tables can only be "used as given"; derived tables must agree with the table they are derived from.
        file_index = {frozenset(e): k for k, e in enumerate(supplied_order)}
        en_index = {e: k for k, e in enumerate(edges)}
        fe_index = file_index if 'face_edge' in inp['tables'] else en_index
        ef_index = file_index if 'edge_face' in inp['tables'] else fe_index
        want_fe = [[fe_index[frozenset((a, b))] for a, b in zip(f, list(f[1:]) + [f[0]])] for f in faces]
        if fe.shape != (len(faces), maxn):
            return f'face_edge_array shape {fe.shape}'
        if rows(fe) != want_fe:
            return f"face_edge_array: a face's edges are not its consecutive node pairs ({'supplied' if 'face_edge' in inp['tables'] else 'derived'})"
        pairs = {k: e for e, k in ef_index.items()}
        want_ef = [sorted(f for f, nodes in enumerate(faces) if pairs[e] in {frozenset((a, b)) for a, b in zip(nodes, list(nodes[1:]) + [nodes[0]])})
                   for e in range(ne)]
        if ef.shape != (ne, 2):
            return f'edge_face_array shape {ef.shape}'
        if [sorted(r) for r in rows(ef)] != want_ef:
            return f"edge_face_array: an edge does not list exactly the faces that contain it ({'supplied' if 'edge_face' in inp['tables'] else 'derived'})"
        want_ff = [sorted(g for g in range(len(faces)) if g != f and
                          {frozenset(p) for p in zip(faces[f], list(faces[f][1:]) + [faces[f][0]])} &
                          {frozenset(p) for p in zip(faces[g], list(faces[g][1:]) + [faces[g][0]])}) for f in range(len(faces))]
        got_ff = [sorted(r) for r in rows(ff)]
        if got_ff != want_ff:
            return f"face_face_array: adjacency is not 'shares an edge' ({'supplied' if 'face_face' in inp['tables'] else 'derived'})"
        for f, r in enumerate(got_ff):
            for g in r:
                if f not in got_ff[g]:
                    return f'face_face_array is not symmetric: {f} -> {g}'
        for t, arr in (('edge_node', en), ('face_edge', fe), ('edge_face', ef), ('face_face', ff)):
            if not numpy.issubdtype(arr.dtype, numpy.integer):
                return f'{t}_array has dtype {arr.dtype}'
        # polygons do not depend on the encoding
        polys = must(lambda: ds.ems.polygons, 'polygons')
        for f, nodes in enumerate(faces):
            want = [(float(node_x[n]), float(node_y[n])) for n in nodes]
            got = list(polys[f].exterior.coords)[:-1]
            if got != want:
                return f'polygon {f} does not follow the face nodes'
    return None


def key(inp, detail):
    t = '+'.join(inp['tables']) or 'none'
    return f"topology:{detail.split(':')[0][:40]}"


CHECKS = [
    Check('topology', gen, test, key=key,
          space='generated meshes (triangles, quads, hexagons; boundary and interior edges) x {0,1,absent} start_index x {no fill, NaN, _FillValue} x '
                '{normal, transposed} x all 16 subsets of supplied tables (edges numbered first-seen or reversed) x edge dimension declared / implied / absent '
                'x coordinates as variables / coordinates',
          bound='meshes up to 3x4 cells'),
    Check('fill_range', gen_fill, test_fill, key=lambda i, d: 'fill-range',
          space='decoded face_edge tables with the file _FillValue in .encoding: below, inside, just above and far above the edge index range, 0- and 1-based',
          bound='2 meshes x 2 x 7 fill values'),
]
