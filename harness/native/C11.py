"""C11 bounded stand-in / replay: detection decision table on real datasets, registration orders, binding histories."""
from __future__ import annotations

import itertools

import numpy
import xarray

import emsarray
from emsarray import conventions
from emsarray.conventions import Convention, Specificity
from emsarray.conventions._registry import ConventionRegistry
from emsarray.state import State
from harness import datasets
from harness.common import Check, Failure, must, must_raise

BUILTIN = ['ArakawaC', 'CFGrid1D', 'CFGrid2D', 'ShocSimple', 'ShocStandard', 'UGrid']


def drop_attr(var, key):
    return ('drop_attr', var, key)


MODS = {
    'none': [],
}

VARIANTS = [
    ('cf1d', {'conv': 'cf1d'}, [], 'CFGrid1D'),
    ('cf1d standard_name', {'conv': 'cf1d', 'detect': 'standard_name'}, [], 'CFGrid1D'),
    ('cf1d axis', {'conv': 'cf1d', 'detect': 'axis'}, [], 'CFGrid1D'),
    ('cf1d no lat units', {'conv': 'cf1d'}, [('drop_attr', 'lat', 'units')], None),
    ('cf2d', {'conv': 'cf2d'}, [], 'CFGrid2D'),
    ('cf2d no lon', {'conv': 'cf2d'}, [('drop_var', 'lon')], None),
    ('cf2d with a 1-D longitude', {'conv': 'cf2d'}, [('coord_1d', 'lon', 'i')], None),
    ('cf2d with a 1-D latitude', {'conv': 'cf2d'}, [('coord_1d', 'lat', 'j')], None),
    ('shoc simple', {'conv': 'shoc_simple'}, [], 'ShocSimple'),
    ('shoc simple no ems_version', {'conv': 'shoc_simple'}, [('drop_global', 'ems_version')], 'CFGrid2D'),
    ('shoc standard', {'conv': 'shoc_standard'}, [], 'ShocStandard'),
    ('shoc standard no y_back', {'conv': 'shoc_standard'}, [('drop_var', 'y_back')], 'CFGrid2D'),
    ('shoc standard no x_grid', {'conv': 'shoc_standard'}, [('drop_var', 'x_grid')], 'CFGrid2D'),
    ('shoc simple with 1-D station positions listed first', {'conv': 'shoc_simple'}, [('prepend_stations', ['station_lat', 'station_lon'])], 'ShocSimple'),
    ('shoc simple with a 1-D station latitude listed first', {'conv': 'shoc_simple'}, [('prepend_stations', ['station_lat'])], 'ShocSimple'),
    ('ugrid', {'conv': 'ugrid'}, [], 'UGrid'),
    ('ugrid edges 1-based', {'conv': 'ugrid', 'tables': ['edge_node'], 'start_index': 1}, [], 'UGrid'),
    ('ugrid conventions list', {'conv': 'ugrid'}, [('set_global', 'Conventions', 'CF-1.6, UGRID-1.0')], 'UGrid'),
    ('ugrid no Conventions', {'conv': 'ugrid'}, [('drop_global', 'Conventions')], None),
    ('ugrid CF only', {'conv': 'ugrid'}, [('set_global', 'Conventions', 'CF-1.6')], None),
    ('ugrid marker as attribute name', {'conv': 'ugrid'}, [('set_global', 'Conventions', 'CF-1.6'), ('set_global', 'UGRID', 'yes')], None),
    ('ugrid no cf_role', {'conv': 'ugrid'}, [('drop_attr', 'Mesh2', 'cf_role')], None),
    ('ugrid topology_dimension 1', {'conv': 'ugrid'}, [('set_attr', 'Mesh2', 'topology_dimension', 1)], None),
    ('ugrid topology_dimension missing', {'conv': 'ugrid'}, [('drop_attr', 'Mesh2', 'topology_dimension')], None),
    ('ugrid topology_dimension "2"', {'conv': 'ugrid'}, [('set_attr', 'Mesh2', 'topology_dimension', '2')], None),
]


def build(spec, mods):
    ds = datasets.build(spec)
    if spec['conv'] == 'ugrid' and mods:
        # node coordinates without CF units, so a near-miss mesh is not (correctly) picked up as a generic CF grid
        for n in ('Mesh2_node_x', 'Mesh2_node_y'):
            ds[n].attrs.pop('units', None)
    for m in mods:
        if m[0] == 'drop_attr':
            ds[m[1]].attrs.pop(m[2], None)
        elif m[0] == 'set_attr':
            ds[m[1]].attrs[m[2]] = m[3]
        elif m[0] == 'drop_var':
            ds = ds.drop_vars(m[1])
        elif m[0] == 'drop_global':
            ds.attrs.pop(m[1], None)
        elif m[0] == 'set_global':
            ds.attrs[m[1]] = m[2]
        elif m[0] == 'coord_1d':
            # one of the two coordinates of a curvilinear grid replaced by a one-dimensional variable of the same name
            v = ds[m[1]]
            ds = ds.drop_vars(m[1])
            ds[m[1]] = xarray.DataArray(numpy.arange(ds.sizes[m[2]], dtype=float) + 100.0, dims=[m[2]], attrs=dict(v.attrs))
        elif m[0] == 'prepend_stations':
            # 1-D station positions stored ahead of everything else (first in dataset.variables)
            first = {n: xarray.DataArray(numpy.array([-20.5, -19.25, -18.0]) if 'lat' in n else numpy.array([150.5, 151.25, 152.0]), dims=['station'],
                                         attrs={'units': 'degrees_north' if 'lat' in n else 'degrees_east'}) for n in m[1]}
            rebuilt = xarray.Dataset(data_vars={**first, **{k: ds[k].variable for k in ds.data_vars}}, coords={k: ds[k].variable for k in ds.coords}, attrs=dict(ds.attrs))
            for k in ds.variables:
                rebuilt[k].encoding.update(ds[k].encoding)
            ds = rebuilt
    return ds


def gen_detect(tier, seed):
    for k, v in enumerate(VARIANTS):
        yield {'variant': k, 'name': v[0]}


def test_detect(inp):
    name, spec, mods, want = VARIANTS[inp['variant']]
    ds = build(spec, mods)
    got = must(lambda: emsarray.get_dataset_convention(ds), 'get_dataset_convention')
    gname = got.__name__ if got is not None else None
    if gname != want:
        return f'{name}: detected {gname}, expected {want}'
    again = emsarray.get_dataset_convention(build(spec, mods))
    if again is not got:
        return f'{name}: detection of an equal dataset gave {again}'
    if want is None:
        must_raise(lambda: ds.ems, f'{name}: accessor on an undetectable dataset', RuntimeError)
    else:
        if type(ds.ems) is not got:
            return f'{name}: accessor bound {type(ds.ems).__name__}'
    return None


def gen_constructed(tier, seed):
    for k, v in enumerate(VARIANTS):
        for how in ('ShocStandard', 'ArakawaC'):
            yield {'variant': k, 'name': v[0], 'how': how}


def test_constructed(inp):
    """a convention constructed by hand on another dataset, with coordinate names of its own, between two detections changes nothing"""
    from emsarray.conventions.arakawa_c import ArakawaC, ArakawaCGridKind
    from emsarray.conventions.shoc import ShocStandard
    name, spec, mods, want = VARIANTS[inp['variant']]
    first = must(lambda: emsarray.get_dataset_convention(build(spec, mods)), 'get_dataset_convention')
    defaults = dict(ShocStandard.coordinate_names)
    other = datasets.shoc_standard(2, 3).rename({'x_grid': 'x_node', 'y_grid': 'y_node'})
    names = {'face': ('y_centre', 'x_centre'), 'left': ('y_left', 'x_left'), 'back': ('y_back', 'x_back'), 'node': ('y_node', 'x_node')}
    klass = ShocStandard if inp['how'] == 'ShocStandard' else ArakawaC
    try:
        conv = must(lambda: klass(other, coordinate_names={ArakawaCGridKind(k): v for k, v in names.items()}), f'{inp["how"]}(other, coordinate_names=...)')
        if tuple(conv.coordinate_names[ArakawaCGridKind.node]) != ('y_node', 'x_node'):
            return 'the constructed convention does not use the names it was given'
        second = must(lambda: emsarray.get_dataset_convention(build(spec, mods)), 'get_dataset_convention afterwards')
        if second is not first:
            return f'{name}: detected {getattr(first, "__name__", None)} before and {getattr(second, "__name__", None)} after constructing {inp["how"]}(other dataset, coordinate_names=...)'
        if dict(ShocStandard.coordinate_names) != defaults:
            return 'the class-level default coordinate names of ShocStandard were modified by constructing an object'
    finally:
        if dict(ShocStandard.coordinate_names) != defaults:       # keep the later cases of this process independent of this one
            ShocStandard.coordinate_names.clear()
            ShocStandard.coordinate_names.update(defaults)
    return None


def make_toy(name, result):
    return type(name, (Convention,), {'check_dataset': classmethod(lambda cls, dataset: result),
                                      '__abstractmethods__': frozenset()})


def gen_reg(tier, seed):
    specs = [None, 'LOW', 'HIGH']
    for vi in (0, 6, 8, 11):
        for a, b in itertools.product(specs, specs):
            for order in (['A', 'B'], ['B', 'A']):
                yield {'variant': vi, 'A': a, 'B': b, 'order': order}
        for a, b in ((None, 'HIGH'), ('LOW', 'HIGH'), ('HIGH', None), (None, 35), (35, 1000)):
            for order in (['A', 'B'], ['B', 'A']):
                yield {'variant': vi, 'A': a, 'B': b, 'order': order, 'same_name': True}
        # check_dataset may answer any integer, not only the three named levels
        ints = [-5, 0, 9, 10, 11, 29, 30, 31, 35, 1000]
        for a, b in itertools.product(ints, ints):
            if tier == 'quick' and (a + b) % 3:
                continue
            for order in (['A', 'B'], ['B', 'A']):
                yield {'variant': vi, 'A': a, 'B': b, 'order': order}


def test_reg(inp):
    name, spec, mods, want_builtin = VARIANTS[inp['variant']]
    ds = build(spec, mods)
    reg = ConventionRegistry()
    val = {None: None, 'LOW': Specificity.LOW, 'HIGH': Specificity.HIGH}
    val.update({k: k for k in (inp['A'], inp['B']) if isinstance(k, int)})
    # same_name: two different classes with the same module and qualified name (products of one class factory, a re-run notebook cell)
    names = ('Toy', 'Toy') if inp.get('same_name') else ('ToyA', 'ToyB')
    toys = {'A': make_toy(names[0], val[inp['A']]), 'B': make_toy(names[1], val[inp['B']])}
    before = reg.guess_convention(ds)
    if (before.__name__ if before else None) != want_builtin:
        return f'fresh registry detects {before}'
    for k in inp['order']:
        reg.add_convention(toys[k])
    got = reg.guess_convention(ds)
    builtin_spec = {'CFGrid1D': 10, 'CFGrid2D': 10, 'ShocSimple': 30, 'ShocStandard': 30, 'UGrid': 30}.get(want_builtin)
    cands = [(toys[k], int(val[inp[k]])) for k in inp['order'] if val[inp[k]] is not None]
    if builtin_spec is not None:
        cands.append((want_builtin, builtin_spec))
    want = None
    for n, s in cands:
        if want is None or s > want[1]:
            want = (n, s)
    wcls = want[0] if want else None
    same = (got is wcls) if not isinstance(wcls, str) else (got is not None and got.__name__ == wcls)
    if not same:
        label = lambda x: None if x is None else (x if isinstance(x, str) else next((f'toy {k}' for k, t in toys.items() if t is x), getattr(x, '__name__', x)))
        return f'registered {inp["order"]} with A={inp["A"]}, B={inp["B"]} on {name}: chose {label(got)}, expected {label(wcls)}'
    return None


OPS = ['access', 'bind_new', 'copy', 'access_copy', 'bind_again']


def gen_hist(tier, seed):
    n = 4 if tier == 'quick' else 5
    for k in range(1, n + 1):
        for seq in itertools.product(OPS, repeat=k):
            yield {'seq': list(seq)}


def test_hist(inp):
    from emsarray.conventions import CFGrid1D
    ds = datasets.build({'conv': 'cf1d', 'ny': 2, 'nx': 2})
    dsets = {'orig': ds}
    attached = {}
    for step, op in enumerate(inp['seq']):
        if op == 'access':
            conv = must(lambda: dsets['orig'].ems, 'accessor')
            attached.setdefault('orig', conv)
            if conv is not attached['orig'] or conv.dataset is not dsets['orig']:
                return f'step {step}: access returned a different convention than the one first attached'
        elif op in ('bind_new', 'bind_again'):
            conv = CFGrid1D(dsets['orig'])
            if 'orig' in attached:
                must_raise(lambda: conv.bind(), f'step {step}: second attachment', ValueError)
            else:
                must(lambda: conv.bind(), 'first bind')
                attached['orig'] = conv
        elif op == 'copy':
            dsets['copy'] = dsets['orig'].copy()
            attached.pop('copy', None)
        elif op == 'access_copy':
            if 'copy' not in dsets:
                dsets['copy'] = dsets['orig'].copy()
            conv = must(lambda: dsets['copy'].ems, 'accessor on copy')
            attached.setdefault('copy', conv)
            if conv is not attached['copy'] or conv.dataset is not dsets['copy']:
                return f'step {step}: the copy does not keep its own convention'
            if 'orig' in attached and conv is attached['orig']:
                return f'step {step}: copy shares the convention object of the original'
    for k, conv in attached.items():
        if State.get(dsets[k]).convention is not conv:
            return f'final state of {k} does not hold the first attached convention'
    return None


CHECKS = [
    Check('detection', gen_detect, test_detect, key=lambda i, d: f"detection:{i['name']}",
          space='datasets of each convention and near-misses (one distinguishing attribute / variable removed or altered)',
          bound=f'{len(VARIANTS)} structural variants', exhaustive=True),
    Check('constructed_before', gen_constructed, test_constructed, key=lambda i, d: f"constructed:{i['name']}",
          space='every structural variant x a ShocStandard / ArakawaC object constructed by hand on another dataset with its own coordinate names between two detections',
          bound=f'{2 * len(VARIANTS)} cases', exhaustive=True),
    Check('registration', gen_reg, test_reg, key=lambda i, d: 'registration-order',
          space='4 datasets x two toy conventions with specificity {None, LOW, HIGH} x both registration orders',
          bound='72 cases', exhaustive=True),
    Check('histories', gen_hist, test_hist, key=lambda i, d: 'history',
          space='all sequences over {access, construct+bind, copy, access on copy, bind again}',
          bound='length <= 4 (quick, 780) / <= 5 (thorough, 3905)', exhaustive=True),
]
