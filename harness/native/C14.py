"""C14 bounded stand-in / replay: triangulate_dataset against an exact (rational arithmetic) oracle."""
from __future__ import annotations

import itertools
import random
import warnings
from fractions import Fraction

import numpy

import emsarray  # noqa: F401
from emsarray.operations.triangulate import triangulate_dataset
from harness import datasets
from harness.common import Check, Failure, must

F = Fraction

# rings (counter-clockwise unless noted), on an integer lattice scaled below; 3..8 sides, convex / reflex / collinear vertices
SHAPES = {
    'triangle': [(0, 0), (2, 0), (1, 2)],
    'square': [(0, 0), (2, 0), (2, 2), (0, 2)],
    'pentagon': [(0, 0), (2, 0), (3, 1), (1, 3), (-1, 1)],
    'hexagon': [(0, 0), (2, 0), (3, 1), (2, 2), (0, 2), (-1, 1)],
    'octagon': [(1, 0), (2, 0), (3, 1), (3, 2), (2, 3), (1, 3), (0, 2), (0, 1)],
    'dart': [(0, 0), (2, 1), (4, 0), (2, 4)],                                  # one reflex vertex (index 1)
    'dart-reflex-first': [(2, 1), (4, 0), (2, 4), (0, 0)],
    'notched pentagon': [(0, 0), (4, 0), (4, 4), (2, 1), (0, 4)],              # one reflex vertex
    'L': [(0, 0), (4, 0), (4, 2), (2, 2), (2, 4), (0, 4)],
    'U': [(0, 0), (6, 0), (6, 4), (4, 4), (4, 2), (2, 2), (2, 4), (0, 4)],     # two reflex vertices, 8 sides
    'collinear square': [(0, 0), (1, 0), (2, 0), (2, 2), (0, 2)],              # a vertex in the middle of an edge
    'collinear twice': [(0, 0), (1, 0), (2, 0), (3, 0), (3, 3), (0, 3)],
    'collinear non-sequential': [(0, 2), (0, 0), (2, 0), (2, 1), (1, 1)],
    'reflex + collinear': [(0, 0), (2, 0), (4, 0), (4, 4), (2, 1), (0, 4)],
    'star4': [(0, 0), (3, 2), (6, 0), (4, 3), (6, 6), (3, 4), (0, 6), (2, 3)],
}


def place(ring, k, cw, rot, scale=0.37):
    """shape k of a row: translated, rotated start, optional clockwise, awkward (non-representable) scale"""
    ring = ring[rot % len(ring):] + ring[:rot % len(ring)]
    if cw:
        ring = ring[::-1]
    return [(100.0 + 8.0 * k + x * scale, -10.0 + y * scale * 1.3) for x, y in ring]


def mesh_of(names, cw, rot):
    node_x, node_y, faces = [], [], []
    for k, name in enumerate(names):
        pts = place(SHAPES[name], k, cw, rot + k)
        base = len(node_x)
        node_x += [p[0] for p in pts]
        node_y += [p[1] for p in pts]
        faces.append(list(range(base, base + len(pts))))
    return numpy.array(node_x), numpy.array(node_y), faces


def gen(tier, seed):
    names = list(SHAPES)
    groups = [names[i:i + 5] for i in range(0, len(names), 5)] + [['dart', 'square', 'U'], ['triangle'], ['star4', 'triangle', 'collinear square', 'octagon']]
    for g, cw, rot in itertools.product(groups, (False, True), (0, 1, 2, 3)):
        if tier == 'quick' and rot == 3:
            continue
        yield {'kind': 'mesh', 'shapes': g, 'cw': cw, 'rot': rot}
    for spec in ({'conv': 'cf1d', 'ny': 3, 'nx': 4}, {'conv': 'cf2d', 'ny': 3, 'nx': 4, 'bounds': 'vars', 'holes': [[0, 1], [1, 1]]},
                 {'conv': 'shoc_standard', 'ny': 3, 'nx': 3, 'node_holes': [[0, 0]]}, {'conv': 'ugrid', 'ny': 2, 'nx': 3, 'split': [[0, 0]], 'merge': [[1, 0]]}):
        yield {'kind': 'dataset', 'spec': spec}
    # the same vertex stored once as -0.0 and once as +0.0 (independently written cell bounds): one vertex, not two
    yield {'kind': 'signed-zero'}
    # holes before a concave cell (grid whose bounds are edited: cell (1, 2) becomes a dart, cells (0, 1) and (1, 0) have no geometry)
    for dart_rot in (0, 1, 2, 3):
        yield {'kind': 'grid-dart', 'rot': dart_rot}


def build(inp):
    warnings.simplefilter('ignore')
    if inp['kind'] == 'mesh':
        nx, ny, faces = mesh_of(inp['shapes'], inp['cw'], inp['rot'])
        return datasets.ugrid(mesh=(nx, ny, faces), extra=False, fill='int_fill')
    if inp['kind'] == 'dataset':
        return datasets.build(inp['spec'])
    if inp['kind'] == 'signed-zero':
        ds = datasets.build({'conv': 'cf1d', 'ny': 2, 'nx': 3, 'bounds': 'vars'})
        lb = ds['lon_bnds'].values.copy()
        e = lb[0, 1]
        lb = lb - e
        lb[0, 1], lb[1, 0] = -0.0, 0.0
        lon = ds['lon'].values - e
        ds = ds.assign_coords(lon=('lon', lon, ds['lon'].attrs))
        ds['lon_bnds'] = (ds['lon_bnds'].dims, lb, ds['lon_bnds'].attrs)
        return ds
    ds = datasets.cf2d(3, 4, bounds='vars', holes=((0, 1), (1, 0)), skew=0.0)
    ring = place(SHAPES['dart'], 0, False, inp['rot'], scale=0.2)
    lon_b, lat_b = ds['lon_bnds'].values.copy(), ds['lat_bnds'].values.copy()
    x0, y0 = lon_b[1, 2].min(), lat_b[1, 2].min()
    for k, (x, y) in enumerate(ring):
        lon_b[1, 2, k] = x0 + (x - 100.0)
        lat_b[1, 2, k] = y0 + (y + 10.0)
    ds['lon_bnds'] = (ds['lon_bnds'].dims, lon_b, ds['lon_bnds'].attrs)
    ds['lat_bnds'] = (ds['lat_bnds'].dims, lat_b, ds['lat_bnds'].attrs)
    return ds


def area2(pts):
    """twice the signed area, exact"""
    s = F(0)
    for (x0, y0), (x1, y1) in zip(pts, pts[1:] + pts[:1]):
        s += F(x0) * F(y1) - F(x1) * F(y0)
    return s


def orient(a, b, c):
    return (F(b[0]) - F(a[0])) * (F(c[1]) - F(a[1])) - (F(b[1]) - F(a[1])) * (F(c[0]) - F(a[0]))


def proper_cross(p, q, a, b):
    """segments pq and ab cross at a point interior to both"""
    d1, d2, d3, d4 = orient(p, q, a), orient(p, q, b), orient(a, b, p), orient(a, b, q)
    return (d1 > 0) != (d2 > 0) and d1 != 0 and d2 != 0 and (d3 > 0) != (d4 > 0) and d3 != 0 and d4 != 0


def inside_or_on(pt, ring):
    """exact point-in-polygon (boundary counts as inside)"""
    x, y = F(pt[0]), F(pt[1])
    inside = False
    for a, b in zip(ring, ring[1:] + ring[:1]):
        ax, ay, bx, by = F(a[0]), F(a[1]), F(b[0]), F(b[1])
        if orient(a, b, (x, y)) == 0 and min(ax, bx) <= x <= max(ax, bx) and min(ay, by) <= y <= max(ay, by):
            return True
        if (ay > y) != (by > y):
            t = ax + (y - ay) * (bx - ax) / (by - ay)
            if t > x:
                inside = not inside
    return inside


def test(inp):
    ds = build(inp)
    with warnings.catch_warnings():
        warnings.simplefilter('ignore')
        polys = ds.ems.polygons
        vertices, triangles, cells = must(lambda: triangulate_dataset(ds), 'triangulate_dataset')
    vertices, triangles, cells = numpy.asarray(vertices), numpy.asarray(triangles), numpy.asarray(cells)
    if len(triangles) != len(cells):
        return f'{len(triangles)} triangles but {len(cells)} cell indexes'
    for what, arr in (('triangle vertex indexes', triangles), ('cell indexes', cells)):
        if arr.size and (arr.dtype.kind not in 'iu' and not (arr.dtype.kind == 'f' and numpy.isfinite(arr).all() and (arr == numpy.floor(arr)).all())):
            return f'the {what} are not integers (dtype {arr.dtype}, e.g. {arr.ravel()[~numpy.isfinite(arr.ravel().astype(float))][:1].tolist() or arr.ravel()[:1].tolist()})'
    if len(triangles) and (triangles.min() < 0 or triangles.max() >= len(vertices)):
        return 'a triangle refers to a vertex that does not exist'
    if len(cells) and (cells.min() < 0 or cells.max() >= len(polys)):
        return 'a triangle refers to a cell that does not exist'
    vs = [tuple(map(float, v)) for v in vertices]
    if len(set(vs)) != len(vs):
        return 'the vertex list holds a vertex twice'
    by_cell = {}
    for t, cidx in zip(triangles, cells):
        by_cell.setdefault(int(cidx), []).append([vs[int(k)] for k in t])
    for n, poly in enumerate(polys):
        tris = by_cell.pop(n, [])
        if poly is None:
            if tris:
                return f'cell {n} has no geometry but {len(tris)} triangle(s)'
            continue
        ring = [tuple(map(float, p)) for p in poly.exterior.coords[:-1]]
        if len(tris) != len(ring) - 2:
            return f'cell {n} ({len(ring)} sides): {len(tris)} triangles, expected {len(ring) - 2}'
        a_poly = area2(ring)
        total = F(0)
        ringset = set(ring)
        for tri in tris:
            if any(p not in ringset for p in tri):
                return f'cell {n}: a triangle uses a point that is not a vertex of the cell'
            a = area2(list(tri))
            if a == 0:
                return f'cell {n}: a triangle has no area (its vertices are collinear)'
            total += abs(a)
            # inside: no edge of the triangle crosses an edge of the cell, and its edge midpoints and centroid lie in the cell
            for p, q in zip(tri, tri[1:] + tri[:1]):
                if any(proper_cross(p, q, a_, b_) for a_, b_ in zip(ring, ring[1:] + ring[:1])):
                    return f'cell {n}: a triangle edge crosses the boundary of the cell (the triangle is not inside it)'
                mid = ((F(p[0]) + F(q[0])) / 2, (F(p[1]) + F(q[1])) / 2)
                if not inside_or_on(mid, ring):
                    return f'cell {n}: a triangle edge runs outside the cell'
            cen = (sum(F(p[0]) for p in tri) / 3, sum(F(p[1]) for p in tri) / 3)
            if not inside_or_on(cen, ring):
                return f'cell {n}: a triangle lies outside the cell'
        if total != abs(a_poly):
            return f'cell {n}: triangle areas sum to {float(total) / 2:.6g}, the cell has area {float(abs(a_poly)) / 2:.6g} (overlap or gap)'
    if by_cell:
        return f'triangles name cells that do not exist: {sorted(by_cell)}'
    used = {int(k) for t in triangles for k in t}
    return None


def key(inp, detail):
    return f"triangulate:{inp['kind']}:{detail.split(':')[0][:40]}"


CHECKS = [
    Check('triangulate', gen, test, key=key,
          space='15 ring shapes (3..8 sides; convex, one / two / four reflex vertices, collinear vertices sequential and not) x clockwise / anticlockwise x '
                '4 starting vertices, grouped into meshes; 4 convention datasets incl. holes; a grid with holes ahead of a dart-shaped cell; '
                'exact rational oracle: counts, vertex membership, containment, area sum, no duplicates, valid indexes', bound='about 50 datasets'),
]
