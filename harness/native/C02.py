"""C02 bounded stand-in / replay: position n denotes the same cell in polygons, centres, flattened data, selectors, spatial index."""
from __future__ import annotations

import warnings

import numpy
import shapely
import xarray

import emsarray
from harness import datasets
from harness.common import Check, Failure, must
from harness.native.C06 import corners_oracle

SPECS = [
    {'conv': 'cf1d', 'ny': 3, 'nx': 4}, {'conv': 'cf1d', 'ny': 2, 'nx': 5, 'bounds': 'vars', 'descending_lat': True},
    {'conv': 'cf2d', 'ny': 4, 'nx': 3, 'holes': [[0, 0], [1, 1]]}, {'conv': 'cf2d', 'ny': 3, 'nx': 4, 'bounds': 'vars', 'holes': [[0, 1], [2, 2]]},
    {'conv': 'shoc_simple', 'ny': 3, 'nx': 4, 'bounds': 'vars', 'holes': [[1, 0]]},
    {'conv': 'shoc_standard', 'ny': 3, 'nx': 4, 'node_holes': [[0, 0], [2, 2]]}, {'conv': 'shoc_standard', 'ny': 4, 'nx': 2},
    {'conv': 'ugrid', 'ny': 2, 'nx': 3, 'split': [[0, 1]], 'tables': ['edge_node'], 'start_index': 1},
    {'conv': 'ugrid', 'ny': 3, 'nx': 3, 'split': [[0, 0]], 'merge': [[1, 0]], 'face_coords': True},
    # decreasing axes without stored bounds (latitude north to south): cell edges are synthesised, in the order of the axis
    {'conv': 'cf1d', 'ny': 4, 'nx': 3, 'descending_lat': True}, {'conv': 'cf1d', 'ny': 3, 'nx': 4, 'descending_lon': True, 'nonuniform': True},
    # bounds whose grid dimensions are stored the other way round than latitude / longitude (non-square grid)
    {'conv': 'cf2d', 'ny': 3, 'nx': 4, 'bounds': 'vars', 'bounds_transposed': True},
    # the longitude variable stored (x, y) while the latitude variable is stored (y, x): the grid is the latitude variable's, cell (j, i) has
    # latitude lat[j, i] and longitude lon[i, j]; square (nothing fails on shape) and non-square, with stored and with synthesised corners
    {'conv': 'cf2d', 'ny': 3, 'nx': 3, 'lon_transposed': True}, {'conv': 'cf2d', 'ny': 2, 'nx': 4, 'lon_transposed': True, 'holes': [[1, 2]]},
    {'conv': 'cf2d', 'ny': 3, 'nx': 3, 'lon_transposed': True, 'bounds': 'vars'},
    {'conv': 'shoc_standard', 'ny': 3, 'nx': 3, 'x_transposed': ['x_grid', 'x_centre']}, {'conv': 'shoc_standard', 'ny': 2, 'nx': 4, 'x_transposed': ['x_grid']},
    # a 0..360 longitude grid across the antimeridian: positions, centres and polygons all in the dataset's own longitudes
    {'conv': 'cf1d', 'ny': 2, 'nx': 5, 'origin': [165.0, -20.0], 'step': [10.0, 1.0]}, {'conv': 'cf1d', 'ny': 2, 'nx': 4, 'origin': [175.0, -20.0], 'step': [5.0, 1.0], 'bounds': 'vars'},
    # a zero-based mesh without a start_index attribute (zero-based is the default) whose node 0 is used by no face
    {'conv': 'ugrid', 'ny': 2, 'nx': 3, 'split': [[0, 1]], 'face_coords': True, 'orphan_first': True},
    # the face-node table stored (max nodes, faces), the Fortran / FVCOM layout, with mixed triangles and quadrilaterals
    {'conv': 'ugrid', 'ny': 2, 'nx': 3, 'split': [[0, 1]], 'face_coords': True, 'latitude_first': True},
    {'conv': 'ugrid', 'ny': 2, 'nx': 3, 'split': [[0, 1]], 'transposed': True}, {'conv': 'ugrid', 'ny': 3, 'nx': 2, 'split': [[1, 1]], 'transposed': True, 'start_index': 1},
]


def gen(tier, seed):
    for s in SPECS:
        yield {'spec': s}


def test(inp):
    spec = inp['spec']
    if spec.get('orphan_first'):
        spec = {k: v for k, v in spec.items() if k != 'orphan_first'}
        nx_, ny_, faces_ = datasets.quad_tri_mesh(spec['ny'], spec['nx'], split=tuple(map(tuple, spec.get('split', ()))))
        mesh = (numpy.concatenate([[nx_.max() + 5.0], nx_]), numpy.concatenate([[ny_.max() + 5.0], ny_]), [[n + 1 for n in f] for f in faces_])
        ds = datasets.ugrid(spec['ny'], spec['nx'], mesh=mesh, start_index=None, face_coords=True)
    else:
        ds = datasets.build(spec)
    ems = ds.ems
    with warnings.catch_warnings():
        warnings.simplefilter('ignore')
        polys = must(lambda: ems.polygons, 'polygons of a valid dataset')
    if spec.get('bounds_transposed'):
        # such bounds do not describe the coordinate's grid: the cells are the ones synthesised from the centres, in the order of the centres
        want = corners_oracle({k: v for k, v in spec.items() if k not in ('bounds', 'bounds_transposed')})
    else:
        want = corners_oracle(spec)
    if spec.get('latitude_first'):
        # the first-listed coordinate variable (latitude here) is the first coordinate of every vertex
        want = [None if r is None else [(y, x) for x, y in r] for r in want]
    shapes = datasets.expected_grids(spec)
    ny_nx = shapes['face']
    size = int(numpy.prod(ny_nx))
    if len(polys) != size:
        return f'{len(polys)} polygons for {size} cells'
    # a face variable whose value is its own linear index, with an extra dimension and permuted dimension order
    fdims = list(ems.grid_dimensions[ems.default_grid_kind])
    lin = numpy.arange(size, dtype=float).reshape(ny_nx)
    v = xarray.DataArray(numpy.stack([lin, lin + 0.5]), dims=['extra'] + fdims)
    vt = v.transpose(*(fdims[::-1] + ['extra']))
    r = must(lambda: ems.ravel(vt), 'ravel')
    if list(r.dims) != ['extra', 'index'] or not numpy.array_equal(r.values[0], numpy.arange(size)):
        return f'ravel of a dimension-permuted variable does not list the cells in linear order: {r.values[0].tolist()}'
    if len(fdims) == 2:
        bare = xarray.DataArray(lin.T.copy(), dims=fdims[::-1])          # only the grid dimensions, stored in the other order
        rb = must(lambda: ems.ravel(bare), 'ravel')
        if not numpy.array_equal(rb.values, numpy.arange(size)):
            return f'ravel of a variable stored as {tuple(fdims[::-1])} does not list the cells in linear order: {rb.values.tolist()}'
    centres = must(lambda: ems.face_centres, 'face_centres')
    if centres.shape != (size, 2):
        return f'face_centres shape {centres.shape}'
    ds2 = ds.assign(linear_marker=(fdims, lin))
    ems2 = ds2.ems
    for n in range(size):
        idx = ems.wind_index(n)
        sel = must(lambda: ems2.select_index(idx), f'select_index({idx})')
        if float(sel['linear_marker'].values) != n:
            return f'select_index(wind_index({n})) returned the value of cell {float(sel["linear_marker"].values)}'
        p, c = polys[n], want[n]
        if c is not None and not shapely.Polygon(c).is_valid:
            c = None
        if (p is None) != (c is None):
            return f'cell {n}: polygon presence does not match the coordinates of cell {n}'
        if p is not None:
            got = list(p.exterior.coords)[:-1]
            if len(got) != len(c) or not numpy.allclose(numpy.array(got), numpy.array(c), rtol=0, atol=1e-12):
                return f'polygon at position {n} is not built from the coordinates of cell {n}'
            cx, cy = centres[n]
            if numpy.isfinite(cx) and not p.buffer(1e-9).contains(shapely.Point(cx, cy)):
                return f'face centre {n} = ({cx}, {cy}) lies outside polygon {n}'
            hits = ems.strtree.query(p.representative_point(), predicate='intersects')
            if n not in hits.tolist():
                return f'spatial index does not report position {n} for a point inside polygon {n} (hits {hits.tolist()})'
            for h in hits.tolist():
                if polys[h] is None or not polys[h].intersects(p.representative_point()):
                    return f'spatial index hit {h} is not a position whose polygon contains the point'
    # other grid kinds: flattened data and selection agree
    for kind in ems.grid_kinds:
        name = getattr(kind, 'value', kind)
        kdims = list(ems.grid_dimensions[kind])
        shape = shapes[name] if not inp['spec'].get('orphan_first') or name != 'node' else tuple(ds.sizes[d] for d in kdims)
        ksize = int(numpy.prod(shape))
        kv = xarray.DataArray(numpy.arange(ksize, dtype=float).reshape(shape), dims=kdims)
        rr = must(lambda: ems.ravel(kv), f'ravel on {name}')
        if not numpy.array_equal(rr.values, numpy.arange(ksize)):
            return f'ravel on grid kind {name} is not row-major'
        ds3 = ds.assign(kind_marker=(kdims, kv.values))
        for n in list(range(min(ksize, 6))) + ([ksize - 1] if ksize else []):
            idx = ds3.ems.wind_index(n, grid_kind=kind)
            got = float(ds3.ems.select_index(idx)['kind_marker'].values)
            if got != n:
                return f'{name}: select_index(wind_index({n})) returned the value of location {got}'
    # deprecated spatial_index items carry linear positions of the full array
    with warnings.catch_warnings():
        warnings.simplefilter('ignore')
        try:
            items = ems.spatial_index.items
        except Exception as e:
            return f'spatial_index raised {type(e).__name__}: {e}'
    for geom, item in items:
        if polys[item.linear_index] is None or not polys[item.linear_index].equals(geom) or tuple(item.index) != tuple(ems.wind_index(item.linear_index)):
            return f'spatial_index item with linear_index {item.linear_index} does not describe that cell'
    return None


CHECKS = [Check('one_order', gen, test, key=lambda i, d: f"one_order:{i['spec']['conv']}",
                space='9 datasets (every convention, holes before and between cells, skewed cells, mixed meshes) x every cell: polygon, '
                      'face centre, flattened (dimension-permuted) data, select_index, spatial-index hits, deprecated spatial_index items; '
                      'every grid kind for ravel / select', bound='9 datasets, <= 12 cells each')]
