"""Stand-in for the optional ``cfunits`` package (its UDUNITS-2 C library is absent in this sandbox).
emsarray.transect imports it at module level and uses it only to format axis labels when plotting."""


class Units:
    def __init__(self, units=None, calendar=None, formatted=False, names=False, definition=False, _ut_unit=None):
        self.units = units
        self.calendar = calendar

    def formatted(self, names=None, definition=None):
        return None if self.units is None else str(self.units)

    def __repr__(self):
        return f'<Units: {self.units}>'

    def __str__(self):
        return '' if self.units is None else str(self.units)
