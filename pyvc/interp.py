"""Symbolic AST interpreter for the Python subset used by emsarray.

Values are ordinary Python objects, pyvc.core symbolic scalars, library-model
objects (pyvc.lib.*) or the small object model defined here (Func, Obj,
EnumMember, ModuleRef).  Control flow on symbolic conditions forks through
``core.truth``.
"""
from __future__ import annotations

import ast
import builtins as _bi
import operator
from typing import Any

import z3

from . import core
from .core import (ExcObj, Maybe, PyRaise, SBool, SInt, SReal, SStr, SVal, Sym,
                   Unsupported, is_sym, mk_bool, mk_int, resolve_maybe, s_and,
                   s_eq, s_ite, s_not, s_or, truth, truthy)
from .loader import ClassInfo, Loader, ModuleInfo

# --------------------------------------------------------------------------
# object model


class _Return(Exception):
    def __init__(self, value):
        self.value = value


class _Break(Exception):
    pass


class _Continue(Exception):
    pass


class CutPoint(Exception):
    """Execution reached a statement the scenario asked to stop at (an intermediate assertion point): carries the statement and the
    environment of the frame, so that obligations can be stated over the local variables as they are just before the statement."""

    def __init__(self, st, env):
        super().__init__('cut point')
        self.st, self.env = st, env


class Env:
    __slots__ = ('vars', 'parent', 'module', 'nonlocals', 'globals_', 'cls', 'self_obj', '_born')

    def __init__(self, module, parent=None, cls=None, self_obj=None):
        self.vars = {}
        self._born = core._clock()
        self.parent = parent
        self.module = module
        self.nonlocals = set()
        self.globals_ = set()
        self.cls = cls            # defining class, for zero-argument super()
        self.self_obj = self_obj

    def lookup(self, name):
        e = self
        while e is not None:
            if name in e.vars:
                return e.vars[name]
            e = e.parent
        raise KeyError(name)

    def find_scope(self, name):
        e = self.parent
        while e is not None:
            if name in e.vars:
                return e
            e = e.parent
        return None


class Func:
    """An interpreted function (def or lambda)."""

    def __init__(self, interp, node, module, closure=None, cls=None, qualname=None):
        self.interp = interp
        self.node = node
        self.module = module
        self.closure = closure
        self.cls = cls
        self.name = getattr(node, 'name', '<lambda>')
        self.qualname = qualname or self.name
        self.kind = 'function'       # function | property | cached_property | classmethod | staticmethod
        self.events = []             # e.g. ('deprecated', msg)
        self.unsupported_decorator = None
        self.is_generator = False
        self.is_contextmanager = False
        self.__name__ = self.name
        self.__qualname__ = self.qualname
        self.__module__ = module.name

    def __repr__(self):
        return f'<Func {self.module.name}:{self.qualname}>'

    def __call__(self, *args, **kwargs):
        return self.interp.call_func(self, list(args), dict(kwargs))

    def __get__(self, obj, objtype=None):
        return self


class BoundMethod:
    def __init__(self, func, self_obj):
        self.func = func
        self.self_obj = self_obj
        self.__name__ = func.name

    def __call__(self, *args, **kwargs):
        return self.func.interp.call_func(self.func, [self.self_obj] + list(args), dict(kwargs))

    def __repr__(self):
        return f'<bound {self.func.qualname}>'


class Obj:
    """Instance of an interpreted (emsarray) class."""

    def __init__(self, cls: ClassInfo):
        self.cls = cls
        self.attrs = {}
        self._born = core._clock()

    def __repr__(self):
        return f'<{self.cls.name} object>'


class EnumMember:
    def __init__(self, cls, name, value):
        self.cls = cls
        self.name = name
        self.value = value

    def __repr__(self):
        return f'<{self.cls.name}.{self.name}: {self.value!r}>'

    def __str__(self):
        return f'{self.cls.name}.{self.name}'

    def _mixin(self):
        for b in self.cls.bases:
            if b in (str, int):
                return b
            if getattr(b, '__name__', '') == 'IntEnum':
                return int
        return None

    def __eq__(self, other):
        if self is other:
            return True
        if isinstance(other, EnumMember):
            return False
        if self._mixin() is not None and isinstance(other, (str, int)):
            return self.value == other
        return False

    def __ne__(self, other):
        return not self.__eq__(other)

    def __hash__(self):
        if self._mixin() is not None:
            return hash(self.value)
        return id(self)

    def __lt__(self, other):
        return self.value < (other.value if isinstance(other, EnumMember) else other)

    def __le__(self, other):
        return self.value <= (other.value if isinstance(other, EnumMember) else other)

    def __gt__(self, other):
        return self.value > (other.value if isinstance(other, EnumMember) else other)

    def __ge__(self, other):
        return self.value >= (other.value if isinstance(other, EnumMember) else other)

    def __int__(self):
        return int(self.value)

    def __index__(self):
        return int(self.value)


class ModuleRef:
    def __init__(self, interp, mod: ModuleInfo):
        self._interp = interp
        self._mod = mod

    def __repr__(self):
        return f'<module {self._mod.name}>'


class GenCM:
    """Result of calling a @contextlib.contextmanager generator function: used by ``with``."""

    def __init__(self, interp, func, args, kwargs):
        self.interp, self.func, self.args, self.kwargs = interp, func, args, kwargs

    def run(self, body):
        it, f = self.interp, self.func
        env = Env(f.module, parent=f.closure or None, cls=f.cls)
        env.vars['$qualname'] = f.qualname        # for the __qualname__ of classes defined in this body
        it.bind_args(f, f.node.args, self.args, self.kwargs, env)
        env.vars['$cm_body'] = body
        env.vars['$cm_yielded'] = [0]
        it.call_depth += 1
        try:
            try:
                it.exec_block(f.node.body, env)
            except _Return:
                pass
        finally:
            it.call_depth -= 1
        if env.vars['$cm_yielded'][0] != 1:
            raise Unsupported('contextmanager generator did not yield exactly once')


class SuperProxy:
    def __init__(self, cls, obj):
        self.cls = cls
        self.obj = obj


class Opaque:
    """A value the executor carries around but never looks into (messages, loggers...)."""

    def __init__(self, what='opaque'):
        self.what = what

    def __repr__(self):
        return f'<{self.what}>'

    def __str__(self):
        return f'<{self.what}>'

    def __format__(self, spec):
        return f'<{self.what}>'


class Dummy:
    """typing / abc placeholders: subscriptable, callable, attribute-transparent."""

    def __init__(self, name='dummy'):
        self._name = name

    def __getitem__(self, item):
        return self

    def __call__(self, *a, **k):
        if len(a) == 1 and not k and isinstance(a[0], (Func, ClassInfo)):
            return a[0]
        return self

    def __getattr__(self, item):
        if item.startswith('__'):
            raise AttributeError(item)
        return Dummy(f'{self._name}.{item}')

    def __or__(self, other):
        return self

    def __ror__(self, other):
        return self

    def __repr__(self):
        return f'<Dummy {self._name}>'


def model(fn):
    """Mark a Python callable as a library model (its Python exceptions are checker errors)."""
    fn._pyvc_model = True
    return fn


REAL_EXC = (KeyError, IndexError, ValueError, TypeError, StopIteration, AttributeError,
            ZeroDivisionError, OverflowError, RuntimeError, NotImplementedError, OSError,
            AssertionError)

IDENTITY_DECORATORS = {
    'abc.abstractmethod', 'abstractmethod', 'utils.timed_func', 'timed_func', '_requires_plot',
    'functools.wraps(fn)', 'functools.wraps(func)', 'register_convention',
}

# --------------------------------------------------------------------------


class Interp:
    def __init__(self, loader: Loader | None = None, libs: dict | None = None):
        self.loader = loader or Loader()
        self.libs = libs if libs is not None else {}
        self.classes: dict[tuple, ClassInfo] = {}
        self.contracts: dict[tuple, Any] = {}     # (module, qualname) -> Contract (mode 'contract')
        self.call_depth = 0
        self.builtins = self._make_builtins()
        self.fuc_seen: dict[str, dict] = {}
        self.cut_points: list = []                # statements (AST nodes) at which execution stops with CutPoint
        self.loop_specs: dict = {}                # id(For node) -> (node, LoopSpec): loops decided by a sidecar invariant

    # ---------------------------------------------------------------- modules
    def module(self, name) -> ModuleInfo:
        return self.loader.load(name)

    def get_global(self, mod: ModuleInfo, name: str):
        if name in mod.env:
            return mod.env[name]
        if name in mod.defs:
            d = mod.defs[name]
            if isinstance(d, ast.FunctionDef):
                v = self.make_func(d, mod, None, None, d.name)
            elif isinstance(d, ast.ClassDef):
                v = self.make_class(d, mod)
            elif isinstance(d, tuple):
                v = self.do_import(mod, d[0], d[1])
            else:
                env = Env(mod)
                env.vars = mod.env   # module scope: assignments land in mod.env
                self.exec_stmt(d, env)
                if name not in mod.env:
                    raise Unsupported(f'global {name} of {mod.name} not assigned by its statement')
                return mod.env[name]
            mod.env[name] = v
            return v
        if name in self.builtins:
            return self.builtins[name]
        if name == '__name__':
            return mod.name
        raise Unsupported(f'name {name!r} is not defined in {mod.name}')

    def lib(self, name):
        if name in self.libs:
            return self.libs[name]
        # submodule of a modelled package?
        parts = name.split('.')
        if parts[0] in self.libs:
            v = self.libs[parts[0]]
            for p in parts[1:]:
                try:
                    v = getattr(v, p)
                except AttributeError:
                    raise Unsupported(f'library module {name} is not modelled')
            return v
        raise Unsupported(f'library module {name} is not modelled')

    def do_import(self, mod: ModuleInfo, node, alias: ast.alias):
        if isinstance(node, ast.Import):
            full = alias.name
            top = full.split('.')[0]
            if top == 'emsarray':
                target = full if alias.asname else top
                return ModuleRef(self, self.module(target))
            return self.lib(full if alias.asname else top)
        # from X import name
        modname = self.loader.resolve_relative(mod, node)
        if modname.split('.')[0] == 'emsarray':
            path, _ = self.loader.module_path(modname + '.' + alias.name)
            m = self.module(modname)
            if alias.name in m.defs:
                return self.get_global(m, alias.name)
            if path is not None:
                return ModuleRef(self, self.module(modname + '.' + alias.name))
            raise Unsupported(f'cannot import {alias.name} from {modname}')
        libmod = self.lib(modname)
        try:
            return getattr(libmod, alias.name)
        except AttributeError:
            raise Unsupported(f'{modname}.{alias.name} is not modelled')

    # ---------------------------------------------------------------- functions / classes
    def make_func(self, node, mod, closure, cls, qualname):
        f = Func(self, node, mod, closure, cls, qualname)
        f.is_generator = _contains_yield(node)
        for dec in reversed(getattr(node, 'decorator_list', [])):
            text = ast.unparse(dec)
            if text in ('property',):
                f.kind = 'property'
            elif text in ('cached_property', 'functools.cached_property'):
                f.kind = 'cached_property'
            elif text == 'classmethod':
                f.kind = 'classmethod'
            elif text == 'staticmethod':
                f.kind = 'staticmethod'
            elif text in IDENTITY_DECORATORS or text.startswith('functools.wraps('):
                pass
            elif text.startswith('utils.deprecated(') or text.startswith('deprecated('):
                f.events.append(('deprecated', text))
            elif text.startswith('xarray.register_dataset_accessor('):
                pass
            elif text in ('contextlib.contextmanager', 'contextmanager'):
                f.is_contextmanager = True
            elif text.endswith('.setter'):
                f.kind = 'setter'
            else:
                f.unsupported_decorator = text
        return f

    def make_class(self, node: ast.ClassDef, mod: ModuleInfo, env=None, qual=None) -> ClassInfo:
        key = (mod.name, qual or node.name)
        if key in self.classes:
            return self.classes[key]
        ci = ClassInfo(node.name, mod, node, qualname=qual or node.name)
        ci.def_env = env          # enclosing scope of a locally defined class (closure of its methods)
        self.classes[key] = ci
        base_env = env or self._module_env(mod)
        for b in node.bases:
            bv = self.eval(b, base_env)
            if isinstance(bv, Dummy):
                continue
            try:
                bv = self.type_alias.get(bv, bv)
            except TypeError:
                pass
            ci.bases.append(bv)
        for dec in node.decorator_list:
            text = ast.unparse(dec)
            if text.startswith('dataclasses.dataclass') or text.startswith('dataclass'):
                ci.is_dataclass = True
        ci.is_enum = any(getattr(b, '__name__', '') in ('Enum', 'IntEnum') or
                         (isinstance(b, ClassInfo) and b.is_enum) for b in ci.bases)
        for st in node.body:
            if isinstance(st, ast.FunctionDef):
                ci.members[st.name] = st if st.name not in ci.members or not _is_setter(st) else ci.members[st.name]
            elif isinstance(st, ast.Assign):
                for t in st.targets:
                    if isinstance(t, ast.Name):
                        ci.members[t.id] = st
            elif isinstance(st, ast.AnnAssign) and isinstance(st.target, ast.Name):
                ci.members[st.target.id] = st
            elif isinstance(st, ast.ClassDef):
                ci.members[st.name] = st
        if ci.is_enum:
            for st in node.body:
                if isinstance(st, ast.Assign) and len(st.targets) == 1 and isinstance(st.targets[0], ast.Name):
                    nm = st.targets[0].id
                    if nm.startswith('_'):
                        continue
                    val = self.eval(st.value, base_env)
                    m = EnumMember(ci, nm, val)
                    ci.enum_members.append(m)
                    ci.evaluated[nm] = m
        return ci

    def _module_env(self, mod):
        env = Env(mod)
        env.vars = mod.env
        return env

    def class_attr(self, ci: ClassInfo, name: str, _missing=KeyError):
        """Look up ``name`` through the MRO; returns (owner, value)."""
        for c in ci.mro():
            if isinstance(c, ClassInfo):
                if name in c.evaluated:
                    return c, c.evaluated[name]
                if name in c.members:
                    st = c.members[name]
                    if isinstance(st, ast.FunctionDef):
                        v = self.make_func(st, c.module, getattr(c, 'def_env', None), c, f'{c.qualname}.{st.name}')
                    elif isinstance(st, ast.ClassDef):
                        v = self.make_class(st, c.module, qual=f'{c.qualname}.{st.name}')
                    elif isinstance(st, ast.AnnAssign):
                        if st.value is None:
                            continue
                        v = self.eval(st.value, self._class_env(c))
                    else:
                        v = self.eval(st.value, self._class_env(c))
                    c.evaluated[name] = v
                    return c, v
            elif isinstance(c, type):
                if name in c.__dict__:
                    return c, c.__dict__[name]
        raise KeyError(name)

    def _class_env(self, c: ClassInfo):
        env = Env(c.module, parent=self._module_env(c.module))
        # names defined earlier in the class body are visible
        outer = self

        class _Lazy(dict):
            def __contains__(s, k):
                return k in c.members or dict.__contains__(s, k)

            def __getitem__(s, k):
                if dict.__contains__(s, k):
                    return dict.__getitem__(s, k)
                return outer.class_attr(c, k)[1]
        env.vars = _Lazy()
        return env

    def instantiate(self, ci: ClassInfo, args, kwargs):
        if ci.is_enum:
            if len(args) != 1:
                raise Unsupported('enum call with several arguments')
            v = args[0]
            for m in ci.enum_members:
                if m is v or (not isinstance(v, EnumMember) and m.value == v):
                    return m
            raise PyRaise(ExcObj(ValueError, (f'{v!r} is not a valid {ci.name}',)))
        is_exc = any(isinstance(c, type) and issubclass(c, BaseException) for c in ci.mro())
        obj = ExcObj(ci, args) if is_exc else Obj(ci)
        if ci.is_dataclass:
            fields = []
            for c in reversed(ci.mro()):
                if isinstance(c, ClassInfo):
                    for st in c.node.body:
                        if isinstance(st, ast.AnnAssign) and isinstance(st.target, ast.Name):
                            ann = ast.unparse(st.annotation)
                            if ann.startswith('Final') or ann.startswith('ClassVar'):
                                continue
                            fields.append((st.target.id, st.value, c))
            vals = {}
            for (nm, default, c), a in zip(fields, args):
                vals[nm] = a
            for nm, default, c in fields:
                if nm in kwargs:
                    vals[nm] = kwargs[nm]
                elif nm not in vals:
                    if default is None:
                        raise PyRaise(ExcObj(TypeError, (f'missing argument {nm}',)))
                    vals[nm] = self.eval(default, self._class_env(c))
            obj.attrs.update(vals)
            try:
                _, post = self.class_attr(ci, '__post_init__')
                self.call_func(post, [obj], {})
            except KeyError:
                pass
            return obj
        try:
            owner, init = self.class_attr(ci, '__init__')
        except KeyError:
            init = None
        if isinstance(init, Func):
            self.call_func(init, [obj] + list(args), kwargs)
        elif is_exc:
            pass
        elif args or kwargs:
            raise PyRaise(ExcObj(TypeError, (f'{ci.name}() takes no arguments',)))
        return obj

    # ---------------------------------------------------------------- attribute access
    def getattr(self, obj, name):
        if isinstance(obj, Maybe):
            obj = resolve_maybe(obj)
        if isinstance(obj, (Obj, ExcObj)) and isinstance(getattr(obj, 'cls', None), ClassInfo):
            if name in obj.attrs:
                return obj.attrs[name]
            if name == '__class__':
                return obj.cls
            if name == '__dict__':
                return obj.attrs            # the instance dictionary itself (cached properties live here as well)
            if isinstance(obj, ExcObj) and name == 'args':
                return obj.args
            try:
                owner, v = self.class_attr(obj.cls, name)
            except KeyError:
                raise PyRaise(ExcObj(AttributeError, (f'{obj.cls.name!r} object has no attribute {name!r}',)))
            return self._bind(v, obj, obj.cls, name)
        if isinstance(obj, ExcObj):
            if name == 'args':
                return obj.args
            if name in obj.attrs:
                return obj.attrs[name]
            if name == '__class__':
                return obj.cls
            raise PyRaise(ExcObj(AttributeError, (name,)))
        if isinstance(obj, ClassInfo):
            if name == '__name__':
                return obj.name
            if name == '__module__':
                return obj.module.name
            if name == '__qualname__':
                return obj.qualname
            try:
                owner, v = self.class_attr(obj, name)
            except KeyError:
                raise PyRaise(ExcObj(AttributeError, (f'type object {obj.name!r} has no attribute {name!r}',)))
            if isinstance(v, Func):
                if v.kind == 'classmethod':
                    return BoundMethod(v, obj)
                return v
            return v
        if isinstance(obj, ModuleRef):
            m = obj._mod
            if name in m.defs or name in m.env:
                return self.get_global(m, name)
            sub, _ = self.loader.module_path(m.name + '.' + name)
            if sub is not None:
                return ModuleRef(self, self.module(m.name + '.' + name))
            if name == '__version__' and m.name == 'emsarray':
                return '0.0.0+model'
            raise PyRaise(ExcObj(AttributeError, (f'module {m.name} has no attribute {name}',)))
        if isinstance(obj, SuperProxy):
            mro = obj.obj.cls.mro() if isinstance(obj.obj, (Obj, ExcObj)) else obj.obj.mro()
            i = mro.index(obj.cls)
            for c in mro[i + 1:]:
                if isinstance(c, ClassInfo) and (name in c.members or name in c.evaluated):
                    _, v = self.class_attr(c, name)
                    return self._bind(v, obj.obj, c, name)
                if isinstance(c, type) and name in c.__dict__:
                    if name == '__init__':
                        return model(lambda *a, **k: None)
                    raise Unsupported(f'super().{name} resolves to builtin {c.__name__}')
            raise PyRaise(ExcObj(AttributeError, (name,)))
        if isinstance(obj, EnumMember):
            if name in ('name', 'value'):
                return getattr(obj, name)
            try:
                owner, v = self.class_attr(obj.cls, name)
            except KeyError:
                if obj._mixin() is str:
                    return getattr(obj.value, name)
                raise PyRaise(ExcObj(AttributeError, (name,)))
            return self._bind(v, obj, obj.cls, name)
        if isinstance(obj, Func):
            if name in ('__name__', '__qualname__', '__module__'):
                return getattr(obj, name)
        if isinstance(obj, SStr):
            from .lib import strings
            return strings.sstr_method(obj, name)
        if isinstance(obj, SVal) and obj.z.sort() == core.GeomSort and name in ('wkt', 'wkb', 'geom_type'):
            from .lib.strings import OpaqueStr
            return OpaqueStr(f'<{name}>')
        if isinstance(obj, type) and issubclass(obj, BaseException) and name == '__name__':
            return obj.__name__
        # python objects: models, real modules, builtin containers
        if hasattr(obj, '_getattr'):
            return obj._getattr(name)
        try:
            return getattr(obj, name)
        except AttributeError:
            if getattr(obj, '_pyvc_model_class', False):
                nm = getattr(obj, '__name__', type(obj).__name__)
                raise Unsupported(f'{nm}.{name} is not modelled')
            raise PyRaise(ExcObj(AttributeError, (f'{type(obj).__name__!r} object has no attribute {name!r}',)))

    def _bind(self, v, obj, cls, name):
        if isinstance(v, Func):
            if v.kind == 'function':
                return BoundMethod(v, obj)
            if v.kind == 'property':
                return self.call_func(v, [obj], {})
            if v.kind == 'cached_property':
                val = self.call_func(v, [obj], {})
                obj.attrs[name] = val
                return val
            if v.kind == 'classmethod':
                return BoundMethod(v, cls if not isinstance(obj, (Obj, ExcObj)) else obj.cls)
            if v.kind == 'staticmethod':
                return v
        return v

    def setattr(self, obj, name, value):
        if isinstance(obj, (Obj, ExcObj)):
            core.foreach_guard(getattr(obj, '_born', 0), f'store to attribute {name!r} of an object')
            obj.attrs[name] = value
            return
        if isinstance(obj, ClassInfo):
            obj.evaluated[name] = value
            return
        if hasattr(obj, '_setattr'):
            obj._setattr(name, value)
            return
        if isinstance(obj, (Sym, int, str, tuple, float)):
            raise PyRaise(ExcObj(AttributeError, (name,)))
        try:
            setattr(obj, name, value)
        except AttributeError:
            raise PyRaise(ExcObj(AttributeError, (name,)))

    def hasattr(self, obj, name):
        try:
            self.getattr(obj, name)
            return True
        except PyRaise as e:
            if exc_matches(e.exc, AttributeError):
                return False
            raise

    # ---------------------------------------------------------------- calls
    def call(self, f, args, kwargs):
        if isinstance(f, Maybe):
            f = resolve_maybe(f)
        if isinstance(f, Func):
            return self.call_func(f, args, kwargs)
        if isinstance(f, BoundMethod):
            return self.call_func(f.func, [f.self_obj] + list(args), kwargs)
        if isinstance(f, ClassInfo):
            return self.instantiate(f, args, kwargs)
        if isinstance(f, EnumMember):
            try:
                _, c = self.class_attr(f.cls, '__call__')
            except KeyError:
                raise PyRaise(ExcObj(TypeError, ('enum member is not callable',)))
            return self.call_func(c, [f] + list(args), kwargs)
        if isinstance(f, type) and issubclass(f, BaseException):
            return ExcObj(f, args)
        if isinstance(f, (Obj,)):
            try:
                _, c = self.class_attr(f.cls, '__call__')
            except KeyError:
                raise PyRaise(ExcObj(TypeError, ('object is not callable',)))
            return self.call_func(c, [f] + list(args), kwargs)
        if callable(f):
            if getattr(f, '_pyvc_model', False) or getattr(getattr(f, '__func__', None), '_pyvc_model', False) \
                    or getattr(type(getattr(f, '__self__', None)), '_pyvc_model_class', False):
                # a call the model's signature cannot take (an option the model does not know) is outside the model: undecided,
                # neither a Python TypeError of the code under contract nor a crash of the checker
                try:
                    import inspect
                    inspect.signature(f).bind(*args, **kwargs)
                except TypeError as e:
                    raise Unsupported(f'{getattr(f, "__qualname__", getattr(f, "__name__", f))}: call outside the model ({e})')
                except ValueError:
                    pass
                return f(*args, **kwargs)
            try:
                return f(*args, **kwargs)
            except REAL_EXC as e:
                if isinstance(e, (PyRaise, Unsupported)):
                    raise
                if isinstance(e, (TypeError, AttributeError)) and any(
                        getattr(type(x), '_pyvc_model_class', False) or isinstance(x, core.SVal) for x in list(args) + list(kwargs.values())):
                    # a real library function that cannot digest a symbolic stand-in: a limit of the models, not a TypeError of the code
                    raise Unsupported(f'{getattr(f, "__qualname__", getattr(f, "__name__", f))} applied to a symbolic value ({type(e).__name__}: {e})')
                raise PyRaise(ExcObj(type(e), e.args))
        raise PyRaise(ExcObj(TypeError, (f'{f!r} is not callable',)))

    def call_func(self, f: Func, args, kwargs):
        if f.unsupported_decorator:
            raise Unsupported(f'unknown decorator {f.unsupported_decorator} on {f.qualname}')
        key = (f.module.name, f.qualname)
        c = self.contracts.get(key)
        if c is not None and c.mode == 'contract' and not getattr(c, '_verifying', False):
            return c.apply(self, f, args, kwargs)
        self._note_fuc(f)
        if f.is_contextmanager:
            return GenCM(self, f, list(args), dict(kwargs))
        for ev in f.events:
            core.ctx().event('warning', 'DeprecationWarning', ev[1])
        if self.call_depth > 200:
            raise Unsupported('call depth > 200')
        node = f.node
        env = Env(f.module, parent=f.closure or None, cls=f.cls)
        env.vars['$qualname'] = f.qualname        # for the __qualname__ of classes defined in this body
        self.bind_args(f, node.args, args, kwargs, env)
        if f.cls is not None and args:
            env.self_obj = args[0]
        self.call_depth += 1
        try:
            if isinstance(node, ast.Lambda):
                return self.eval(node.body, env)
            if f.is_generator and not f.is_contextmanager:
                out = []
                env.vars['$yield'] = out
                try:
                    self.exec_block(node.body, env)
                except _Return:
                    pass
                if f.is_contextmanager:
                    raise Unsupported('contextmanager generator called directly')
                return iter(out)
            try:
                self.exec_block(node.body, env)
            except _Return as r:
                return r.value
            return None
        finally:
            self.call_depth -= 1

    def _note_fuc(self, f: Func):
        if isinstance(f.node, ast.Lambda):
            return
        k = f'{f.module.name}:{f.qualname}'
        c = core.CTX
        if c is not None and k not in c.fuc:
            c.fuc[k] = (f.module.name, f.qualname)

    def bind_args(self, f, a: ast.arguments, args, kwargs, env: Env):
        denv = Env(f.module, parent=f.closure) if f.closure is not None else self._module_env(f.module)
        if f.cls is not None and f.closure is None:
            denv = self._class_env(f.cls)
        params = list(a.posonlyargs) + list(a.args)
        defaults = [None] * (len(params) - len(a.defaults)) + list(a.defaults)
        args = list(args)
        kwargs = dict(kwargs)
        n = len(params)
        for i, p in enumerate(params):
            if i < len(args):
                if p.arg in kwargs:
                    raise PyRaise(ExcObj(TypeError, (f'{f.name}() got multiple values for argument {p.arg!r}',)))
                env.vars[p.arg] = args[i]
            elif p.arg in kwargs:
                env.vars[p.arg] = kwargs.pop(p.arg)
            elif defaults[i] is not None:
                env.vars[p.arg] = self.eval(defaults[i], denv)
            else:
                raise PyRaise(ExcObj(TypeError, (f'{f.name}() missing required argument {p.arg!r}',)))
        extra = args[n:]
        if a.vararg is not None:
            env.vars[a.vararg.arg] = tuple(extra)
        elif extra:
            raise PyRaise(ExcObj(TypeError, (f'{f.name}() takes {n} positional arguments but {len(args)} were given',)))
        for p, d in zip(a.kwonlyargs, a.kw_defaults):
            if p.arg in kwargs:
                env.vars[p.arg] = kwargs.pop(p.arg)
            elif d is not None:
                env.vars[p.arg] = self.eval(d, denv)
            else:
                raise PyRaise(ExcObj(TypeError, (f'{f.name}() missing keyword-only argument {p.arg!r}',)))
        if a.kwarg is not None:
            env.vars[a.kwarg.arg] = kwargs
        elif kwargs:
            raise PyRaise(ExcObj(TypeError, (f'{f.name}() got an unexpected keyword argument {next(iter(kwargs))!r}',)))

    # ---------------------------------------------------------------- statements
    def exec_block(self, body, env):
        for st in body:
            self.exec_stmt(st, env)

    def exec_stmt(self, st, env: Env):
        if self.cut_points and any(st is t for t in self.cut_points):
            raise CutPoint(st, env)
        m = getattr(self, 'st_' + type(st).__name__, None)
        if m is None:
            raise Unsupported(f'statement {type(st).__name__} (line {getattr(st, "lineno", "?")} of {env.module.name})')
        return m(st, env)

    def st_Expr(self, st, env):
        v = st.value
        if isinstance(v, ast.Constant):
            return
        if isinstance(v, ast.Call) and _is_logging_call(v):
            return                       # A-LOG
        if isinstance(v, ast.Yield) and self._cm_body(env) is not None:
            body, counter = self._cm_body(env)
            counter[0] += 1
            body(self.eval(v.value, env) if v.value is not None else None)
            return
        if isinstance(v, (ast.Yield, ast.YieldFrom)):
            out = self._yield_list(env)
            if isinstance(v, ast.Yield):
                out.append(self.eval(v.value, env) if v.value is not None else None)
            else:
                out.extend(self.iterate(self.eval(v.value, env)))
            return
        self.eval(v, env)

    def _cm_body(self, env):
        e = env
        while e is not None:
            if '$cm_body' in e.vars:
                return e.vars['$cm_body'], e.vars['$cm_yielded']
            if '$yield' in e.vars:
                return None
            e = e.parent
        return None

    def _yield_list(self, env):
        e = env
        while e is not None:
            if '$yield' in e.vars:
                return e.vars['$yield']
            e = e.parent
        raise Unsupported('yield outside generator')

    def st_Pass(self, st, env):
        pass

    def st_Import(self, st, env):
        for a in st.names:
            nm = a.asname or a.name.split('.')[0]
            self.assign_name(nm, self.do_import(env.module, st, a), env)

    def st_ImportFrom(self, st, env):
        for a in st.names:
            self.assign_name(a.asname or a.name, self.do_import(env.module, st, a), env)

    def st_Global(self, st, env):
        env.globals_.update(st.names)

    def st_Nonlocal(self, st, env):
        env.nonlocals.update(st.names)

    def st_Delete(self, st, env):
        for t in st.targets:
            if isinstance(t, ast.Name):
                env.vars.pop(t.id, None)
            elif isinstance(t, ast.Attribute):
                obj = self.eval(t.value, env)
                if isinstance(obj, (Obj, ExcObj)):
                    if t.attr not in obj.attrs:
                        raise PyRaise(ExcObj(AttributeError, (t.attr,)))
                    del obj.attrs[t.attr]
                else:
                    raise Unsupported('del attribute of non-object')
            elif isinstance(t, ast.Subscript):
                obj = self.eval(t.value, env)
                k = self.eval(t.slice, env)
                if isinstance(obj, dict):
                    if k not in obj:
                        raise PyRaise(ExcObj(KeyError, (k,)))
                    del obj[k]
                elif hasattr(obj, '_delitem'):
                    obj._delitem(k)
                else:
                    raise Unsupported('del subscript')

    def st_Return(self, st, env):
        raise _Return(self.eval(st.value, env) if st.value is not None else None)

    def st_Break(self, st, env):
        raise _Break()

    def st_Continue(self, st, env):
        raise _Continue()

    def st_FunctionDef(self, st, env):
        f = self.make_func(st, env.module, env, env.cls, st.name)
        self.assign_name(st.name, f, env)

    def st_ClassDef(self, st, env):
        ci = self.make_class(st, env.module, env=env, qual=f'<local>.{st.name}.{id(env)}')
        ci.name = st.name
        try:
            outer = env.lookup('$qualname')
            ci.qualname = f'{outer}.<locals>.{st.name}'       # as CPython: every class a factory makes has the same qualified name
        except KeyError:
            ci.qualname = st.name
        self.assign_name(st.name, ci, env)

    def st_Assert(self, st, env):
        v = self.eval(st.test, env)
        if not truth(v):
            raise PyRaise(ExcObj(AssertionError, ()))

    def st_Raise(self, st, env):
        if st.exc is None:
            cur = self._current_exc(env)
            if cur is None:
                raise PyRaise(ExcObj(RuntimeError, ('No active exception to reraise',)))
            raise PyRaise(cur)
        e = self.eval(st.exc, env)
        if isinstance(e, type) and issubclass(e, BaseException):
            e = ExcObj(e, ())
        elif isinstance(e, ClassInfo):
            e = self.instantiate(e, [], {})
        if not isinstance(e, ExcObj):
            raise Unsupported(f'raise of non-exception {e!r}')
        if st.cause is not None:
            e.cause = self.eval(st.cause, env)
        raise PyRaise(e)

    def _current_exc(self, env):
        e = env
        while e is not None:
            if '$exc' in e.vars:
                return e.vars['$exc']
            e = e.parent
        return None

    def st_If(self, st, env):
        if truth(self.eval(st.test, env)):
            self.exec_block(st.body, env)
        else:
            self.exec_block(st.orelse, env)

    def st_While(self, st, env):
        n = 0
        while truth(self.eval(st.test, env)):
            n += 1
            if n > 10000:
                raise Unsupported('while loop exceeded 10000 iterations')
            try:
                self.exec_block(st.body, env)
            except _Break:
                return
            except _Continue:
                continue
        self.exec_block(st.orelse, env)

    def st_For(self, st, env):
        it = self.eval(st.iter, env)
        spec = self.loop_specs.get(id(st))
        if spec is not None:
            return self._loop_with_invariant(st, it, env, spec[1])
        if hasattr(it, '_lazy_map') and hasattr(it, '_concrete_len') and not it._concrete_len():
            total = getattr(getattr(it, 'selection', None), 'total', None)
            if not (isinstance(total, int) and total <= 8):         # a short selection is unrolled (one path per possible length) instead
                return self._foreach(st, it, env)
        for item in self.iterate(it):
            self.assign(st.target, item, env)
            try:
                self.exec_block(st.body, env)
            except _Break:
                return
            except _Continue:
                continue
        self.exec_block(st.orelse, env)

    def _loop_with_invariant(self, st, it, env, spec):
        """INVARIANT rule for a loop with state carried between iterations, over a sequence of any length.  The sidecar supplies the
        invariant as four callables over the frame (``spec.init / havoc / step / final``):
          1. ``init(env)``      obligations: the invariant holds on entry (0 iterations done);
          2. for an arbitrary k, 0 <= k < len: ``havoc(env, k)`` replaces the carried variables by an arbitrary state satisfying the
             invariant after k iterations, the real body runs once on item k, ``step(env, k)`` states the obligations that the invariant
             holds after k + 1 iterations; what was learnt about k is dropped afterwards;
          3. ``final(env, n)``  replaces the carried variables by an arbitrary state satisfying the invariant after n = len iterations;
             the code after the loop runs on that state.
        Variables assigned in the body and not restored by ``final`` are removed (they must not be used after the loop)."""
        seq = it._rows() if hasattr(it, '_rows') else it
        if not hasattr(seq, 'at') or st.orelse:
            raise Unsupported('invariant rule: loop over something without element access, or with an else clause')
        c = core.ctx()
        c.lib_used.add('LOOP-INVARIANT (sidecar invariant: established on entry, preserved by the real body at an arbitrary iteration, assumed after the loop)')
        assigned, _ = _loop_names(st)
        spec.init(env)
        c.solver.push()
        pc0 = len(c.pc)
        k = c.fresh_int('iter')
        c.assume(k >= 0)
        c.assume(k < seq.length)
        c.clock += 1
        frame = core.ForeachFrame(c.clock)          # frame condition: only state created from here on (the havoc'd state) may be modified
        c.foreach_stack.append(frame)
        try:
            scratch = Env(env.module, parent=env.parent, cls=env.cls, self_obj=env.self_obj)
            scratch.vars = dict(env.vars)
            scratch.nonlocals, scratch.globals_ = set(env.nonlocals), set(env.globals_)
            spec.havoc(scratch, k)
            self.assign(st.target, seq.at(k), scratch)
            try:
                self.exec_block(st.body, scratch)
            except _Continue:
                pass
            except _Break:
                raise Unsupported('break in a loop decided by an invariant')
        finally:
            c.foreach_stack.pop()
        if frame.collected:
            raise Unsupported('a loop decided by an invariant appends to a list the invariant does not describe')
        spec.step(scratch, k)
        c.solver.pop()
        del c.pc[pc0:]
        for name in assigned:
            env.vars.pop(name, None)
        spec.final(env, seq.length)

    def _foreach(self, st, it, env):
        """FOREACH rule for a loop over a sequence of symbolic length whose iterations are independent and only emit
        trace events: the body is executed once for a Skolem iteration k; the events of that iteration are recorded as
        one ('foreach', sequence, k, events) entry -- an obligation about it holds for every iteration."""
        assigned, read_first = _loop_names(st)
        carried = assigned & read_first
        if carried or st.orelse:
            raise Unsupported(f'loop over a sequence of symbolic length with loop-carried state {sorted(carried)} (needs an invariant)')
        seq = it._rows() if hasattr(it, '_rows') else it
        if not hasattr(seq, 'at'):
            raise Unsupported('loop over a symbolic sequence without element access')
        c = core.ctx()
        if c.branch(core.zint(seq.length) == 0):
            return          # no iteration at all: the code after the loop is explored for the empty sequence on its own path
        c.solver.push()
        pc0 = len(c.pc)              # everything assumed from here to the end of the body is about the arbitrary iteration
        k = c.fresh_int('iter')
        c.assume(k >= 0)
        c.assume(k < seq.length)
        c.lib_used.add('FOREACH (independent iterations emitting trace events, decided at a Skolem iteration; frame condition: the body '
                       'modifies no list / dict / object / array that existed before the loop, except by appending to a list: COLLECT)')
        n0 = len(c.events)
        c.clock += 1
        frame = core.ForeachFrame(c.clock)
        c.foreach_stack.append(frame)
        # lists the body appends to by name are collected on every path, also on those where this iteration appends nothing
        for b in st.body:
            for n in ast.walk(b):
                if (isinstance(n, ast.Call) and isinstance(n.func, ast.Attribute) and n.func.attr == 'append'
                        and isinstance(n.func.value, ast.Name)):
                    try:
                        lst = env.lookup(n.func.value.id)
                    except KeyError:
                        continue
                    if isinstance(lst, core.TList) and lst._born < frame.start_clock and id(lst) not in frame.collected:
                        if lst._coll is None:
                            lst._coll = []
                        frame.collected[id(lst)] = (lst, [])
        try:
            self.assign(st.target, seq.at(k), env)
            try:
                self.exec_block(st.body, env)
            except _Continue:
                pass
            except _Break:
                raise Unsupported('break in a loop over a sequence of symbolic length')
        finally:
            c.foreach_stack.pop()
        # What was learnt about the arbitrary iteration k stays with its record, not with the path: the code after the loop runs for
        # every sequence, not only for those that have an iteration of this kind (the frame condition makes the state after the loop
        # independent of the iteration explored).
        learnt = list(c.pc[pc0:])
        c.solver.pop()
        del c.pc[pc0:]
        sub = c.events[n0:]
        del c.events[n0:]
        c.event('foreach', it, k, sub, learnt)
        # COLLECT: what this arbitrary iteration appended to lists that existed before the loop
        for lst, items in frame.collected.values():
            chunk = core.Collected(it, k, items, learnt)
            outer = c.foreach_stack[-1] if c.foreach_stack else None
            if outer is not None and lst._born < outer.start_clock:
                outer.collect(lst, chunk)
            else:
                lst._coll.append(chunk)
        for name in assigned:
            env.vars.pop(name, None)       # values of one arbitrary iteration must not be used after the loop

    def st_Try(self, st, env):
        try:
            try:
                self.exec_block(st.body, env)
            except PyRaise as pr:
                exc = pr.exc
                for h in st.handlers:
                    if h.type is None or exc_matches(exc, self.eval(h.type, env)):
                        if h.name:
                            env.vars[h.name] = exc
                        saved = env.vars.get('$exc', None)
                        env.vars['$exc'] = exc
                        try:
                            self.exec_block(h.body, env)
                        finally:
                            if saved is None:
                                env.vars.pop('$exc', None)
                            else:
                                env.vars['$exc'] = saved
                        break
                else:
                    raise
            else:
                self.exec_block(st.orelse, env)
        finally:
            if st.finalbody:
                self.exec_block(st.finalbody, env)

    def st_With(self, st, env):
        self._with(st.items, 0, st.body, env)

    def _with(self, items, i, body, env):
        if i == len(items):
            self.exec_block(body, env)
            return
        item = items[i]
        cm = self.eval(item.context_expr, env)
        if isinstance(cm, GenCM):
            def cm_body(val):
                if item.optional_vars is not None:
                    self.assign(item.optional_vars, val, env)
                self._with(items, i + 1, body, env)
            cm.run(cm_body)
            return
        enter = getattr(cm, '_cm_enter', None)
        if enter is None:
            if isinstance(cm, Obj):
                val = self.call(self.getattr(cm, '__enter__'), [], {})

                def exit_(exc):
                    ex = self.getattr(cm, '__exit__')
                    if exc is None:
                        return self.call(ex, [None, None, None], {})
                    return self.call(ex, [exc.cls, exc, None], {})
            else:
                raise Unsupported(f'with statement over {cm!r}')
        else:
            val = enter()
            exit_ = cm._cm_exit
        if item.optional_vars is not None:
            self.assign(item.optional_vars, val, env)
        try:
            self._with(items, i + 1, body, env)
        except PyRaise as pr:
            if truth(exit_(pr.exc)):
                return
            raise
        except (_Return, _Break, _Continue):
            exit_(None)
            raise
        else:
            exit_(None)

    def st_Assign(self, st, env):
        v = self.eval(st.value, env)
        for t in st.targets:
            self.assign(t, v, env)

    def st_AnnAssign(self, st, env):
        if st.value is not None:
            self.assign(st.target, self.eval(st.value, env), env)

    def st_AugAssign(self, st, env):
        t = st.target
        if isinstance(t, ast.Name):
            cur = self.eval(ast.Name(id=t.id, ctx=ast.Load()), env)
            self.assign(t, self.binop(st.op, cur, self.eval(st.value, env), inplace=True), env)
        elif isinstance(t, ast.Subscript):
            obj = self.eval(t.value, env)
            idx = self.eval(t.slice, env)
            cur = self.subscript(obj, idx)
            self.store_subscript(obj, idx, self.binop(st.op, cur, self.eval(st.value, env), inplace=True))
        elif isinstance(t, ast.Attribute):
            obj = self.eval(t.value, env)
            cur = self.getattr(obj, t.attr)
            self.setattr(obj, t.attr, self.binop(st.op, cur, self.eval(st.value, env), inplace=True))
        else:
            raise Unsupported('augmented assignment target')

    def assign_name(self, name, v, env: Env):
        if name in env.globals_:
            core.foreach_guard(0, f'assignment to the global {name!r}')
            env.module.env[name] = v
        elif name in env.nonlocals:
            sc = env.find_scope(name)
            if sc is None:
                raise Unsupported(f'nonlocal {name} not found')
            core.foreach_guard(sc._born, f'assignment to the nonlocal {name!r}')
            sc.vars[name] = v
        else:
            env.vars[name] = v

    def assign(self, t, v, env):
        if isinstance(t, ast.Name):
            self.assign_name(t.id, v, env)
        elif isinstance(t, (ast.Tuple, ast.List)):
            star = [i for i, e in enumerate(t.elts) if isinstance(e, ast.Starred)]
            vals = list(self.iterate(v))
            if star:
                k = star[0]
                after = len(t.elts) - k - 1
                if len(vals) < len(t.elts) - 1:
                    raise PyRaise(ExcObj(ValueError, ('not enough values to unpack',)))
                for e, x in zip(t.elts[:k], vals[:k]):
                    self.assign(e, x, env)
                self.assign(t.elts[k].value, vals[k:len(vals) - after], env)
                for e, x in zip(t.elts[k + 1:], vals[len(vals) - after:]):
                    self.assign(e, x, env)
            else:
                if len(vals) != len(t.elts):
                    raise PyRaise(ExcObj(ValueError, (f'cannot unpack {len(vals)} values into {len(t.elts)}',)))
                for e, x in zip(t.elts, vals):
                    self.assign(e, x, env)
        elif isinstance(t, ast.Attribute):
            self.setattr(self.eval(t.value, env), t.attr, v)
        elif isinstance(t, ast.Subscript):
            self.store_subscript(self.eval(t.value, env), self.eval(t.slice, env), v)
        else:
            raise Unsupported(f'assignment target {type(t).__name__}')

    # ---------------------------------------------------------------- iteration
    def iterate(self, it):
        if isinstance(it, Maybe):
            it = resolve_maybe(it)
        if hasattr(it, '_iterate'):
            return it._iterate()
        if isinstance(it, ClassInfo) and it.is_enum:
            return iter(list(it.enum_members))
        if isinstance(it, (set, frozenset)) and len(it) > 1 and core.CTX is not None:
            core.CTX.event('taint', 'iteration over a set (order depends on the hash seed)', sorted(map(str, it)))
        if isinstance(it, (list, tuple, dict, set, frozenset, str, range)) or hasattr(it, '__next__'):
            return iter(it)
        if isinstance(it, (type({}.keys()), type({}.values()), type({}.items()))):
            return iter(it)
        if isinstance(it, Sym):
            raise PyRaise(ExcObj(TypeError, ('symbolic scalar is not iterable',)))
        try:
            return iter(it)
        except TypeError:
            raise PyRaise(ExcObj(TypeError, (f'{type(it).__name__} object is not iterable',)))

    # ---------------------------------------------------------------- expressions
    def eval(self, e, env: Env):
        m = getattr(self, 'ex_' + type(e).__name__, None)
        if m is None:
            raise Unsupported(f'expression {type(e).__name__} (line {getattr(e, "lineno", "?")} of {env.module.name})')
        return m(e, env)

    def ex_Constant(self, e, env):
        return e.value

    def ex_Name(self, e, env):
        try:
            return env.lookup(e.id)
        except KeyError:
            pass
        return self.get_global(env.module, e.id)

    def ex_Tuple(self, e, env):
        return tuple(self._elts(e.elts, env))

    def ex_List(self, e, env):
        return core.TList(self._elts(e.elts, env))

    def ex_Set(self, e, env):
        return core.TSet(self._elts(e.elts, env))

    def _elts(self, elts, env):
        out = []
        for x in elts:
            if isinstance(x, ast.Starred):
                out.extend(self.iterate(self.eval(x.value, env)))
            else:
                out.append(self.eval(x, env))
        return out

    def ex_Dict(self, e, env):
        d = {}
        for k, v in zip(e.keys, e.values):
            if k is None:
                d.update(self.eval(v, env))
            else:
                d[self.eval(k, env)] = self.eval(v, env)
        return core.TDict(d)

    def ex_Attribute(self, e, env):
        return self.getattr(self.eval(e.value, env), e.attr)

    def ex_Subscript(self, e, env):
        obj = self.eval(e.value, env)
        idx = self.eval(e.slice, env)
        return self.subscript(obj, idx)

    def ex_Slice(self, e, env):
        return slice(self.eval(e.lower, env) if e.lower else None,
                     self.eval(e.upper, env) if e.upper else None,
                     self.eval(e.step, env) if e.step else None)

    def ex_Starred(self, e, env):
        raise Unsupported('starred expression')

    def ex_Lambda(self, e, env):
        return self.make_func(e, env.module, env, env.cls, '<lambda>')

    def ex_IfExp(self, e, env):
        if truth(self.eval(e.test, env)):
            return self.eval(e.body, env)
        return self.eval(e.orelse, env)

    def ex_BoolOp(self, e, env):
        is_and = isinstance(e.op, ast.And)
        v = None
        for i, x in enumerate(e.values):
            v = self.eval(x, env)
            if i == len(e.values) - 1:
                return v
            if getattr(self, 'pure_depth', 0) > 0:
                tv = truthy(v)
                if isinstance(tv, SBool):
                    # inside the filter of a lazy comprehension (a predicate evaluated at Skolem items): no path split -- the
                    # remaining operands are evaluated and combined; they must be effect free (an exception there is unsupported)
                    try:
                        rest = [truthy(self.eval(y, env)) for y in e.values[i + 1:]]
                    except PyRaise as ex:
                        raise Unsupported(f'exception in a short-circuit operand of a lazy filter: {ex.exc!r}')
                    return (s_and if is_and else core.s_or)(tv, *rest)
            t = truth(v)
            if is_and and not t:
                return v
            if not is_and and t:
                return v
        return v

    def ex_UnaryOp(self, e, env):
        v = self.eval(e.operand, env)
        if isinstance(e.op, ast.Not):
            return s_not(truthy(v))
        if isinstance(e.op, ast.USub):
            return -v
        if isinstance(e.op, ast.UAdd):
            return +v
        if isinstance(e.op, ast.Invert):
            return ~v
        raise Unsupported('unary op')

    BINOPS = {
        ast.Add: operator.add, ast.Sub: operator.sub, ast.Mult: operator.mul,
        ast.Div: operator.truediv, ast.FloorDiv: operator.floordiv, ast.Mod: operator.mod,
        ast.Pow: operator.pow, ast.BitAnd: operator.and_, ast.BitOr: operator.or_,
        ast.BitXor: operator.xor, ast.LShift: operator.lshift, ast.RShift: operator.rshift,
        ast.MatMult: operator.matmul,
    }

    def ex_BinOp(self, e, env):
        return self.binop(e.op, self.eval(e.left, env), self.eval(e.right, env))

    def binop(self, op, a, b, inplace=False):
        if isinstance(a, Maybe):
            a = resolve_maybe(a)
        if isinstance(b, Maybe):
            b = resolve_maybe(b)
        fn = self.BINOPS.get(type(op))
        if fn is None:
            raise Unsupported(f'binary operator {type(op).__name__}')
        if isinstance(op, ast.Mod) and isinstance(a, (str, SStr)):
            from .lib import strings
            return strings.percent_format(a, b)
        if inplace and isinstance(a, list) and isinstance(op, ast.Add):
            a.extend(self.iterate(b))
            return a
        if inplace and hasattr(a, '_iop'):
            r = a._iop(type(op).__name__, b)
            if r is not NotImplemented:
                return r
        try:
            return fn(a, b)
        except REAL_EXC as ex:
            if isinstance(ex, (PyRaise, Unsupported)):
                raise
            if is_sym(a) or is_sym(b):
                raise Unsupported(f'operator {type(op).__name__} on {type(a).__name__}, {type(b).__name__}: {ex}')
            raise PyRaise(ExcObj(type(ex), ex.args))

    def ex_Compare(self, e, env):
        left = self.eval(e.left, env)
        result = True
        for op, r in zip(e.ops, e.comparators):
            right = self.eval(r, env)
            c = self.compare(op, left, right)
            if len(e.ops) == 1:
                return c
            if result is True:
                result = c
            else:
                # chained comparison: short circuit semantics, all operands here are simple
                result = s_and(truthy(result), truthy(c))
            if result is False:
                return False
            left = right
        return result

    def compare(self, op, a, b):
        if isinstance(op, (ast.Is, ast.IsNot)):
            r = self.is_(a, b)
            return r if isinstance(op, ast.Is) else s_not(r)
        if isinstance(a, Maybe):
            a = resolve_maybe(a)
        if isinstance(b, Maybe):
            b = resolve_maybe(b)
        if isinstance(op, ast.Eq):
            if hasattr(a, '_eq'):
                return a._eq(b)
            if hasattr(b, '_eq'):
                return b._eq(a)
            return s_eq(a, b)
        if isinstance(op, ast.NotEq):
            if hasattr(a, '_eq'):
                return _neg(a._eq(b))
            if hasattr(b, '_eq'):
                return _neg(b._eq(a))
            return s_not(s_eq(a, b))
        if isinstance(op, ast.In):
            return self.contains(b, a)
        if isinstance(op, ast.NotIn):
            return s_not(truthy(self.contains(b, a)))
        fn = {ast.Lt: operator.lt, ast.LtE: operator.le, ast.Gt: operator.gt, ast.GtE: operator.ge}[type(op)]
        try:
            return fn(a, b)
        except TypeError as ex:
            if is_sym(a) or is_sym(b):
                raise Unsupported(f'comparison {type(op).__name__} on {type(a).__name__}, {type(b).__name__}')
            raise PyRaise(ExcObj(TypeError, ex.args))

    def is_(self, a, b):
        if isinstance(a, Maybe) and b is None:
            return a.none
        if isinstance(b, Maybe) and a is None:
            return b.none
        if hasattr(a, '_is'):
            return a._is(b)
        if hasattr(b, '_is'):
            return b._is(a)
        if isinstance(a, (bool, SBool)) and isinstance(b, (bool, SBool)) and (is_sym(a) or is_sym(b)):
            return s_eq(a, b)
        return a is b

    def contains(self, container, item):
        if isinstance(container, Maybe):
            container = resolve_maybe(container)
        if hasattr(container, '_contains'):
            return container._contains(item)
        if isinstance(container, ClassInfo) and container.is_enum:
            return any(m is item or m == item for m in container.enum_members)
        if isinstance(container, (SStr,)) or (isinstance(container, str) and isinstance(item, SStr)):
            return mk_bool(z3.Contains(core.zstr(container), core.zstr(item)))
        if isinstance(container, (list, tuple, set, frozenset, dict, type({}.keys()))) or \
                isinstance(container, (type({}.values()), type({}.items()))):
            if is_sym(item):
                return s_or(*[s_eq(x, item) for x in container]) if len(container) else False
            syms = [x for x in container if is_sym(x)] if not isinstance(container, dict) else []
            if syms:
                return s_or(*[s_eq(x, item) for x in container])
            try:
                return item in container
            except TypeError as ex:
                raise PyRaise(ExcObj(TypeError, ex.args))
        try:
            return item in container
        except TypeError as ex:
            raise PyRaise(ExcObj(TypeError, ex.args))

    def ex_Call(self, e, env):
        if _is_logging_call(e):
            return None
        # zero-argument super()
        if isinstance(e.func, ast.Name) and e.func.id == 'super' and not e.args:
            if env.cls is None:
                # find enclosing function env with cls
                ee = env
                while ee is not None and ee.cls is None:
                    ee = ee.parent
                if ee is None:
                    raise Unsupported('super() outside class')
                return SuperProxy(ee.cls, ee.self_obj if ee.self_obj is not None else ee.lookup('self'))
            selfv = env.self_obj
            if selfv is None:
                raise Unsupported('super() without self')
            return SuperProxy(env.cls, selfv)
        f = self.eval(e.func, env)
        args = []
        for a in e.args:
            if isinstance(a, ast.Starred):
                args.extend(self.iterate(self.eval(a.value, env)))
            else:
                args.append(self.eval(a, env))
        kwargs = {}
        for k in e.keywords:
            if k.arg is None:
                kwargs.update(self.eval(k.value, env))
            else:
                kwargs[k.arg] = self.eval(k.value, env)
        return self.call(f, args, kwargs)

    def ex_JoinedStr(self, e, env):
        from .lib import strings
        parts = []
        for v in e.values:
            if isinstance(v, ast.Constant):
                parts.append(v.value)
            else:
                val = self.eval(v.value, env)
                spec = ''
                if v.format_spec is not None:
                    spec = self.ex_JoinedStr(v.format_spec, env)
                parts.append(strings.format_value(self, val, spec, v.conversion))
        return strings.concat(parts)

    def ex_FormattedValue(self, e, env):
        from .lib import strings
        val = self.eval(e.value, env)
        return strings.format_value(self, val, '', e.conversion)

    # comprehensions -------------------------------------------------------------
    def _comp(self, gens, env, emit):
        def rec(i, cenv):
            if i == len(gens):
                emit(cenv)
                return
            g = gens[i]
            it = self.eval(g.iter, cenv)
            for item in self.iterate(it):
                self.assign(g.target, item, cenv)
                ok = True
                for cond in g.ifs:
                    if not truth(self.eval(cond, cenv)):
                        ok = False
                        break
                if ok:
                    rec(i + 1, cenv)
        cenv = Env(env.module, parent=env, cls=env.cls, self_obj=env.self_obj)
        rec(0, cenv)

    def _lazy_comp(self, e, env):
        """Comprehension over a symbolic-length sequence -> lazy sequence (lib.seq)."""
        if len(e.generators) != 1:
            return None
        g = e.generators[0]
        it = self.eval(g.iter, env)
        if not hasattr(it, '_lazy_map'):
            return ('concrete', it)
        if hasattr(it, '_concrete_len') and it._concrete_len():
            return ('concrete', it)          # concrete length: ordinary (eager) iteration
        interp = self
        # Elements are evaluated on demand (at Skolem indexes), i.e. later than Python would: freeze the bindings the
        # element expression can see, so a later rebinding of a name (arr = fromiter(...)) is not observed.
        env = self._snapshot_env(env)

        def elt_fn(item):
            cenv = Env(env.module, parent=env, cls=env.cls, self_obj=env.self_obj)
            interp.assign(g.target, item, cenv)
            return interp.eval(e.elt, cenv)

        conds = None
        if g.ifs:
            def conds(item):
                cenv = Env(env.module, parent=env, cls=env.cls, self_obj=env.self_obj)
                interp.assign(g.target, item, cenv)
                interp.pure_depth = getattr(interp, 'pure_depth', 0) + 1
                try:
                    return s_and(*[truthy(interp.eval(c, cenv)) for c in g.ifs])
                finally:
                    interp.pure_depth -= 1
        return ('lazy', it._lazy_map(elt_fn, conds))

    def _snapshot_env(self, env):
        frames = []
        e = env
        while e is not None:
            frames.append(e)
            e = e.parent
        new_parent = None
        for fr in reversed(frames):
            if fr.vars is fr.module.env:
                cp = fr                      # module globals are shared, not frozen
            else:
                cp = Env(fr.module, parent=new_parent, cls=fr.cls, self_obj=fr.self_obj)
                cp.vars = dict(fr.vars) if isinstance(fr.vars, dict) and type(fr.vars) is dict else fr.vars
                cp.nonlocals, cp.globals_ = set(fr.nonlocals), set(fr.globals_)
            new_parent = cp
        return new_parent

    def ex_ListComp(self, e, env):
        lz = self._lazy_comp(e, env)
        if lz is not None and lz[0] == 'lazy':
            return lz[1]
        out = []
        if lz is not None:
            self._comp_with_first(e, env, lz[1], lambda ce: out.append(self.eval(e.elt, ce)))
        else:
            self._comp(e.generators, env, lambda ce: out.append(self.eval(e.elt, ce)))
        return core.TList(out)

    def _comp_with_first(self, e, env, first_iter, emit):
        gens = e.generators

        def rec(i, cenv):
            if i == len(gens):
                emit(cenv)
                return
            g = gens[i]
            it = first_iter if i == 0 else self.eval(g.iter, cenv)
            for item in self.iterate(it):
                self.assign(g.target, item, cenv)
                ok = True
                for cond in g.ifs:
                    if not truth(self.eval(cond, cenv)):
                        ok = False
                        break
                if ok:
                    rec(i + 1, cenv)
        cenv = Env(env.module, parent=env, cls=env.cls, self_obj=env.self_obj)
        rec(0, cenv)

    def ex_SetComp(self, e, env):
        out = set()
        self._comp(e.generators, env, lambda ce: out.add(self.eval(e.elt, ce)))
        return core.TSet(out)

    def ex_DictComp(self, e, env):
        out = {}

        def emit(ce):
            k = self.eval(e.key, ce)
            out[k] = self.eval(e.value, ce)
        self._comp(e.generators, env, emit)
        return core.TDict(out)

    def ex_GeneratorExp(self, e, env):
        lz = self._lazy_comp(e, env)
        if lz is not None and lz[0] == 'lazy':
            return lz[1]
        first = lz[1] if lz is not None else None
        interp = self
        gens = e.generators

        def gen():
            # lazily evaluated python generator (re-execution makes this safe)
            def rec(i, cenv):
                if i == len(gens):
                    yield interp.eval(e.elt, cenv)
                    return
                g = gens[i]
                it = first if (i == 0 and first is not None) else interp.eval(g.iter, cenv)
                for item in interp.iterate(it):
                    interp.assign(g.target, item, cenv)
                    ok = True
                    for cond in g.ifs:
                        if not truth(interp.eval(cond, cenv)):
                            ok = False
                            break
                    if ok:
                        yield from rec(i + 1, cenv)
            cenv = Env(env.module, parent=env, cls=env.cls, self_obj=env.self_obj)
            yield from rec(0, cenv)
        return gen()

    # subscripts --------------------------------------------------------------------
    def subscript(self, obj, idx):
        if isinstance(obj, Maybe):
            obj = resolve_maybe(obj)
        if isinstance(obj, (ClassInfo, Dummy)):
            return obj          # Generic[...] parametrisation
        if isinstance(obj, type):
            return obj
        if callable(obj) and obj in getattr(self, 'type_alias', {}):
            return obj          # tuple[int, int], dict[...] annotations
        if hasattr(obj, '_getitem'):
            return obj._getitem(idx)
        if isinstance(obj, (tuple, list, str, range)):
            if isinstance(idx, SInt):
                n = len(obj)
                if n == 0:
                    raise PyRaise(ExcObj(IndexError, ('index out of range',)))
                c = core.ctx()
                if c.branch(z3.Or(idx.z >= n, idx.z < -n)):
                    raise PyRaise(ExcObj(IndexError, ('index out of range',)))
                norm = z3.If(idx.z < 0, idx.z + n, idx.z)
                out = obj[n - 1]
                for k in range(n - 2, -1, -1):
                    out = s_ite(mk_bool(norm == k), obj[k], out)
                return out
            if isinstance(idx, slice):
                if any(is_sym(x) for x in (idx.start, idx.stop, idx.step)):
                    raise Unsupported('symbolic slice of python sequence')
            try:
                return obj[idx]
            except (IndexError, TypeError) as ex:
                raise PyRaise(ExcObj(type(ex), ex.args))
        if isinstance(obj, dict) or hasattr(obj, 'keys'):
            if is_sym(idx):
                ks = list(obj.keys())
                for k in ks:
                    if truth(s_eq(k, idx)):
                        return obj[k]
                raise PyRaise(ExcObj(KeyError, (idx,)))
            try:
                return obj[idx]
            except KeyError as ex:
                raise PyRaise(ExcObj(KeyError, ex.args))
            except TypeError as ex:
                raise PyRaise(ExcObj(TypeError, ex.args))
        try:
            return obj[idx]
        except REAL_EXC as ex:
            if isinstance(ex, (PyRaise, Unsupported)):
                raise
            raise PyRaise(ExcObj(type(ex), ex.args))

    def store_subscript(self, obj, idx, v):
        if hasattr(obj, '_setitem'):
            obj._setitem(idx, v)
            return
        if isinstance(obj, (list, dict)):
            if is_sym(idx):
                raise Unsupported('store at symbolic index into python container')
            try:
                obj[idx] = v
            except (IndexError, KeyError, TypeError) as ex:
                raise PyRaise(ExcObj(type(ex), ex.args))
            return
        try:
            obj[idx] = v
        except REAL_EXC as ex:
            raise PyRaise(ExcObj(type(ex), ex.args))

    def run_snippet(self, module_name, source, bindings=None):
        """Execute harness code (not code under contract) in the scope of an emsarray module."""
        mod = self.module(module_name)
        env = Env(mod, parent=self._module_env(mod))
        env.vars.update(bindings or {})
        tree = ast.parse(source)
        try:
            self.exec_block(tree.body, env)
        except _Return as r:
            return r.value
        return env.vars

    # ---------------------------------------------------------------- builtins
    def _make_builtins(self):
        from .lib import pybuiltins
        return pybuiltins.make(self)


def _neg(x):
    if hasattr(x, '_asarray') or type(x).__name__ == 'NDArray':
        return ~x
    return s_not(truthy(x))


def _loop_names(st):
    """(names assigned in one iteration -- loop target and body, in the scope of the loop --, names that an iteration may read before it
    has assigned them): flow-sensitive definite-assignment walk; comprehension targets and lambda / def parameters are local to them."""
    stores = set()
    read_first = set()

    def target(t, defined):
        for n in ast.walk(t):
            if isinstance(n, ast.Name) and isinstance(n.ctx, (ast.Store, ast.Del)):
                stores.add(n.id)
                defined.add(n.id)
            elif isinstance(n, ast.Name):
                expr(n, defined)
        # subscripts / attributes on the left read their base
        for n in ast.walk(t):
            if isinstance(n, (ast.Subscript, ast.Attribute)):
                expr(n.value, defined)
                if isinstance(n, ast.Subscript):
                    expr(n.slice, defined)

    def expr(e, defined, local=frozenset()):
        if e is None:
            return
        if isinstance(e, ast.Name):
            if isinstance(e.ctx, ast.Load) and e.id not in defined and e.id not in local:
                read_first.add(e.id)
            return
        if isinstance(e, ast.NamedExpr):
            expr(e.value, defined, local)
            stores.add(e.target.id)
            defined.add(e.target.id)
            return
        if isinstance(e, (ast.ListComp, ast.SetComp, ast.GeneratorExp, ast.DictComp)):
            loc = set(local)
            for g in e.generators:
                expr(g.iter, defined, frozenset(loc))
                for n in ast.walk(g.target):
                    if isinstance(n, ast.Name):
                        loc.add(n.id)
                for cnd in g.ifs:
                    expr(cnd, defined, frozenset(loc))
            if isinstance(e, ast.DictComp):
                expr(e.key, defined, frozenset(loc))
                expr(e.value, defined, frozenset(loc))
            else:
                expr(e.elt, defined, frozenset(loc))
            return
        if isinstance(e, ast.Lambda):
            loc = set(local) | {a.arg for a in e.args.args + e.args.kwonlyargs + e.args.posonlyargs}
            if e.args.vararg:
                loc.add(e.args.vararg.arg)
            if e.args.kwarg:
                loc.add(e.args.kwarg.arg)
            for d in e.args.defaults + [d for d in e.args.kw_defaults if d is not None]:
                expr(d, defined, local)
            expr(e.body, defined, frozenset(loc))
            return
        for ch in ast.iter_child_nodes(e):
            if isinstance(ch, ast.expr):
                expr(ch, defined, local)
            elif isinstance(ch, (ast.keyword,)):
                expr(ch.value, defined, local)
            elif isinstance(ch, ast.comprehension):
                pass
            elif isinstance(ch, (ast.slice,)) if hasattr(ast, 'slice') else False:
                pass
            else:
                for sub in ast.walk(ch):
                    if isinstance(sub, ast.expr) and sub is not ch:
                        pass
                for sub in ast.iter_child_nodes(ch):
                    if isinstance(sub, ast.expr):
                        expr(sub, defined, local)

    def block(stmts, defined):
        for b in stmts:
            defined = stmt(b, defined)
        return defined

    def stmt(b, defined):
        defined = set(defined)
        if isinstance(b, ast.Assign):
            expr(b.value, defined)
            for t in b.targets:
                target(t, defined)
        elif isinstance(b, ast.AnnAssign):
            if b.value is not None:
                expr(b.value, defined)
                target(b.target, defined)
        elif isinstance(b, ast.AugAssign):
            expr(b.value, defined)
            if isinstance(b.target, ast.Name):
                if b.target.id not in defined:
                    read_first.add(b.target.id)
                stores.add(b.target.id)
                defined.add(b.target.id)
            else:
                expr(b.target.value, defined)
        elif isinstance(b, (ast.For, ast.AsyncFor)):
            expr(b.iter, defined)
            inner = set(defined)
            target(b.target, inner)
            block(b.body, inner)
            block(b.orelse, defined)
            for n in ast.walk(b.target):
                if isinstance(n, ast.Name):
                    stores.add(n.id)
        elif isinstance(b, ast.While):
            expr(b.test, defined)
            block(b.body, defined)
            block(b.orelse, defined)
        elif isinstance(b, ast.If):
            expr(b.test, defined)
            d1 = block(b.body, defined)
            d2 = block(b.orelse, defined)
            defined = d1 & d2
        elif isinstance(b, (ast.With, ast.AsyncWith)):
            for item in b.items:
                expr(item.context_expr, defined)
                if item.optional_vars is not None:
                    target(item.optional_vars, defined)
            defined = block(b.body, defined)
        elif isinstance(b, ast.Try) or type(b).__name__ == 'TryStar':
            d1 = block(b.body, defined)
            for h in b.handlers:
                hd = set(defined)
                if h.type is not None:
                    expr(h.type, hd)
                if h.name:
                    stores.add(h.name)
                    hd.add(h.name)
                block(h.body, hd)
            d2 = block(b.orelse, d1)
            block(b.finalbody, defined)
            defined = (d2 & d1) if not b.handlers else set(defined)
        elif isinstance(b, (ast.FunctionDef, ast.AsyncFunctionDef)):
            loc = {a.arg for a in b.args.args + b.args.kwonlyargs + b.args.posonlyargs}
            for n in ast.walk(b):
                if isinstance(n, ast.Name) and isinstance(n.ctx, ast.Store):
                    loc.add(n.id)
            for n in ast.walk(b):
                if isinstance(n, ast.Name) and isinstance(n.ctx, ast.Load) and n.id not in loc and n.id not in defined:
                    read_first.add(n.id)
                if isinstance(n, ast.Nonlocal):
                    for nm in n.names:
                        stores.add(nm)
                        read_first.add(nm)
            stores.add(b.name)
            defined.add(b.name)
        elif isinstance(b, ast.ClassDef):
            stores.add(b.name)
            defined.add(b.name)
        elif isinstance(b, (ast.Import, ast.ImportFrom)):
            for a in b.names:
                nm = (a.asname or a.name).split('.')[0]
                stores.add(nm)
                defined.add(nm)
        elif isinstance(b, ast.Delete):
            for t in b.targets:
                target(t, defined)
        elif isinstance(b, (ast.Global, ast.Nonlocal)):
            for nm in b.names:
                stores.add(nm)
                read_first.add(nm)
        elif isinstance(b, ast.Match) if hasattr(ast, 'Match') else False:
            raise Unsupported('match statement in a loop over a symbolic sequence')
        else:
            for ch in ast.iter_child_nodes(b):
                if isinstance(ch, ast.expr):
                    expr(ch, defined)
        return defined

    defined = set()
    target(st.target, defined)
    block(st.body, defined)
    return stores, read_first & stores


def _contains_yield(node):
    if isinstance(node, ast.Lambda):
        return False
    for st in node.body:
        for n in _walk_same_scope(st):
            if isinstance(n, (ast.Yield, ast.YieldFrom)):
                return True
    return False


def _walk_same_scope(node):
    yield node
    for ch in ast.iter_child_nodes(node):
        if isinstance(ch, (ast.FunctionDef, ast.Lambda, ast.ClassDef, ast.AsyncFunctionDef)):
            continue
        yield from _walk_same_scope(ch)


def _is_setter(st):
    return any(ast.unparse(d).endswith('.setter') for d in st.decorator_list)


LOGGER_NAMES = {'logger', 'cli_logger', 'fn_logger', 'command_logger', 'log', 'error_logger'}


def _is_logging_call(call: ast.Call) -> bool:
    f = call.func
    return (isinstance(f, ast.Attribute) and isinstance(f.value, ast.Name) and f.value.id in LOGGER_NAMES
            and f.attr in ('debug', 'info', 'warning', 'error', 'exception', 'critical', 'log'))


def class_mro(c):
    if isinstance(c, ClassInfo):
        return c.mro()
    if isinstance(c, type):
        return list(c.__mro__)
    return [c]


def is_subclass(c, parent) -> bool:
    if isinstance(parent, tuple):
        return any(is_subclass(c, p) for p in parent)
    return parent in class_mro(c)


def exc_matches(exc: ExcObj, typ) -> bool:
    if isinstance(typ, (tuple, list)):
        return any(exc_matches(exc, t) for t in typ)
    return is_subclass(exc.cls, typ)
