"""Library contracts for numpy (trusted base, validated by harness/validate_lib.py).

Arrays are *functional*: concrete rank, (possibly symbolic) extents, and a Python
closure ``fn(idx) -> element``.  Every contract below is an index-function
definition; each one used is recorded in ``ctx.lib_used`` under its id.
"""
from __future__ import annotations

import itertools

import z3

from .. import core
from ..core import (ExcObj, Maybe, PyRaise, SBool, SInt, SReal, SVal, Sym, Unsupported, is_sym,
                    mk_bool, mk_int, s_and, s_eq, s_ite, s_not, s_or, truth, truthy, zbool, zint)
from .seq import Selection, SymSeq


def used(cid):
    c = core.CTX
    if c is not None:
        c.lib_used.add(cid)


def raise_(cls, msg=''):
    raise PyRaise(ExcObj(cls, (msg,)))


def prod(xs):
    t = 1
    for x in xs:
        t = t * x
    return t


def same(a, b):
    """Syntactic equality of extents."""
    if is_sym(a) and is_sym(b):
        return a.z.eq(b.z)
    if is_sym(a) or is_sym(b):
        return False
    return a == b


def concretise_int(x, candidates=range(0, 9)):
    """If the path condition forces the symbolic integer to one small value, return it."""
    if not is_sym(x):
        return x
    c = core.ctx()
    for k in candidates:
        if not c.feasible(x.z != k):
            return k
    return None


def known_true(cond):
    """Is cond implied by the current path condition? (no branching)"""
    if isinstance(cond, bool):
        return cond
    c = core.ctx()
    return not c.feasible(z3.Not(zbool(cond)))


class DType:
    _pyvc_model_class = True

    def __init__(self, name, kind):
        self.name = name
        self.kind = kind     # 'b' bool, 'i' int, 'f' float, 'O' object, 'M' datetime, 'm' timedelta, 'V' opaque

    def __repr__(self):
        return f'dtype({self.name})'

    def _eq(self, other):
        if isinstance(other, DType):
            return self.name == other.name
        if isinstance(other, str):
            return self.name == other
        if hasattr(other, '_dtype'):
            return self.name == other._dtype.name
        return False

    def __hash__(self):
        return hash(self.name)

    @property
    def type(self):
        return ScalarType(self)


class IntScalar:
    """numpy.int32(v) etc.: a fixed-width integer scalar (only tobytes / int() are modelled)."""
    _pyvc_model_class = True

    def __init__(self, v, dtype):
        self.v, self.dtype = v, dtype
        bits = 32 if dtype.name == 'int32' else 64
        c = core.ctx()
        if c.branch(z3.Or(zint(v) < -(2 ** (bits - 1)), zint(v) >= 2 ** (bits - 1))):
            raise_(OverflowError, 'Python integer out of bounds for ' + dtype.name)

    def tobytes(self, order='C'):
        from .stdlib import BytesOf
        return BytesOf(('int', self.dtype.name), self.v)

    def _int(self):
        return self.v


class ScalarType:
    """numpy.int32, numpy.float64 ... usable as dtype, in issubclass, and as constructor."""
    _pyvc_model_class = True

    def __init__(self, dtype, abstract=None):
        self._dtype = dtype
        self._abstract = abstract
        self.__name__ = dtype.name if dtype else abstract

    def __call__(self, v=0):
        if self._dtype is not None and self._dtype.kind == 'i' and isinstance(v, (int, SInt)) and not isinstance(v, bool):
            return IntScalar(v, self._dtype)
        return v

    def _issubclass(self, t):
        if isinstance(t, ScalarType):
            if t._abstract == 'integer':
                return self._dtype is not None and self._dtype.kind in 'iu'
            if t._abstract == 'floating':
                return self._dtype is not None and self._dtype.kind == 'f'
            if t._abstract == 'number':
                return self._dtype is not None and self._dtype.kind in 'iuf'
            return t._dtype is not None and self._dtype is not None and t._dtype.name == self._dtype.name
        return False

    def _eq(self, other):
        if isinstance(other, ScalarType):
            return (self._dtype and other._dtype and self._dtype.name == other._dtype.name) or self is other
        return False

    def __hash__(self):
        return hash(self.__name__)

    def __repr__(self):
        return f'numpy.{self.__name__}'


BOOL = DType('bool', 'b')
INT32 = DType('int32', 'i')
INT16 = DType('int16', 'i')
INT8 = DType('int8', 'i')
INT64 = DType('int64', 'i')
FLOAT64 = DType('float64', 'f')
FLOAT32 = DType('float32', 'f')
OBJECT = DType('object', 'O')
OPAQUE = DType('opaque', 'V')
DATETIME = DType('datetime64[ns]', 'M')
TIMEDELTA = DType('timedelta64[ns]', 'm')


def as_dtype(d, default=None):
    if d is None:
        return default
    if isinstance(d, DType):
        return d
    if isinstance(d, ScalarType):
        if d._dtype is None:
            raise Unsupported(f'abstract dtype {d!r}')
        return d._dtype
    nm = getattr(d, '__name__', None)
    if nm in ('b_bool', 'b_int', 'b_float', 'b_str'):       # the interpreter's builtin type objects
        d = {'b_bool': bool, 'b_int': int, 'b_float': float, 'b_str': str}[nm]
    if d is bool or d == 'bool':
        return BOOL
    if d is int or d in ('int', 'int64', 'i8'):
        return INT64
    if d in ('int32', 'i4'):
        return INT32
    if d in ('int16', 'i2'):
        return INT16
    if d in ('int8', 'i1'):
        return INT8
    if d in ('float32', 'f4'):
        return FLOAT32
    if d is float or d in ('float', 'float64', 'double', 'f8'):
        return FLOAT64
    if d is object or d == 'object' or d == 'O':
        return OBJECT
    c = core.ctx()
    ta = getattr(c, '_type_alias', None)
    raise Unsupported(f'dtype {d!r}')


class NDArray:
    _pyvc_model_class = True

    def __init__(self, shape, fn, dtype=OPAQUE, mask_fn=None, base=None):
        self.shape = tuple(shape)
        self.fn = fn              # fn(idx tuple) -> element
        self.dtype = dtype
        self.mask_fn = mask_fn    # numpy.ma: fn(idx) -> bool|SBool ; None for plain arrays
        self.base = base          # (parent NDArray, child_idx_of_parent_idx) for writable views
        self.writeable = True
        self.fill_value = None
        # NP-MEMORY-LAYOUT: 'C' for arrays numpy creates (full, zeros, arange, results of arithmetic), 'F' for their transposes,
        # None = unknown (arrays that are *inputs*: a dataset may hold Fortran-ordered or otherwise strided data).  The layout only
        # matters for ndarray.ravel(): a view for C-contiguous arrays, a copy otherwise (a store through it is then lost).
        self.order = 'C'
        self._born = core._clock()

    def frozen(self):
        """Value snapshot: derived arrays read this, so later stores into the source are not seen through them."""
        f = NDArray.__new__(NDArray)
        f.__dict__.update(self.__dict__)
        f.base = None
        return f

    # -- basic protocol ------------------------------------------------------------
    @property
    def ndim(self):
        return len(self.shape)

    @property
    def size(self):
        return prod(self.shape)

    @property
    def T(self):
        return transpose(self)

    def at(self, idx):
        return self.fn(tuple(idx))

    def __repr__(self):
        return f'NDArray(shape={self.shape}, dtype={self.dtype.name}{", masked" if self.mask_fn else ""})'

    def _len(self):
        if not self.shape:
            raise_(TypeError, 'len() of unsized object')
        return self.shape[0]

    def _getattr(self, name):
        if name == 'T':
            return transpose(self)
        if name == 'values' or name == 'data':
            if name == 'data' and self.mask_fn is not None:
                return NDArray(self.shape, self.fn, self.dtype, None, base=(self, lambda i: i, 'data'))
            return self
        if name == 'mask':
            if self.mask_fn is None:
                raise_(AttributeError, 'mask')
            return NDArray(self.shape, self.mask_fn, BOOL)
        if name == 'flags':
            return _Flags(self)
        try:
            return object.__getattribute__(self, name)
        except AttributeError:
            raise Unsupported(f'ndarray.{name} is not modelled')

    def _truthy(self):
        if prod(self.shape) == 1 if not any(is_sym(s) for s in self.shape) else False:
            return truthy(self.at((0,) * self.ndim))
        raise_(ValueError, 'The truth value of an array with more than one element is ambiguous')

    def _iterate(self):
        n = self.shape[0] if self.shape else None
        if n is None:
            raise_(TypeError, 'iteration over a 0-d array')
        if is_sym(n):
            n0 = n
            n = concretise_int(n)
            if n is None:
                # a selection out of a small concrete number of positions (compressed() of a short row): one path per possible length
                sel = getattr(self, 'selection', None)
                total = getattr(sel, 'total', None)
                if isinstance(total, int) and total <= 8:
                    c = core.ctx()
                    for k in range(total + 1):
                        if c.branch(zint(n0) == k):
                            n = k
                            break
            if n is None:
                raise Unsupported('iteration over an array with symbolic first extent')
        return iter([self._getitem_norm((k,), check=False) for k in range(n)])

    def _iop(self, opname, other):
        """In-place operators mutate the buffer (visible through every alias, as in numpy)."""
        ops = {'Add': lambda a, b: a + b, 'Sub': lambda a, b: a - b, 'Mult': lambda a, b: a * b,
               'BitOr': lambda a, b: a | b, 'BitAnd': lambda a, b: a & b}
        if opname not in ops:
            return NotImplemented
        if not self.writeable:
            raise_(ValueError, 'output array is read-only')
        a = self
        while a is not None:
            core.foreach_guard(getattr(a, '_born', 0), 'in-place arithmetic on an array')
            a = a.base[0] if a.base is not None else None
        new = elementwise2(NDArray(self.shape, self.fn, self.dtype, self.mask_fn), other, ops[opname])
        if len(new.shape) != len(self.shape):
            raise_(ValueError, 'non-broadcastable output operand')
        self.fn = new.fn
        core.ctx().event('inplace-array-op', opname)
        self._propagate()
        return self

    def _lazy_map(self, fn, cond):
        return self._rows()._lazy_map(fn, cond)

    def _concrete_len(self):
        return bool(self.shape) and not is_sym(self.shape[0])

    def _rows(self):
        return SymSeq(self.shape[0], lambda k: self._getitem_norm((k,), check=False), 'rows')   # at(k) is only defined for 0 <= k < length

    def _enumerate(self, start=0):
        return self._rows()._enumerate(start)

    def _tolist(self):
        n = self.shape[0]
        if is_sym(n):
            rows = self._rows()
            rows.tolist_of = self
            return rows
        return [self._getitem(k) if self.ndim == 1 else self._getitem(k)._tolist() for k in range(n)]

    def tolist(self):
        return self._tolist()

    # -- indexing --------------------------------------------------------------------
    def _norm_scalar_index(self, k, n, check=True):
        """Python index normalisation; IndexError branch when out of range."""
        if not is_sym(k) and not is_sym(n):
            if k < -n or k >= n:
                raise_(IndexError, f'index {k} is out of bounds for axis with size {n}')
            return k + n if k < 0 else k
        c = core.ctx()
        kz, nz = zint(k), zint(n)
        if check and c.branch(z3.Or(kz >= nz, kz < -nz)):
            raise_(IndexError, 'index out of bounds')
        if known_true(mk_bool(kz >= 0)):
            return k
        return mk_int(z3.If(kz < 0, kz + nz, kz))

    def _getitem(self, idx):
        if not isinstance(idx, tuple):
            idx = (idx,)
        return self._getitem_norm(idx)

    def _getitem_norm(self, idx, check=True):
        used('NP-INDEX')
        idx = list(idx)
        if any(i is True or i is False for i in idx):
            # NP-INDEX-SCALAR-BOOL: a[True] adds an axis of length one in front (a[False] one of length zero)
            if any(i is False for i in idx):
                raise Unsupported('array index False (empty leading axis)')
            idx = [None if i is True else i for i in idx]
        # Ellipsis / None expansion
        if any(i is Ellipsis for i in idx):
            k = idx.index(Ellipsis)
            nfill = self.ndim - (len(idx) - 1 - sum(1 for i in idx if i is None))
            idx = idx[:k] + [slice(None)] * nfill + idx[k + 1:]
        n_consume = sum(1 for i in idx if i is not None)
        if n_consume > self.ndim:
            raise_(IndexError, 'too many indices for array')
        # boolean mask over the leading axes
        if len(idx) >= 1 and isinstance(idx[0], NDArray) and idx[0].dtype.kind == 'b' and idx[0].ndim >= 1:
            if len(idx) == 1:
                return self._bool_index(idx[0])
        if any(isinstance(i, NDArray) and i.dtype.kind == 'b' and i.ndim >= 1 for i in idx):
            return self._mixed_bool_index(idx)
        if any(isinstance(i, (NDArray, list, SymSeq)) for i in idx):
            return self._fancy_index(idx)
        idx = idx + [slice(None)] * (self.ndim - n_consume)
        # per source axis plan: ('int', k) | ('slice', start, step, length) ; plus new axes
        plan = []
        out_shape = []
        ax = 0
        for i in idx:
            if i is None:
                plan.append(('new',))
                out_shape.append(1)
                continue
            n = self.shape[ax]
            if isinstance(i, slice):
                start, step, length = slice_params(i, n)
                plan.append(('slice', start, step))
                out_shape.append(length)
            else:
                if isinstance(i, Maybe):
                    i = core.resolve_maybe(i)
                if hasattr(i, '_int'):
                    i = i._int()
                if not isinstance(i, (int, SInt)) or isinstance(i, bool):
                    raise Unsupported(f'array index of type {type(i).__name__}')
                plan.append(('int', self._norm_scalar_index(i, n, check)))
            ax += 1
        src = self.frozen()

        def remap(oidx):
            out = []
            o = 0
            for p in plan:
                if p[0] == 'new':
                    o += 1
                elif p[0] == 'int':
                    out.append(p[1])
                else:
                    k = oidx[o]
                    o += 1
                    st, step = p[1], p[2]
                    out.append(k if (step == 1 and _is_zero(st)) else st + k * step)
            return tuple(out)

        if not out_shape:
            if self.mask_fn is not None:
                m = self.mask_fn(remap(()))
                if m is True:
                    return MASKED
                if m is not False:
                    return s_ite_masked(m, src.fn(remap(())))
            return src.fn(remap(()))
        res = NDArray(out_shape, lambda o: src.fn(remap(o)), self.dtype,
                      (lambda o: src.mask_fn(remap(o))) if self.mask_fn is not None else None,
                      base=(self, remap, 'index'))
        res.view_plan = (plan, tuple(out_shape))
        return res

    def _bool_index(self, mask):
        used('NP-BOOL-INDEX')
        if mask.ndim > self.ndim:
            raise_(IndexError, 'too many indices for array')
        for a, b in zip(mask.shape, self.shape):
            if not same(a, b) and not known_true(s_eq(a, b)):
                raise_(IndexError, 'boolean index did not match indexed array')
        lead = mask.shape
        total = prod(lead)
        sel = selection_of_mask(mask)
        rest = self.shape[mask.ndim:]
        src = self.frozen()

        def fn(o):
            n = sel.sel(o[0])
            return src.fn(unravel(n, lead) + tuple(o[1:]))

        mfn = None
        if self.mask_fn is not None:
            def mfn(o):
                n = sel.sel(o[0])
                return src.mask_fn(unravel(n, lead) + tuple(o[1:]))
        res = NDArray((sel.count,) + tuple(rest), fn, self.dtype, mfn)
        res.selection = sel
        res.base = (self, None, 'bool')
        return res

    def _mixed_bool_index(self, idx):
        # a[:, :, mask]  -> selection along one axis, other axes full slices
        pos = [k for k, i in enumerate(idx) if isinstance(i, NDArray)]
        if len(pos) == 1 and all(isinstance(i, slice) for k, i in enumerate(idx) if k != pos[0]) \
                and not all(i == slice(None) for k, i in enumerate(idx) if k != pos[0]):
            # a[mask, :n]: one 1-d mask and basic slices commute (numpy: a single advanced index stays in place) -- first the mask with full
            # slices, then the slices on the result
            full = tuple(i if k == pos[0] else slice(None) for k, i in enumerate(idx))
            rest = tuple(slice(None) if k == pos[0] else i for k, i in enumerate(idx))
            first = self._mixed_bool_index(full)
            res = first._getitem(rest)
            if getattr(res, 'selection', None) is None:
                res.selection = first.selection
            return res
        if len(pos) != 1 or not all(isinstance(i, slice) and i == slice(None) for k, i in enumerate(idx) if k != pos[0]):
            raise Unsupported('mixed boolean index pattern')
        p = pos[0]
        mask = idx[p]
        if mask.ndim != 1:
            raise Unsupported('multi-dimensional boolean mask in mixed index')
        if not same(mask.shape[0], self.shape[p]) and not known_true(s_eq(mask.shape[0], self.shape[p])):
            raise_(IndexError, 'boolean index did not match indexed array')
        sel = selection_of_mask(mask)
        src = self.frozen()
        shape = self.shape[:p] + (sel.count,) + self.shape[p + 1:]

        def remap(o):
            return tuple(o[:p]) + (sel.sel(o[p]),) + tuple(o[p + 1:])
        res = NDArray(shape, lambda o: src.fn(remap(o)), self.dtype,
                      (lambda o: src.mask_fn(remap(o))) if self.mask_fn is not None else None)
        res.selection = sel
        return res

    def _fancy_index(self, idx):
        used('NP-FANCY-INDEX')
        arrs = [(k, asarray(i)) for k, i in enumerate(idx) if isinstance(i, (NDArray, list, SymSeq))]
        if any(i is None for i in idx):
            raise Unsupported('newaxis with fancy index')
        idx = list(idx) + [slice(None)] * (self.ndim - len(idx))
        if len(arrs) == 1:
            p, ia = arrs[0]
            src = self.frozen()
            plan = []
            for k, i in enumerate(idx):
                if k == p:
                    plan.append(('arr',))
                elif isinstance(i, slice):
                    st, step, ln = slice_params(i, self.shape[k])
                    plan.append(('slice', st, step, ln))
                else:
                    plan.append(('int', self._norm_scalar_index(i, self.shape[k])))
            out_shape = []
            for k, pl in enumerate(plan):
                if pl[0] == 'arr':
                    out_shape.extend(ia.shape)
                elif pl[0] == 'slice':
                    out_shape.append(pl[3])
            nia = ia.ndim

            def remap(o):
                out = []
                oi = 0
                for k, pl in enumerate(plan):
                    if pl[0] == 'arr':
                        v = ia.fn(tuple(o[oi:oi + nia]))
                        oi += nia
                        n = src.shape[k]
                        out.append(_wrapneg(v, n))
                    elif pl[0] == 'slice':
                        out.append(pl[1] + o[oi] * pl[2])
                        oi += 1
                    else:
                        out.append(pl[1])
                return tuple(out)
            res = NDArray(out_shape, lambda o: src.fn(remap(o)), self.dtype,
                          (lambda o: src.mask_fn(remap(o))) if self.mask_fn is not None else None)
            res.base = (self, None, 'fancy')
            res.fancy = (p, ia)
            return res
        # several index arrays of equal shape at the leading axes (pointwise)
        ks = [k for k, _ in arrs]
        if ks != list(range(len(ks))):
            raise Unsupported('non-leading multiple fancy indexes')
        ias = [a for _, a in arrs]
        shp = ias[0].shape
        rest = idx[len(ks):]
        if not all(isinstance(r, slice) and r == slice(None) for r in rest):
            raise Unsupported('fancy + partial slices')
        src = self.frozen()
        nia = len(shp)

        def remap2(o):
            lead = tuple(_wrapneg(a.fn(tuple(o[:nia])), src.shape[k]) for k, a in zip(ks, ias))
            return lead + tuple(o[nia:])
        return NDArray(tuple(shp) + tuple(self.shape[len(ks):]), lambda o: src.fn(remap2(o)), self.dtype,
                       (lambda o: src.mask_fn(remap2(o))) if self.mask_fn is not None else None)

    # -- stores ------------------------------------------------------------------------
    def _setitem(self, idx, value):
        used('NP-SETITEM')
        if not self.writeable:
            raise_(ValueError, 'assignment destination is read-only')
        if not isinstance(idx, tuple):
            idx = (idx,)
        a = self
        while a is not None:
            core.foreach_guard(getattr(a, '_born', 0), 'store into an array')
            a = a.base[0] if a.base is not None else None
        old_fn, old_mask = self.fn, self.mask_fn
        region, val_at = self._store_region(idx, value)
        val_masked = None
        if isinstance(value, NDArray) and value.mask_fn is not None:
            raise Unsupported('store of a masked array')

        def new_fn(i):
            r = region(i)
            if r is False:
                return old_fn(i)
            v = val_at(i)
            if r is True:
                return v
            return s_ite(r, v, old_fn(i))
        self.fn = new_fn
        if old_mask is not None:
            is_masked_val = value is MASKED

            def new_mask(i):
                r = region(i)
                if r is False:
                    return old_mask(i)
                return s_ite(r, is_masked_val, old_mask(i))
            self.mask_fn = new_mask
            if is_masked_val:
                self.fn = old_fn
        self._propagate()

    def _propagate(self):
        """Push a store made through a view into its parent."""
        if self.base is None:
            return
        parent, remap, kind = self.base
        if kind == 'ravel':
            if parent.ndim >= 2:
                order = getattr(parent, 'order', 'C')
                if order is None:
                    from .stdlib import choice
                    order = 'C' if choice('array_is_c_contiguous') else 'F'
                if order != 'C':
                    return              # ravel() of a non C-contiguous array is a copy: the store does not reach the array
            child = self
            pshape = parent.shape
            parent.fn = lambda i: child.fn((ravel_index(i, pshape),))
            parent._propagate()
        elif kind == 'data':
            child = self
            parent.fn = lambda i: child.fn(i)
            parent._propagate()
        elif kind == 'index':
            # NP-VIEW-STORE: a basic-index view (integers and unit-step slices) shares the buffer of its parent
            plan, oshape = getattr(self, 'view_plan', (None, None))
            if plan is None or any(p[0] == 'slice' and not (isinstance(p[2], int) and p[2] == 1) for p in plan):
                raise Unsupported('store through a view with a step other than 1')
            if parent.mask_fn is not None or self.mask_fn is not None:
                raise Unsupported('store through a view of a masked array')
            child = self
            old = parent.fn

            def locate(i):
                conds, cidx, ax, o = [], [], 0, 0
                for p in plan:
                    if p[0] == 'new':
                        cidx.append(0)
                        o += 1
                        continue
                    if p[0] == 'int':
                        conds.append(s_eq(i[ax], p[1]))
                    else:
                        st, n = p[1], oshape[o]
                        k = i[ax] - st if not _is_zero(st) else i[ax]
                        conds.append(mk_bool(z3.And(zint(k) >= 0, zint(k) < zint(n))))
                        cidx.append(k)
                        o += 1
                    ax += 1
                return s_and(*conds) if conds else True, tuple(cidx)

            def new_fn(i):
                inside, ci = locate(i)
                if inside is True:
                    return child.fn(ci)
                if inside is False:
                    return old(i)
                return s_ite(inside, child.fn(ci), old(i))
            parent.fn = new_fn
            parent._propagate()
        elif kind == 'transpose':
            axes = remap
            child = self

            def tfn(i):
                return child.fn(tuple(i[ax] for ax in axes))
            parent.fn = tfn
            parent._propagate()
        # 'bool'/'fancy' results are copies in numpy: nothing to propagate

    def _store_region(self, idx, value):
        """-> (region(i) -> bool|SBool, val_at(i) -> element)."""
        idx = [i._int() if isinstance(i, MaskedOr) else i for i in idx]       # an element read from a masked array used as an index
        if isinstance(value, MaskedOr):
            value = value._int()
        if len(idx) == 1 and isinstance(idx[0], NDArray) and idx[0].dtype.kind == 'b':
            m = idx[0]
            if m.ndim != self.ndim:
                # rows selected by a 1-D mask (bounds[cells_with_nans] = nan)
                def region(i):
                    return truthy(m.fn(tuple(i[:m.ndim])))
            else:
                def region(i):
                    return truthy(m.fn(tuple(i)))
            if isinstance(value, NDArray):
                raise Unsupported('boolean-mask store of an array value')
            return region, (lambda i: value)
        if len(idx) == 1 and isinstance(idx[0], (NDArray, SymSeq, list)) and self.ndim >= 1:
            ia = asarray(idx[0])
            if ia.ndim != 1:
                raise Unsupported('store with multi-dimensional index array')
            member = membership(ia)
            if isinstance(value, NDArray):
                # a[ia] = arange(len(ia))  etc: value at the (last) position of i in ia
                pos = position_in(ia)

                def val_at(i):
                    return value.fn((pos(i[0]),) + tuple(i[1:]))
                return (lambda i: member(i[0])), val_at
            return (lambda i: member(i[0])), (lambda i: value)
        if all(isinstance(i, (int, SInt)) and not isinstance(i, bool) for i in idx) and len(idx) == self.ndim:
            tgt = tuple(self._norm_scalar_index(i, n) for i, n in zip(idx, self.shape))

            def region(i):
                return s_and(*[s_eq(a, b) for a, b in zip(i, tgt)])
            if isinstance(value, NDArray):
                raise Unsupported('array stored in a single element')
            return region, (lambda i: value)
        if len(idx) == 1 and isinstance(idx[0], slice) and self.ndim >= 1 and (idx[0].step is None or idx[0].step == 1):
            # NP-SLICE-STORE: a[lo:hi] = value along the first axis (unit step): a scalar fills the block; an array of the same length is
            # copied element by element (ValueError when the lengths differ and the value is not a single row)
            used('NP-SLICE-STORE')
            st, _step, ln = slice_params(idx[0], self.shape[0])

            def region(i):
                return mk_bool(z3.And(zint(i[0]) >= zint(st), zint(i[0]) < zint(st) + zint(ln)))
            if isinstance(value, NDArray) and value.ndim >= 1:
                if value.ndim != self.ndim:
                    raise Unsupported('slice store of an array of another rank')
                vlen = value.shape[0]
                if not same(vlen, ln) and not known_true(s_eq(vlen, ln)):
                    c = core.ctx()
                    if c.branch(z3.Not(zbool(s_eq(vlen, ln)))):
                        if c.branch(zbool(s_eq(vlen, 1))):
                            src1 = value.frozen()
                            return region, (lambda i: src1.fn((0,) + tuple(i[1:])))
                        raise_(ValueError, 'could not broadcast input array into the shape of the slice')
                src = value.frozen()
                return region, (lambda i: src.fn((i[0] - st,) + tuple(i[1:])))
            if isinstance(value, NDArray):
                value = value.fn(())
            return region, (lambda i: value)
        raise Unsupported(f'store pattern {idx!r}')

    # -- methods -------------------------------------------------------------------------
    def reshape(self, *shape, order='C'):
        if len(shape) == 1 and isinstance(shape[0], (tuple, list)):
            shape = tuple(shape[0])
        if order == 'A':
            # NP-RESHAPE-ORDER: 'A' = Fortran index order iff the array is Fortran-contiguous and not C-contiguous
            used('NP-RESHAPE-ORDER')
            layout = self.order if self.ndim >= 2 else 'C'
            if layout is None:
                from .stdlib import choice
                layout = 'C' if choice('array_is_c_contiguous') else ('F' if choice('array_is_f_contiguous') else 'C')
            order = layout
        if order == 'F':
            used('NP-RESHAPE-ORDER')
            r = transpose(reshape(transpose(self), tuple(reversed(tuple(shape)))))
            r.order = 'F'
            return r
        if order != 'C':
            raise Unsupported(f"reshape order={order!r}")
        return reshape(self, shape)

    def ravel(self, order='C'):
        if order != 'C':
            raise Unsupported(f"ravel order={order!r}")
        used('NP-RAVEL-VIEW')
        r = reshape(self, (-1,))
        r.base = (self, None, 'ravel')
        return r

    def flatten(self, order='C'):
        if order != 'C':
            raise Unsupported(f"flatten order={order!r}")
        r = reshape(self, (-1,))
        r.base = None
        return r

    def transpose(self, *axes):
        if len(axes) == 1 and isinstance(axes[0], (tuple, list)):
            axes = tuple(axes[0])
        return transpose(self, axes or None)

    def copy(self, order='C'):
        return NDArray(self.shape, self.fn, self.dtype, self.mask_fn)

    def astype(self, dtype, **kw):
        d = as_dtype(dtype)
        used('NP-ASTYPE')
        src = self.frozen()
        if d.kind == self.dtype.kind and d.kind in 'fi' and _itemsize(d) is not None and _itemsize(self.dtype) is not None \
                and _itemsize(d) < _itemsize(self.dtype):
            # NP-ASTYPE-NARROW: a narrower type of the same kind does not hold every value: the result is a function of the value
            # (rounding / wrapping) that is the identity only on values the narrow type represents
            used('NP-ASTYPE-NARROW')
            name = d.name
            return NDArray(self.shape, lambda i: _narrow(src.fn(i), name, d.kind), d, self.mask_fn)
        if d.kind == self.dtype.kind or self.dtype.kind == 'V':
            return NDArray(self.shape, self.fn, d, self.mask_fn)
        if d.kind == 'f' and self.dtype.kind in 'ib':
            return NDArray(self.shape, lambda i: to_float(src.fn(i)), d, self.mask_fn)
        if d.kind == 'i' and self.dtype.kind == 'f':
            if _itemsize(d) is not None:
                used('NP-ASTYPE-NARROW')
                return NDArray(self.shape, lambda i: _float_to_sized_int(src.fn(i), d), d, self.mask_fn)
            return NDArray(self.shape, lambda i: float_to_int(src.fn(i)), d, self.mask_fn)
        if d.kind == 'i' and self.dtype.kind == 'b':
            return NDArray(self.shape, lambda i: mk_int(zint(src.fn(i))), d, self.mask_fn)
        raise Unsupported(f'astype {self.dtype.name} -> {d.name}')

    def _extreme(self, which, axis, kw):
        """NP-MINMAX-SKOLEM: a.min() / a.max() over all entries of an integer array (masked entries ignored): a value m with a witness
        position w inside the array such that a[w] == m and m <= a[q] (>=) for every position q (a quantified fact).
        ValueError on an empty array."""
        used('NP-MINMAX-SKOLEM')
        if axis is not None or kw or self.dtype.kind not in 'iu':
            raise Unsupported(f'ndarray.{which} with an axis / of a non-integer array')
        c = core.ctx()
        size = prod(self.shape)
        if c.branch(zint(size) == 0) if is_sym(size) else size == 0:
            raise_(ValueError, f'zero-size array to reduction operation {which}imum which has no identity')
        src = self.frozen()
        m = c.fresh_int(which + '_value')
        w = tuple(c.fresh_int(f'{which}_at{k}') for k in range(self.ndim))
        for k, n in zip(w, self.shape):
            c.assume(z3.And(k.z >= 0, k.z < zint(n)))
        if src.mask_fn is not None:
            mk = truthy(src.mask_fn(w))
            if mk is not False:
                c.assume(z3.Not(zbool(mk)))
        c.assume(zint(src.fn(w)) == m.z)
        # ... and it bounds every (unmasked) entry: a universally quantified fact over the index variables
        qs = [z3.Int(c._name(f'{which}_q{k}')) for k in range(self.ndim)]
        qi = tuple(mk_int(q) for q in qs)
        inr = z3.And(*[z3.And(q >= 0, q < zint(n)) for q, n in zip(qs, self.shape)])
        live = z3.BoolVal(True)
        if src.mask_fn is not None:
            mq = truthy(src.mask_fn(qi))
            live = z3.BoolVal(not mq) if isinstance(mq, bool) else z3.Not(zbool(mq))
        v = zint(src.fn(qi))
        c.assume(z3.ForAll(qs, z3.Implies(z3.And(inr, live), (m.z <= v) if which == 'min' else (m.z >= v))))
        return m

    def min(self, axis=None, **kw):
        return self._extreme('min', axis, kw)

    def max(self, axis=None, **kw):
        return self._extreme('max', axis, kw)

    def any(self, axis=None, **kw):
        return reduce_bool(self, axis, 'any')

    def all(self, axis=None, **kw):
        return reduce_bool(self, axis, 'all')

    def sum(self, axis=None, **kw):
        return np_sum(self, axis=axis)

    def item(self):
        if self.ndim != 0 and not all((not is_sym(s)) and s == 1 for s in self.shape):
            raise_(ValueError, 'can only convert an array of size 1 to a Python scalar')
        return self.at((0,) * self.ndim)

    def tobytes(self, order='C'):
        from .stdlib import BytesOf
        used('NP-TOBYTES')
        return BytesOf(('array', order, self.dtype.name), self)

    def compressed(self):
        used('NP-MA-COMPRESSED')
        if self.mask_fn is None:
            return self.flatten()
        flat = reshape(self, (-1,))
        keep = NDArray(flat.shape, lambda i: s_not(truthy(flat.mask_fn(i))), BOOL)
        plain = NDArray(flat.shape, flat.fn, flat.dtype)
        out = plain._bool_index(keep)
        out.compressed_of = (self, flat, keep)        # ghost: position p of the result is flat position selection.sel(p)
        return out

    def filled(self, fill_value=None):
        return ma_filled(self, fill_value)

    def _eq(self, other):
        return elementwise2(self, other, s_eq, BOOL)

    def _is(self, other):
        return self is other

    def _contains(self, item):
        raise Unsupported('`in` on an array')

    # arithmetic / logic
    def __add__(self, o): return elementwise2(self, o, lambda a, b: _num(a) + _num(b), _arith_dtype(self, o))
    def __radd__(self, o): return elementwise2(o, self, lambda a, b: _num(a) + _num(b), _arith_dtype(o, self))
    def __sub__(self, o): return elementwise2(self, o, lambda a, b: _num(a) - _num(b), _arith_dtype(self, o))
    def __rsub__(self, o): return elementwise2(o, self, lambda a, b: _num(a) - _num(b), _arith_dtype(o, self))
    def __mul__(self, o): return elementwise2(self, o, lambda a, b: _num(a) * _num(b), _arith_dtype(self, o))
    def __rmul__(self, o): return elementwise2(o, self, lambda a, b: _num(a) * _num(b), _arith_dtype(o, self))
    def __truediv__(self, o): return elementwise2(self, o, lambda a, b: a / b, FLOAT64)
    def __neg__(self): return elementwise1(self, lambda a: -a)
    def __and__(self, o): return elementwise2(self, o, lambda a, b: a & b)
    def __rand__(self, o): return elementwise2(o, self, lambda a, b: a & b)
    def __or__(self, o): return elementwise2(self, o, lambda a, b: a | b)
    def __ror__(self, o): return elementwise2(o, self, lambda a, b: a | b)
    def __invert__(self): return elementwise1(self, lambda a: s_not(truthy(a)) if isinstance(a, (bool, SBool)) else ~a)
    def __lt__(self, o): return elementwise2(self, o, lambda a, b: a < b, BOOL)
    def __le__(self, o): return elementwise2(self, o, lambda a, b: a <= b, BOOL)
    def __gt__(self, o): return elementwise2(self, o, lambda a, b: a > b, BOOL)
    def __ge__(self, o): return elementwise2(self, o, lambda a, b: a >= b, BOOL)
    __hash__ = None


class _Flags:
    _pyvc_model_class = True

    def __init__(self, arr):
        object.__setattr__(self, 'arr', arr)

    def _getattr(self, name):
        if name == 'writeable':
            return self.arr.writeable
        raise Unsupported(f'flags.{name}')

    def _setattr(self, name, v):
        if name == 'writeable':
            self.arr.writeable = v
            core.ctx().event('flags.writeable', v)
            return
        raise Unsupported(f'flags.{name} =')


class _Masked:
    _pyvc_model_class = True

    def __repr__(self):
        return 'masked'

    def _is(self, other):
        if isinstance(other, MaskedOr):
            return other.masked
        return other is self

    def _eq(self, other):
        return self._is(other)


MASKED = _Masked()


class MaskedOr:
    """Scalar read from a masked array: ``masked`` under condition, else ``val``."""
    _pyvc_model_class = True

    def __init__(self, masked, val):
        self.masked = masked
        self.val = val

    def _is(self, other):
        if other is MASKED:
            return self.masked
        return False

    def _int(self):
        if truth(self.masked):
            raise PyRaise(ExcObj(_ma_error(), ('Cannot convert masked element to a Python int.',)))
        return self.val


class MaskError(Exception):
    pass


def _ma_error():
    return MaskError


def s_ite_masked(m, val):
    return MaskedOr(m, val)


def _is_zero(x):
    return (not is_sym(x)) and x == 0


def _wrapneg(v, n):
    if is_sym(v):
        if known_true(mk_bool(v.z >= 0)):
            return v
        return mk_int(z3.If(v.z < 0, v.z + zint(n), v.z))
    if isinstance(v, MaskedOr):
        v = v._int()
        return _wrapneg(v, n)
    if not isinstance(v, int) or isinstance(v, bool):
        raise Unsupported(f'an index array holds {type(v).__name__} entries, not integers')
    return v + n if v < 0 else v


def slice_params(sl: slice, n):
    """(start, step, length) of a slice over an axis of extent n (python semantics, step = +-1 or const)."""
    step = 1 if sl.step is None else sl.step
    if is_sym(step):
        raise Unsupported('symbolic slice step')
    if step == 0:
        raise_(ValueError, 'slice step cannot be zero')
    if not is_sym(n) and not is_sym(sl.start) and not is_sym(sl.stop):
        r = range(*sl.indices(n))
        return (r.start, r.step, len(r))

    def clampz(v, lo, hi):
        return z3.If(v < lo, lo, z3.If(v > hi, hi, v))
    nz = zint(n)
    if step > 0:
        st = z3.IntVal(0) if sl.start is None else clampz(z3.If(zint(sl.start) < 0, zint(sl.start) + nz, zint(sl.start)), 0, nz)
        sp = nz if sl.stop is None else clampz(z3.If(zint(sl.stop) < 0, zint(sl.stop) + nz, zint(sl.stop)), 0, nz)
        ln = z3.If(sp - st > 0, (sp - st + (step - 1)) / step, 0)
    else:
        st = nz - 1 if sl.start is None else clampz(z3.If(zint(sl.start) < 0, zint(sl.start) + nz, zint(sl.start)), -1, nz - 1)
        sp = z3.IntVal(-1) if sl.stop is None else clampz(z3.If(zint(sl.stop) < 0, zint(sl.stop) + nz, zint(sl.stop)), -1, nz - 1)
        ln = z3.If(st - sp > 0, (st - sp + (-step - 1)) / (-step), 0)
    return (mk_int(st), step, mk_int(ln))


def ravel_index(idx, shape):
    """Row-major linear index."""
    lin = 0
    for k, n in zip(idx, shape):
        lin = lin * n + k
    return lin


def unravel(lin, shape):
    """Inverse of ravel_index for 0 <= lin < prod(shape)."""
    shape = tuple(shape)
    if len(shape) == 1:
        return (lin,)
    out = []
    rem = lin
    for k in range(len(shape) - 1, 0, -1):
        n = shape[k]
        if is_sym(rem) or is_sym(n):
            out.append(mk_int(core.py_mod(zint(rem), zint(n))))
            rem = mk_int(core.py_floordiv(zint(rem), zint(n)))
        else:
            out.append(rem % n)
            rem = rem // n
    out.append(rem)
    return tuple(reversed(out))


def asarray(x, dtype=None):
    if isinstance(x, Maybe):
        x = core.resolve_maybe(x)
    if isinstance(x, NDArray):
        return x
    if hasattr(x, '_asarray'):
        return x._asarray()
    if isinstance(x, SymSeq):
        if is_sym(x.length):
            # rows of a symbolic number of rows: the row structure is read off row 0 (every row is built by the same expression)
            probe = x.at(0)
            if isinstance(probe, Maybe):
                probe = probe.val
            if isinstance(probe, (list, tuple, NDArray, SymSeq)):
                inner = asarray(probe, dtype)
                if inner.ndim != 1:
                    raise Unsupported('array from a symbolic number of multi-dimensional rows')
                width = inner.shape[0]

                def fn2(i):
                    row = x.at(i[0])
                    row = asarray(row, dtype)
                    return row.fn((i[1],))

                def mfn2(i):
                    row = asarray(x.at(i[0]), dtype)
                    return row.mask_fn((i[1],)) if row.mask_fn is not None else False
                return NDArray((x.length, width), fn2, as_dtype(dtype, inner.dtype), mfn2 if inner.mask_fn is not None else None)
        return NDArray((x.length,), lambda i: x.at(i[0]), as_dtype(dtype, _guess_dtype_seq(x)))
    if isinstance(x, (list, tuple)):
        items = list(x)
        if not items:
            return NDArray((0,), lambda i: None, as_dtype(dtype, FLOAT64))
        subs = [asarray(i) if isinstance(i, (list, tuple, NDArray, SymSeq)) else i for i in items]
        if isinstance(subs[0], NDArray):
            return stack(subs, axis=0, dtype=dtype)
        vals = subs
        if dtype is None:
            cats = {guess_dtype(v).kind if hasattr(guess_dtype(v), 'kind') else str(guess_dtype(v)) for v in vals}
            if len(cats) > 1:
                # e.g. (kind, 0, 3): numpy coerces every element to a common dtype (here: strings)
                raise Unsupported(f'numpy.asarray of a sequence mixing element types {sorted(cats)}: the coercion to a common dtype is not modelled')

        def fn(i, vals=vals):
            k = i[0]
            if not is_sym(k):
                return vals[k]
            out = vals[-1]
            for j in range(len(vals) - 2, -1, -1):
                out = s_ite(mk_bool(k.z == j), vals[j], out)
            return out
        return NDArray((len(vals),), fn, as_dtype(dtype, guess_dtype(vals[0])))
    # scalar -> 0-d
    return NDArray((), lambda i: x, as_dtype(dtype, guess_dtype(x)))


def _guess_dtype_seq(x):
    return getattr(x, 'dtype', OPAQUE) if isinstance(getattr(x, 'dtype', None), DType) else OPAQUE


def guess_dtype(v):
    if isinstance(v, (bool, SBool)):
        return BOOL
    if isinstance(v, (int, SInt)):
        return INT64
    if isinstance(v, (float, SReal)) or getattr(v, '_is_float', False):
        return FLOAT64
    if v is None:
        return OBJECT
    if isinstance(v, SVal):
        return OPAQUE
    return OBJECT


def to_float(v):
    from .floats import to_sfloat
    return to_sfloat(v)


def float_to_int(v):
    from .floats import sfloat_to_int
    return sfloat_to_int(v)


def broadcast_shapes(a, b):
    out = []
    for x, y in itertools.zip_longest(reversed(a), reversed(b), fillvalue=1):
        if _is_one(x):
            out.append(y)
        elif _is_one(y):
            out.append(x)
        elif same(x, y) or known_true(s_eq(x, y)):
            out.append(x)
        else:
            raise_(ValueError, 'operands could not be broadcast together')
    return tuple(reversed(out))


def _is_one(x):
    return (not is_sym(x)) and x == 1


def bidx(idx, shape, out_ndim):
    """Index into an operand of ``shape`` for output index ``idx`` under broadcasting."""
    off = out_ndim - len(shape)
    return tuple(0 if _is_one(n) else idx[off + k] for k, n in enumerate(shape))


def elementwise2(a, b, op, dtype=None):
    used('NP-ELEMENTWISE')
    if isinstance(a, Maybe):
        a = core.resolve_maybe(a)
    if isinstance(b, Maybe):
        b = core.resolve_maybe(b)
    if hasattr(a, '_asarray') and not isinstance(a, NDArray):
        a = a._asarray()
    if hasattr(b, '_asarray') and not isinstance(b, NDArray):
        b = b._asarray()
    if isinstance(a, (list, tuple)):
        a = asarray(a)
    if isinstance(b, (list, tuple)):
        b = asarray(b)
    if b is None or a is None:
        # comparison with None (object arrays)
        pass
    an, bn = isinstance(a, NDArray), isinstance(b, NDArray)
    if an:
        a = a.frozen()
    if bn:
        b = b.frozen()
    if an and bn:
        shp = broadcast_shapes(a.shape, b.shape)
        nd = len(shp)
        fn = lambda i: op(a.fn(bidx(i, a.shape, nd)), b.fn(bidx(i, b.shape, nd)))
        mfn = None
        if a.mask_fn is not None or b.mask_fn is not None:
            am = a.mask_fn or (lambda i: False)
            bm = b.mask_fn or (lambda i: False)
            mfn = lambda i: s_or(am(bidx(i, a.shape, nd)), bm(bidx(i, b.shape, nd)))
        d = dtype or _result_dtype(a.dtype, b.dtype)
        return NDArray(shp, fn, d, mfn)
    if an:
        d = dtype or _result_dtype(a.dtype, guess_dtype(b))
        return NDArray(a.shape, lambda i: op(a.fn(i), b), d, a.mask_fn)
    if bn:
        d = dtype or _result_dtype(guess_dtype(a), b.dtype)
        return NDArray(b.shape, lambda i: op(a, b.fn(i)), d, b.mask_fn)
    return op(a, b)


def _num(v):
    """NP-BOOL-ARITH: a Boolean entering + - * counts as 0 / 1 (numpy: bool is an integer type for arithmetic with integers)"""
    if isinstance(v, bool):
        return int(v)
    if isinstance(v, SBool):
        return mk_int(z3.If(v.z, 1, 0))
    return v


def _arith_dtype(a, b):
    """result dtype override for arithmetic that involves a Boolean array and an integer: the integer type (None: the usual rule)"""
    da = a.dtype if isinstance(a, NDArray) else None
    db = b.dtype if isinstance(b, NDArray) else None
    kinds = {d.kind for d in (da, db) if d is not None}
    if 'b' not in kinds:
        return None
    others = [d for d in (da, db) if d is not None and d.kind != 'b']
    if others:
        return others[0] if others[0].kind in 'iuf' else None
    if any(isinstance(x, float) or getattr(x, '_is_float', False) for x in (a, b)):
        return FLOAT64
    if all(d is not None and d.kind == 'b' for d in (da, db)) or any(isinstance(x, (bool, SBool)) for x in (a, b)):
        raise Unsupported('arithmetic between two Boolean operands (numpy: logical or / and, subtraction refused)')
    return INT64


def _result_dtype(a, b):
    order = {'b': 0, 'i': 1, 'f': 2}
    if a.kind in order and b.kind in order:
        return a if order[a.kind] >= order[b.kind] else b
    if a.kind == 'V' or b.kind == 'V':
        return a if a.kind != 'V' else b
    return a


def elementwise1(a, op, dtype=None):
    used('NP-ELEMENTWISE')
    a = a.frozen()
    return NDArray(a.shape, lambda i: op(a.fn(i)), dtype or a.dtype, a.mask_fn)


def reshape(a: NDArray, shape):
    used('NP-RESHAPE')
    shape = list(shape)
    old = list(a.shape)
    neg = [k for k, s in enumerate(shape) if (not is_sym(s)) and s == -1]
    if len(neg) > 1:
        raise_(ValueError, 'can only specify one unknown dimension')
    if any((not is_sym(s)) and s < -1 for s in shape):
        raise_(ValueError, 'negative dimensions not allowed')
    # strip the common prefix / suffix (syntactically equal extents)
    pre = 0
    while pre < len(old) and pre < len(shape) and pre not in neg and same(old[pre], shape[pre]):
        pre += 1
    suf = 0
    while (suf < len(old) - pre and suf < len(shape) - pre and (len(shape) - 1 - suf) not in neg
           and same(old[len(old) - 1 - suf], shape[len(shape) - 1 - suf])):
        suf += 1
    old_mid = old[pre:len(old) - suf]
    new_mid = shape[pre:len(shape) - suf]
    if neg:
        k = neg[0] - pre
        others = [s for j, s in enumerate(new_mid) if j != k]
        rem_old = list(old_mid)
        left = []
        for s in others:
            for j, o in enumerate(rem_old):
                if same(o, s):
                    del rem_old[j]
                    break
            else:
                left.append(s)
        if left:
            tot = prod(rem_old)
            kn = prod(left)
            c = core.ctx()
            bad = z3.Or(zint(kn) == 0, core.py_mod(zint(tot), z3.If(zint(kn) == 0, 1, zint(kn))) != 0)
            if c.branch(bad):
                raise_(ValueError, 'cannot reshape array')
            inferred = mk_int(core.py_floordiv(zint(tot), zint(kn)))
        else:
            inferred = prod(rem_old) if rem_old else 1
        new_mid[k] = inferred
        shape[neg[0]] = inferred
    else:
        to, tn = prod(old_mid) if old_mid else 1, prod(new_mid) if new_mid else 1
        if not same(to, tn):
            c = core.ctx()
            if c.branch(zint(to) != zint(tn)):
                raise_(ValueError, f'cannot reshape array of size into shape')
    src = a
    n_old_mid, n_new_mid = len(old_mid), len(new_mid)

    def remap(i):
        head = tuple(i[:pre])
        tail = tuple(i[len(i) - suf:]) if suf else ()
        mid = i[pre:len(i) - suf] if suf else i[pre:]
        if n_new_mid == 0 and n_old_mid == 0:
            return head + tail
        lin = ravel_index(mid, new_mid) if n_new_mid else 0
        return head + (unravel(lin, old_mid) if n_old_mid else ()) + tail
    src_fn, src_mask = a.fn, a.mask_fn      # value semantics: later stores into ``a`` are not seen through the result
    return NDArray(shape, lambda i: src_fn(remap(i)), a.dtype,
                   (lambda i: src_mask(remap(i))) if src_mask is not None else None)


def transpose(a, axes=None):
    used('NP-TRANSPOSE')
    if isinstance(a, Maybe):
        a = core.resolve_maybe(a)
    a = asarray(a)
    source = a if isinstance(a, NDArray) else None
    a = a.frozen()
    nd = a.ndim
    if axes is None:
        axes = tuple(reversed(range(nd)))
    axes = tuple(ax + nd if ax < 0 else ax for ax in axes)
    if sorted(axes) != list(range(nd)):
        raise_(ValueError, "axes don't match array")
    shape = tuple(a.shape[ax] for ax in axes)

    def remap(i):
        out = [None] * nd
        for k, ax in enumerate(axes):
            out[ax] = i[k]
        return tuple(out)
    r = NDArray(shape, lambda i: a.fn(remap(i)), a.dtype,
                (lambda i: a.mask_fn(remap(i))) if a.mask_fn is not None else None)
    if a.mask_fn is None and source is not None:
        r.base = (source, axes, 'transpose')         # numpy.transpose gives a view: a store through it reaches the array
    if nd >= 2 and axes != tuple(range(nd)):
        # a transposed view: C-contiguous data becomes non C-contiguous (exactly Fortran order when the axes are reversed)
        r.order = None if a.order is None else ('F' if a.order == 'C' else ('C' if axes == tuple(reversed(range(nd))) else None))
    else:
        r.order = a.order
    return r


def stack(arrays, axis=0, dtype=None):
    used('NP-STACK')
    arrs = [asarray(x).frozen() for x in arrays]
    if not arrs:
        raise_(ValueError, 'need at least one array to stack')
    shp = arrs[0].shape
    for x in arrs[1:]:
        if len(x.shape) != len(shp) or not all(same(p, q) or known_true(s_eq(p, q)) for p, q in zip(x.shape, shp)):
            raise_(ValueError, 'all input arrays must have the same shape')
    nd = len(shp) + 1
    ax = axis + nd if axis < 0 else axis
    if not 0 <= ax < nd:
        raise_(ValueError, 'axis out of bounds')
    shape = shp[:ax] + (len(arrs),) + shp[ax:]

    def pick(i, getter):
        k = i[ax]
        rest = tuple(i[:ax]) + tuple(i[ax + 1:])
        if not is_sym(k):
            return getter(arrs[k], rest)
        out = getter(arrs[-1], rest)
        for j in range(len(arrs) - 2, -1, -1):
            out = s_ite(mk_bool(k.z == j), getter(arrs[j], rest), out)
        return out
    anym = any(x.mask_fn is not None for x in arrs)
    return NDArray(shape, lambda i: pick(i, lambda a, r: a.fn(r)), as_dtype(dtype, arrs[0].dtype),
                   (lambda i: pick(i, lambda a, r: a.mask_fn(r) if a.mask_fn else False)) if anym else None)


def repeat(a, repeats, axis=None):
    """NP-REPEAT (scalar repeat count along one axis): out[.., k, ..] = a[.., k // repeats, ..]"""
    used('NP-REPEAT')
    a = asarray(a).frozen()
    if axis is None:
        raise Unsupported('numpy.repeat without an axis')
    if isinstance(repeats, (NDArray, list, tuple)):
        raise Unsupported('numpy.repeat with per-element counts')
    ax = axis + a.ndim if axis < 0 else axis
    c = core.ctx()
    if is_sym(repeats):
        if c.branch(zint(repeats) < 0):
            raise_(ValueError, 'negative dimensions are not allowed')
    elif repeats < 0:
        raise_(ValueError, 'negative dimensions are not allowed')
    n = a.shape[ax]
    shape = a.shape[:ax] + (n * repeats,) + a.shape[ax + 1:]
    one = (not is_sym(n)) and n == 1

    def src(i):
        k = i[ax]
        if one:
            q = 0
        elif not is_sym(k) and not is_sym(repeats):
            q = k // repeats
        else:
            q = mk_int(zint(k) / zint(repeats))
        return tuple(i[:ax]) + (q,) + tuple(i[ax + 1:])
    return NDArray(shape, lambda i: a.fn(src(i)), a.dtype, (lambda i: a.mask_fn(src(i))) if a.mask_fn is not None else None)


def concatenate(arrays, axis=0):
    used('NP-CONCATENATE')
    arrs = [asarray(x).frozen() for x in arrays]
    nd = arrs[0].ndim
    ax = axis + nd if axis < 0 else axis
    offs = [0]
    for x in arrs:
        offs.append(offs[-1] + x.shape[ax])
    shape = arrs[0].shape[:ax] + (offs[-1],) + arrs[0].shape[ax + 1:]

    def fn(i):
        k = i[ax]
        out = None
        for j in range(len(arrs) - 1, -1, -1):
            loc = tuple(i[:ax]) + (k - offs[j],) + tuple(i[ax + 1:])
            if not is_sym(k) and not is_sym(offs[j]) and not is_sym(offs[j + 1]):
                if offs[j] <= k < offs[j + 1]:
                    return arrs[j].fn(loc)
                continue
            v = arrs[j].fn(loc)
            out = v if out is None else s_ite(mk_bool(zint(k) < zint(offs[j + 1])), v, out)
        return out
    return NDArray(shape, fn, arrs[0].dtype)


def expand_dims(a, axis):
    used('NP-EXPAND-DIMS')
    a = asarray(a)
    a = a.frozen()
    nd = a.ndim + 1
    ax = axis + nd if axis < 0 else axis
    shape = a.shape[:ax] + (1,) + a.shape[ax:]
    return NDArray(shape, lambda i: a.fn(tuple(i[:ax]) + tuple(i[ax + 1:])), a.dtype,
                   (lambda i: a.mask_fn(tuple(i[:ax]) + tuple(i[ax + 1:]))) if a.mask_fn else None)


def broadcast_to(a, shape):
    used('NP-BROADCAST-TO')
    a = asarray(a)
    a = a.frozen()
    shape = tuple(shape)
    if len(shape) < a.ndim:
        raise_(ValueError, 'input operand has more dimensions than allowed by the axis remapping')
    off = len(shape) - a.ndim
    for k, n in enumerate(a.shape):
        if not (_is_one(n) or same(n, shape[off + k]) or known_true(s_eq(n, shape[off + k]))):
            raise_(ValueError, 'operands could not be broadcast together with remapped shapes')
    nd = len(shape)
    r = NDArray(shape, lambda i: a.fn(bidx(i, a.shape, nd)), a.dtype)
    r.writeable = False
    return r


def full(shape, fill_value=None, dtype=None, **kw):
    used('NP-FULL')
    if 'fill_value' in kw:
        fill_value = kw['fill_value']
    if not isinstance(shape, (tuple, list)):
        shape = (shape,)
    return NDArray(tuple(shape), lambda i: fill_value, as_dtype(dtype, guess_dtype(fill_value)))


def zeros(shape, dtype=None):
    d = as_dtype(dtype, FLOAT64)
    return full(shape, 0 if d.kind in 'ib' else 0.0, d) if d.kind != 'b' else full(shape, False, d)


def empty(shape, dtype=None, **kw):
    """NP-EMPTY: an array of the given shape whose contents are unspecified (an arbitrary function of the index)"""
    used('NP-EMPTY')
    d = as_dtype(dtype, FLOAT64)
    if not isinstance(shape, (tuple, list)):
        shape = (shape,)
    shape = tuple(shape)
    c = core.ctx()
    for n in shape:
        if is_sym(n) and c.branch(zint(n) < 0):
            raise_(ValueError, 'negative dimensions are not allowed')
    sorts = [z3.IntSort()] * len(shape)
    if d.kind in 'iu':
        f = c.fresh_fn('empty', *sorts, z3.IntSort())
        elem = lambda i: mk_int(f(*[zint(k) for k in i])) if shape else mk_int(f())
    elif d.kind == 'b':
        f = c.fresh_fn('empty', *sorts, z3.BoolSort())
        elem = lambda i: mk_bool(f(*[zint(k) for k in i]))
    elif d.kind == 'f':
        from .floats import SFloat
        fv, fk = c.fresh_fn('empty', *sorts, z3.RealSort()), c.fresh_fn('empty_kind', *sorts, z3.IntSort())

        def elem(i):
            k = fk(*[zint(x) for x in i])
            core.ctx().assume(z3.And(k >= 0, k <= 3))
            return SFloat(mk_int(k), core.mk_real(fv(*[zint(x) for x in i])))
    else:
        raise Unsupported(f'numpy.empty of dtype {d.name}')
    if not shape:
        raise Unsupported('numpy.empty of a scalar shape')
    return NDArray(shape, elem, d)


def empty_like(a, dtype=None, **kw):
    a = asarray(a)
    r = empty(a.shape, as_dtype(dtype, a.dtype)) if as_dtype(dtype, a.dtype).kind in 'iubf' and a.ndim else zeros_like(a, dtype)
    r.order = a.order if a.ndim >= 2 else 'C'
    return r


def full_like(a, fill_value=None, dtype=None, **kw):
    if 'fill_value' in kw:
        fill_value = kw['fill_value']
    a = asarray(a)
    d = as_dtype(dtype, a.dtype)
    if fill_value is NOMASK:
        fill_value = False if d.kind == 'b' else 0
    r = NDArray(a.shape, lambda i: fill_value, d)
    r.order = a.order if a.ndim >= 2 else 'C'          # numpy *_like functions keep the layout of the prototype (order='K')
    return r


def zeros_like(a, dtype=None, **kw):
    a = asarray(a)
    d = as_dtype(dtype, a.dtype)
    return full_like(a, False if d.kind == 'b' else (0 if d.kind in 'iu' else 0.0), d)


def ones_like(a, dtype=None, **kw):
    a = asarray(a)
    d = as_dtype(dtype, a.dtype)
    return full_like(a, True if d.kind == 'b' else (1 if d.kind in 'iu' else 1.0), d)


def arange(*a, dtype=None):
    used('NP-ARANGE')
    if len(a) == 1:
        start, stop = 0, a[0]
    elif len(a) == 2:
        start, stop = a
    else:
        raise Unsupported('arange with step')
    n = stop - start
    if is_sym(n):
        n = mk_int(z3.If(n.z > 0, n.z, 0))
    else:
        n = max(n, 0)
    r = NDArray((n,), lambda i: i[0] + start, as_dtype(dtype, INT64))
    # an arange enumerates start .. stop-1 once each, ascending: membership and position are arithmetic
    r.member_fn = lambda m: mk_bool(z3.And(zint(m) >= zint(start), zint(m) < zint(start) + zint(n)))
    r.position_fn = lambda m: m - start
    return r


def np_where(condition, x=None, y=None):
    """NP-WHERE: where(c, x, y) element-wise with broadcasting: x where c holds, else y; the result type follows numpy (an integer and a
    float give float64; a float and a NaN stay float). where(c) alone is nonzero(c)."""
    used('NP-WHERE')
    if x is None and y is None:
        return nonzero(condition)
    if x is None or y is None:
        raise_(ValueError, 'either both or neither of x and y should be given')
    from .floats import SFloat, to_sfloat
    c = asarray(condition)
    xa, ya = (asarray(x) if isinstance(x, (NDArray, list, tuple, SymSeq)) else x), (asarray(y) if isinstance(y, (NDArray, list, tuple, SymSeq)) else y)
    if any(isinstance(v, NDArray) and v.mask_fn is not None for v in (c, xa, ya)):
        raise Unsupported('numpy.where on masked arrays')

    def kind_of(v):
        if isinstance(v, NDArray):
            return v.dtype
        return guess_dtype(v)
    dx, dy = kind_of(xa), kind_of(ya)
    out = _result_dtype(dx, dy)
    floaty = out.kind == 'f'
    shapes = [v.shape for v in (c, xa, ya) if isinstance(v, NDArray)]
    shp = shapes[0]
    for sh in shapes[1:]:
        shp = broadcast_shapes(shp, sh)
    nd = len(shp)
    cf = c.frozen()
    xf = xa.frozen() if isinstance(xa, NDArray) else None
    yf = ya.frozen() if isinstance(ya, NDArray) else None

    def fn(i):
        k = truthy(cf.fn(bidx(i, cf.shape, nd)))
        a = xf.fn(bidx(i, xf.shape, nd)) if xf is not None else xa
        b = yf.fn(bidx(i, yf.shape, nd)) if yf is not None else ya
        if floaty:
            a, b = to_sfloat(to_float(a)), to_sfloat(to_float(b))
            return SFloat(s_ite(k, a.kind, b.kind), s_ite(k, a.val, b.val))
        return s_ite(k, a, b)
    return NDArray(shp, fn, out)


def np_roll(a, shift, axis=None):
    """NP-ROLL: elements shifted along one axis, those pushed past the end re-enter at the start: out[..., i, ...] = a[..., (i - shift) mod n, ...]"""
    used('NP-ROLL')
    a = asarray(a)
    if axis is None or is_sym(axis) or is_sym(shift) or not isinstance(shift, int) or isinstance(shift, bool):
        raise Unsupported('roll without a concrete axis / shift')
    ax = axis if axis >= 0 else axis + a.ndim
    if not 0 <= ax < a.ndim:
        raise_(ValueError, 'axis out of range')
    n = a.shape[ax]
    src = a.frozen()

    def remap(i):
        k = i[ax]
        if not is_sym(n) and not is_sym(k):
            j = (k - shift) % n if n else k
        else:
            j = mk_int((zint(k) - shift) % zint(n))
        return tuple(i[:ax]) + (j,) + tuple(i[ax + 1:])
    return NDArray(a.shape, lambda i: src.fn(remap(i)), a.dtype, (lambda i: src.mask_fn(remap(i))) if a.mask_fn is not None else None)


def np_median(a, axis=None, **kw):
    """NP-MEDIAN: the median of a 1-D array of at most 6 finite values: the middle element of the sorted values, the mean of the two middle
    ones for an even count (a compare-and-swap network over real values, A-REAL)"""
    used('NP-MEDIAN')
    from .floats import FIN, SFloat, to_sfloat
    a = asarray(a)
    n = a.shape[0] if a.ndim == 1 else None
    if kw or axis not in (None, 0) or n is None or is_sym(n) or not 1 <= n <= 6 or a.mask_fn is not None:
        raise Unsupported('median of a general array')
    vals = [to_sfloat(to_float(a.fn((k,)))) for k in range(n)]
    c = core.ctx()
    for v in vals:
        if v.is_fin() is not True and not c.branch(zbool(v.is_fin())):
            raise Unsupported('median over non-finite values')
    xs = [v.val for v in vals]
    for i in range(n):
        for j in range(n - 1 - i):
            lo, hi = s_ite(xs[j] <= xs[j + 1], xs[j], xs[j + 1]), s_ite(xs[j] <= xs[j + 1], xs[j + 1], xs[j])
            xs[j], xs[j + 1] = lo, hi
    c.assumptions_used.add('A-REAL: finite float arithmetic is real arithmetic')
    if n % 2:
        return SFloat(FIN, xs[n // 2])
    return SFloat(FIN, core.mk_real((core.zreal(xs[n // 2 - 1]) + core.zreal(xs[n // 2])) / 2))


def np_clip(a, a_min=None, a_max=None, **kw):
    """NP-CLIP: element-wise max(a_min, min(a, a_max)) for integers (either bound may be missing)"""
    used('NP-CLIP')
    if kw:
        raise Unsupported('clip options')
    a = asarray(a)
    if a.dtype.kind not in 'iu' or a.mask_fn is not None or any(isinstance(b, NDArray) for b in (a_min, a_max)):
        raise Unsupported('clip of a non-integer / masked array or with array bounds')
    src = a.frozen()

    def fn(i):
        v = src.fn(i)
        if a_max is not None:
            v = s_ite(v > a_max, a_max, v)
        if a_min is not None:
            v = s_ite(v < a_min, a_min, v)
        return v
    return NDArray(a.shape, fn, a.dtype)


def linspace(start, stop, num=50, endpoint=True, **kw):
    """NP-LINSPACE: num evenly spaced values from start to stop (both ends included): element i = start + i * (stop - start) / (num - 1);
    real arithmetic (A-REAL), finite or NaN end points (NaN spreads to every element)"""
    used('NP-LINSPACE')
    from .floats import FIN, NAN, SFloat, to_sfloat
    if kw or not endpoint:
        raise Unsupported('linspace options')
    if isinstance(start, NDArray):
        start = start.fn(())
    if isinstance(stop, NDArray):
        stop = stop.fn(())
    a, b = to_sfloat(start), to_sfloat(stop)
    c = core.ctx()
    c.assumptions_used.add('A-REAL: finite float arithmetic is real arithmetic')
    n = num
    if is_sym(n):
        if c.branch(zint(n) < 0):
            raise_(ValueError, 'Number of samples must be non-negative')
        n = mk_int(z3.If(zint(n) > 0, zint(n), 0))
    elif n < 0:
        raise_(ValueError, 'Number of samples must be non-negative')
    fin = s_and(a.is_fin(), b.is_fin())
    if fin is not True and not c.branch(zbool(s_or(fin, a.is_nan(), b.is_nan()))):
        raise Unsupported('linspace between infinite end points')

    def at(i):
        k = zint(i[0])
        den = z3.If(zint(n) > 1, z3.ToReal(zint(n) - 1), z3.RealVal(1))
        v = core.zreal(a.val) + z3.ToReal(k) * (core.zreal(b.val) - core.zreal(a.val)) / den
        return SFloat(s_ite(fin, FIN, NAN), core.mk_real(v))
    return NDArray((n,), at, FLOAT64)


def indices(dimensions, dtype=None, **kw):
    used('NP-INDICES')
    dims = tuple(dimensions)
    nd = len(dims)
    return NDArray((nd,) + dims, lambda i: _pick(list(i[1:]), i[0]), INT64)


def np_prod(x, axis=None):
    used('NP-PROD')
    if isinstance(x, (tuple, list)):
        return prod(x) if len(x) else 1.0
    if isinstance(x, NDArray) and x.ndim == 1 and not is_sym(x.shape[0]):
        return prod([x.fn((k,)) for k in range(x.shape[0])])
    raise Unsupported('numpy.prod of a symbolic-length array')


def ravel_multi_index(multi_index, dims, mode='raise', order='C'):
    used('NP-RAVEL-MI')
    if mode != 'raise' or order != 'C':
        raise Unsupported(f'ravel_multi_index mode={mode!r} order={order!r}')
    idx = list(multi_index)
    dims = list(dims)
    if len(idx) != len(dims):
        raise_(ValueError, 'parameter multi_index must be a sequence of length %d' % len(dims))
    if any(isinstance(i, NDArray) for i in idx):
        raise Unsupported('ravel_multi_index over arrays')
    for i in idx:
        if not isinstance(i, (int, SInt)) or isinstance(i, bool):
            if isinstance(i, (bool, SBool)):
                continue
            raise_(TypeError, 'only int indices permitted')
    c = core.ctx()
    bad = z3.Or(*[z3.Or(zint(i) < 0, zint(i) >= zint(n)) for i, n in zip(idx, dims)]) if idx else z3.BoolVal(False)
    if c.branch(bad):
        raise_(ValueError, 'invalid entry in coordinates array')
    return ravel_index(idx, dims) if idx else 0


def unravel_index(indices, shape, order='C'):
    used('NP-UNRAVEL')
    if order != 'C':
        raise Unsupported(f'unravel_index order={order!r}')
    if isinstance(indices, NDArray):
        raise Unsupported('unravel_index over arrays')
    shape = tuple(shape) if isinstance(shape, (tuple, list)) else (shape,)
    if not isinstance(indices, (int, SInt)) or isinstance(indices, bool):
        raise_(TypeError, 'only int indices permitted')
    c = core.ctx()
    tot = prod(shape) if shape else 1
    if c.branch(z3.Or(zint(indices) < 0, zint(indices) >= zint(tot))):
        raise_(ValueError, 'index is out of bounds for array with size')
    return unravel(indices, shape)


def isfinite(x):
    from .floats import f_isfinite
    used('NP-ISFINITE')
    if isinstance(x, NDArray) or hasattr(x, '_asarray'):
        x = asarray(x).frozen()
        return NDArray(x.shape, lambda i: f_isfinite(x.fn(i)), BOOL)
    return f_isfinite(x)


def np_abs(x):
    """NP-ABS (elementwise)"""
    used('NP-ABS')
    from .floats import SFloat as _SF, to_sfloat as _tf

    def one(v):
        if isinstance(v, _SF):
            neg = -v
            return s_ite(mk_bool(core.zreal(v.val) < 0), neg, v) if True else v
        if isinstance(v, (int, SInt)) and not isinstance(v, bool):
            return mk_int(z3.If(zint(v) < 0, -zint(v), zint(v)))
        if isinstance(v, float):
            return abs(v)
        raise Unsupported(f'abs({type(v).__name__})')
    if isinstance(x, NDArray) or hasattr(x, '_asarray'):
        x = asarray(x).frozen()
        return NDArray(x.shape, lambda i: one(x.fn(i)), x.dtype, x.mask_fn)
    return one(x)


def isinf(x):
    """NP-ISINF: neither finite nor NaN"""
    from .floats import f_isfinite, f_isnan
    used('NP-ISINF')
    one = lambda v: s_and(s_not(f_isfinite(v)), s_not(f_isnan(v)))
    if isinstance(x, NDArray) or hasattr(x, '_asarray'):
        x = asarray(x).frozen()
        return NDArray(x.shape, lambda i: one(x.fn(i)), BOOL)
    return one(x)


def isnan(x):
    from .floats import f_isnan
    used('NP-ISNAN')
    if isinstance(x, NDArray) or hasattr(x, '_asarray'):
        x = asarray(x).frozen()
        return NDArray(x.shape, lambda i: f_isnan(x.fn(i)), BOOL)
    return f_isnan(x)


def reduce_bool(a, axis, which):
    """any/all over axes.  Reduction over a symbolic extent yields an uninterpreted predicate with
    instantiation on demand (witness facts)."""
    used('NP-ANY-ALL')
    a = asarray(a)
    a = a.frozen()
    if axis is None:
        axes = tuple(range(a.ndim))
    elif isinstance(axis, int):
        axes = (axis + a.ndim if axis < 0 else axis,)
    else:
        axes = tuple(ax + a.ndim if ax < 0 else ax for ax in axis)
    keep = [k for k in range(a.ndim) if k not in axes]
    out_shape = tuple(a.shape[k] for k in keep)
    red_shape = [a.shape[k] for k in axes]

    def full_idx(o, r):
        idx = [None] * a.ndim
        for k, v in zip(keep, o):
            idx[k] = v
        for k, v in zip(axes, r):
            idx[k] = v
        return tuple(idx)

    if all(not is_sym(n) for n in red_shape):
        def fn(o):
            vals = [truthy(a.fn(full_idx(o, r))) for r in itertools.product(*[range(n) for n in red_shape])]
            return (s_or(*vals) if vals else False) if which == 'any' else (s_and(*vals) if vals else True)
    else:
        q = Quantified(a, axes, keep, which)
        fn = q.at
    if not out_shape:
        return fn(())
    return NDArray(out_shape, fn, BOOL)


class Quantified:
    """exists/forall over symbolic index ranges as an uninterpreted predicate plus witness."""

    def __init__(self, a, axes, keep, which):
        c = core.ctx()
        self.a, self.axes, self.keep, self.which = a, axes, keep, which
        nk = len(keep)
        self.pred = c.fresh_fn('q' + which, *([z3.IntSort()] * nk + [z3.BoolSort()]))
        self.wit = [c.fresh_fn(f'wit{j}', *([z3.IntSort()] * nk + [z3.IntSort()])) for j in axes]
        c.lib_used.add('QUANT-SKOLEM')

    def _full(self, o, r):
        idx = [None] * self.a.ndim
        for k, v in zip(self.keep, o):
            idx[k] = v
        for k, v in zip(self.axes, r):
            idx[k] = v
        return tuple(idx)

    def at(self, o):
        c = core.ctx()
        oz = [zint(x) for x in o]
        p = self.pred(*oz) if oz else self.pred()
        w = [mk_int(f(*oz)) if oz else mk_int(f()) for f in self.wit]
        inr = z3.And(*[z3.And(zint(x) >= 0, zint(x) < zint(self.a.shape[k])) for x, k in zip(w, self.axes)])
        body = zbool(truthy(self.a.fn(self._full(o, w))))
        if self.which == 'any':
            # p => witness in range with body true
            c.assume(z3.Implies(p, z3.And(inr, body)))
        else:
            # not p => counter-witness in range with body false
            c.assume(z3.Implies(z3.Not(p), z3.And(inr, z3.Not(body))))
        reg = getattr(c, 'quantifiers', None)
        if reg is None:
            reg = c.quantifiers = []
        reg.append((self, tuple(o)))
        return mk_bool(p)

    def instantiate(self, o, r):
        """Add the instance of the defining axiom for reduced index r (caller chooses r)."""
        c = core.ctx()
        oz = [zint(x) for x in o]
        p = self.pred(*oz) if oz else self.pred()
        inr = z3.And(*[z3.And(zint(x) >= 0, zint(x) < zint(self.a.shape[k])) for x, k in zip(r, self.axes)])
        body = zbool(truthy(self.a.fn(self._full(o, r))))
        if self.which == 'any':
            c.assume(z3.Implies(z3.And(inr, body), p))
        else:
            c.assume(z3.Implies(z3.And(inr, z3.Not(body)), z3.Not(p)))


def np_any(a, axis=None, **kw):
    if isinstance(a, (bool, SBool)):
        return a
    if isinstance(a, _NoMask):
        return False
    return reduce_bool(a, axis, 'any')


def np_all(a, axis=None, **kw):
    if isinstance(a, (bool, SBool)):
        return a
    return reduce_bool(a, axis, 'all')


def selection_of_mask(mask: NDArray) -> Selection:
    cached = getattr(mask, '_selection', None)
    if cached is not None:
        return cached
    shp = mask.shape
    total = prod(shp)
    mfrozen = mask.frozen()
    keep = lambda n: truthy(mfrozen.fn(unravel(n, shp)))
    # SELECTION-EXTENSIONALITY: two boolean arrays that are equal entry by entry select the same entries -- one enumeration.
    # (decided with a fresh probe index; only an unsat answer unifies)
    c = core.ctx()
    if c.check_feasible and mask.ndim == 1:
        for other in getattr(c, 'mask_selections', []):
            if not (same(other.total, total) or (is_sym(total) and is_sym(other.total) and z3.eq(zint(other.total), zint(total)))):
                continue
            probe = mk_int(z3.Int(c._name('ext_probe')))
            inr = z3.And(probe.z >= 0, probe.z < zint(total))
            if not c.feasible(z3.And(inr, zbool(keep(probe)) != zbool(other.keep(probe)))):
                c.lib_used.add('SELECTION-EXTENSIONALITY')
                mask._selection = other
                return other
    sel = Selection(total, keep)
    mask._selection = sel
    reg = getattr(c, 'mask_selections', None)
    if reg is None:
        reg = c.mask_selections = []
    reg.append(sel)
    return sel


def _concrete_bools(a):
    if a.ndim != 1 or is_sym(a.shape[0]) or a.shape[0] > 64:
        return None
    vals = [truthy(a.fn((k,))) for k in range(a.shape[0])]
    if all(isinstance(v, bool) for v in vals):
        return vals
    return None


def flatnonzero(a):
    used('NP-FLATNONZERO')
    a = asarray(a)
    cb = _concrete_bools(a)
    if cb is not None:
        idx = [k for k, v in enumerate(cb) if v]
        r = NDArray((len(idx),), lambda i: _pick(idx, i[0]), INT64)
        r.sorted_unique = False
        return r
    sel = selection_of_mask(a)
    r = NDArray((sel.count,), lambda i: sel.sel(i[0]), INT64)
    r.selection = sel
    r.sorted_unique = True
    return r


def diff(a, n=1, axis=-1, prepend=None, append=None):
    """NP-DIFF (vectors): out[i] = b[i + 1] - b[i] over b = [prepend] + a + [append] (scalars only)"""
    used('NP-DIFF')
    a = asarray(a).frozen()
    if a.ndim != 1 or n != 1 or axis not in (-1, 0):
        raise Unsupported('numpy.diff other than the first difference of a vector')
    for x in (prepend, append):
        if x is not None and not isinstance(x, (int, float, SInt, SReal, bool)):
            raise Unsupported('numpy.diff with an array to prepend / append')
    pre, post = (1 if prepend is not None else 0), (1 if append is not None else 0)
    m = a.shape[0]

    def b(j):           # element j of the extended vector, j from 0 to m + pre + post - 1
        def val(x):
            return mk_int(zint(x)) if isinstance(x, (bool, SBool)) else x
        if not is_sym(j) and not is_sym(m):
            if pre and j == 0:
                return prepend
            if post and j == m + pre:
                return append
            return val(a.fn((j - pre,)))
        inner = val(a.fn((mk_int(zint(j) - pre),)))
        out = inner
        if pre:
            out = s_ite(mk_bool(zint(j) == 0), prepend, out)
        if post:
            out = s_ite(mk_bool(zint(j) == zint(m) + pre), append, out)
        return out
    length = m + pre + post - 1
    c = core.ctx()
    if is_sym(length) and c.branch(zint(length) < 0):
        length = 0
    return NDArray((length,), lambda i: b(mk_int(zint(i[0]) + 1)) - b(i[0]), a.dtype if a.dtype.kind != 'b' else INT64)


def isin(element, test_elements, **kw):
    """NP-ISIN: element-wise membership in a vector given by its membership predicate (a unique / index array) or by its entries"""
    used('NP-ISIN')
    if kw:
        raise Unsupported(f'numpy.isin options {sorted(kw)}')
    a = asarray(element).frozen()
    t = asarray(test_elements)
    if t.ndim != 1:
        raise Unsupported('numpy.isin with test elements that are not a vector')
    mem = membership(t)
    return NDArray(a.shape, lambda i: truthy(mem(a.fn(i))), BOOL)


def nonzero(a):
    """numpy.nonzero of a vector: a 1-tuple holding flatnonzero(a)"""
    a = asarray(a)
    if a.ndim != 1:
        raise Unsupported('numpy.nonzero of an array that is not one-dimensional')
    return (flatnonzero(a),)


def _recognise_enumeration(ia):
    """An array built as (index for index, item in enumerate(xs) if cond) carries the selection of the kept positions and its
    k-th element *is* the k-th kept position: then it is an ascending enumeration without repeats.  Decided with a probe index
    (only an unsat answer counts)."""
    sel = getattr(ia, 'selection', None)
    if sel is None or getattr(ia, 'sorted_unique', False) or getattr(ia, 'ndim', 0) != 1 or ia.dtype.kind not in 'iu':
        return
    c = core.ctx()
    if not c.check_feasible:
        return
    p = mk_int(z3.Int(c._name('enum_probe')))
    inr = z3.And(p.z >= 0, p.z < zint(sel.count))
    try:
        v = ia.fn((p,))
        if not isinstance(v, (int, SInt)):
            return
        if not c.feasible(z3.And(inr, zint(v) != zint(sel.sel(p)))):
            ia.sorted_unique = True
    except Unsupported:
        return


def membership(ia: NDArray):
    """n -> (n occurs in the 1-D integer array ia)."""
    _recognise_enumeration(ia)
    sel = getattr(ia, 'selection', None)
    if sel is not None and getattr(ia, 'sorted_unique', False):
        return lambda n: s_and(mk_bool(z3.And(zint(n) >= 0, zint(n) < zint(sel.total))), sel.keep(n))
    mem = getattr(ia, 'member_fn', None)
    if mem is not None:
        return mem
    if not is_sym(ia.shape[0]):
        vals = [ia.fn((k,)) for k in range(ia.shape[0])]
        return lambda n: s_or(*[s_eq(v, n) for v in vals]) if vals else False
    raise Unsupported('membership in a symbolic index array without a defining predicate')


def position_in(ia: NDArray):
    _recognise_enumeration(ia)
    sel = getattr(ia, 'selection', None)
    if sel is not None and getattr(ia, 'sorted_unique', False):
        return lambda n: sel.rank(n)
    pos = getattr(ia, 'position_fn', None)
    if pos is not None:
        return pos
    if not is_sym(ia.shape[0]):
        vals = [ia.fn((k,)) for k in range(ia.shape[0])]

        def p(n):
            out = len(vals) - 1
            for k in range(len(vals) - 2, -1, -1):
                # numpy keeps the LAST assignment for repeated indexes
                later = s_or(*[s_eq(vals[j], n) for j in range(k + 1, len(vals))])
                out = s_ite(s_and(s_eq(vals[k], n), s_not(later)), k, out)
            return out
        return p
    raise Unsupported('position in a symbolic index array without a defining function')


def index_set(total, keep, name='idx'):
    """An integer array that enumerates {n | keep(n)} in an *unspecified* order without repeats
    (contract of STRtree.query): membership and count are known, order is not."""
    c = core.ctx()
    count = c.fresh_int(name + '_count')
    c.assume(count.z >= 0)
    c.assume(count.z <= zint(total))
    f = c.fresh_fn(name + '_at', z3.IntSort(), z3.IntSort())
    inv = c.fresh_fn(name + '_pos', z3.IntSort(), z3.IntSort())

    def at(i):
        k = zint(i[0])
        v = f(k)
        c2 = core.ctx()
        c2.assume(z3.Implies(z3.And(k >= 0, k < count.z),
                             z3.And(v >= 0, v < zint(total), zbool(keep(mk_int(v))), inv(v) == k)))
        return mk_int(v)
    arr = NDArray((count,), at, INT64)

    def member(n):
        return s_and(mk_bool(z3.And(zint(n) >= 0, zint(n) < zint(total))), keep(n))

    def pos(n):
        c2 = core.ctx()
        nz = zint(n)
        p = inv(nz)
        c2.assume(z3.Implies(zbool(member(n)), z3.And(p >= 0, p < count.z, f(p) == nz)))
        return mk_int(p)
    arr.member_fn = member
    arr.position_fn = pos
    arr.unordered = True
    arr.index_total = total
    arr.index_keep = keep
    return arr


def np_sort(a, axis=-1):
    used('NP-SORT')
    a = asarray(a)
    if a.ndim != 1:
        raise Unsupported('sort of multi-dimensional array')
    if getattr(a, 'sorted_unique', False):
        return a
    if getattr(a, 'unordered', False):
        # sorting an enumeration without repeats of {n | keep(n)} gives the increasing enumeration
        sel = Selection(a.index_total, a.index_keep)
        core.ctx().assume(sel.count.z == zint(a.shape[0]))
        r = NDArray((sel.count,), lambda i: sel.sel(i[0]), a.dtype)
        r.selection = sel
        r.sorted_unique = True
        return r
    if not is_sym(a.shape[0]) and a.shape[0] <= 1:
        return a
    raise Unsupported('sort of a general symbolic array')


def np_sort_any(a, axis=-1):
    """numpy.sort: 1-D index arrays (np_sort), or any array along an axis of concrete length 2 (min / max per pair)"""
    a = asarray(a)
    if a.ndim == 1:
        return np_sort(a, axis)
    ax = axis + a.ndim if axis < 0 else axis
    n = a.shape[ax]
    if is_sym(n) or n != 2 or a.mask_fn is not None:
        raise Unsupported('sort of a multi-dimensional array along an axis that is not of length 2')
    used('NP-SORT-PAIRS')
    src = a.frozen()

    def fn(i):
        lo = tuple(i[:ax]) + (0,) + tuple(i[ax + 1:])
        hi = tuple(i[:ax]) + (1,) + tuple(i[ax + 1:])
        x, y = src.fn(lo), src.fn(hi)
        from .floats import to_sfloat as _tf
        fx, fy = _tf(x), _tf(y)
        # NaN sorts last; otherwise ascending
        swap = s_or(fx.is_nan(), s_and(s_not(fy.is_nan()), fy < fx))
        first, second = s_ite(swap, fy, fx), s_ite(swap, fx, fy)
        k = i[ax]
        return s_ite(mk_bool(zint(k) == 0), first, second) if is_sym(k) else (first if k == 0 else second)
    return NDArray(src.shape, fn, src.dtype)


def _unique_small(a, return_index, return_inverse, return_counts):
    """NP-UNIQUE-SMALL: numpy.unique with return_index / return_inverse / return_counts over a 1-D array of at most 4 symbolic integers
    (or order-isomorphic keys): explicit case split on which entries are equal and how the distinct values are ordered."""
    used('NP-UNIQUE-SMALL')
    c = core.ctx()
    n = a.shape[0]
    if a.ndim != 1 or is_sym(n) or n > 4 or a.mask_fn is not None or a.dtype.kind not in 'iu':
        raise Unsupported('unique with return_index / return_inverse of a general array')
    vals = [a.fn((i,)) for i in range(n)]
    groups = []
    for i, v in enumerate(vals):
        for g in groups:
            same_ = s_eq(v, g[0])
            if same_ is True or (same_ is not False and c.branch(zbool(same_))):
                g[1].append(i)
                break
        else:
            groups.append([v, [i]])
    ordered = []
    for g in groups:
        pos = 0
        while pos < len(ordered):
            lt = ordered[pos][0] < g[0]
            if lt is True or (lt is not False and c.branch(zbool(lt))):
                pos += 1
            else:
                break
        ordered.insert(pos, g)
    out = [asarray([g[0] for g in ordered], dtype=a.dtype) if ordered else NDArray((0,), lambda i: 0, a.dtype)]
    if return_index:
        out.append(asarray([g[1][0] for g in ordered], dtype=INT64) if ordered else NDArray((0,), lambda i: 0, INT64))
    if return_inverse:
        inv = [None] * n
        for k, g in enumerate(ordered):
            for i in g[1]:
                inv[i] = k
        out.append(asarray(inv, dtype=INT64) if inv else NDArray((0,), lambda i: 0, INT64))
    if return_counts:
        out.append(asarray([len(g[1]) for g in ordered], dtype=INT64) if ordered else NDArray((0,), lambda i: 0, INT64))
    return tuple(out)


def np_unique(a, return_index=False, return_inverse=False, return_counts=False):
    used('NP-UNIQUE')
    a = asarray(a)
    if return_index or return_inverse or return_counts:
        return _unique_small(a, return_index, return_inverse, return_counts)
    if getattr(a, 'sorted_unique', False):
        return a
    if getattr(a, 'unordered', False):
        return np_sort(a)
    if getattr(a, 'member_fn', None) is not None and getattr(a, 'index_total', None) is not None:
        sel = Selection(a.index_total, a.index_keep)
        r = NDArray((sel.count,), lambda i: sel.sel(i[0]), a.dtype)
        r.selection = sel
        r.sorted_unique = True
        return r
    vr = getattr(a, 'value_range', None)
    if vr is not None and a.ndim == 1 and vr[1] - vr[0] <= 16:
        return UniqueSmall(a, vr[0], vr[1])
    if a.ndim == 1 and a.dtype.kind in 'iu' and a.mask_fn is None:
        return value_set(a)
    raise Unsupported('unique of a general symbolic array')


def value_set(a: NDArray):
    """NP-UNIQUE-VALUESET: numpy.unique of a 1-D array of non-negative integers = the ascending enumeration of the values
    that occur.  U is a ghost bound above every value (it exists: the array is finite); occurs(e) is an uninterpreted predicate
    with witness position wit(e):
        occurs(e)  =>  0 <= wit(e) < len(a)  and  a[wit(e)] == e                      (added whenever occurs(e) is evaluated)
        0 <= p < len(a)  =>  0 <= a[p] < U  and  occurs(a[p])                         (added by result.value_at(p), a ghost call)
    Non-negativity of the values is *checked* (a probe position), not assumed."""
    c = core.ctx()
    original = a
    a = a.frozen()
    n = a.shape[0]
    probe = mk_int(z3.Int(c._name('uniq_probe')))
    if c.check_feasible and c.feasible(z3.And(probe.z >= 0, probe.z < zint(n), zint(a.fn((probe,))) < 0)):
        raise Unsupported('unique of an integer array that may hold negative values')
    U = c.fresh_int('uniq_bound')
    c.assume(U >= 0)
    occurs = c.fresh_fn('occurs', z3.IntSort(), z3.BoolSort())
    wit = c.fresh_fn('occurs_at', z3.IntSort(), z3.IntSort())
    used('NP-UNIQUE-VALUESET')

    def keep(e):
        ez = zint(e)
        w = wit(ez)
        core.ctx().assume(z3.Implies(occurs(ez), z3.And(w >= 0, w < zint(n), zint(a.fn((mk_int(w),))) == ez)))
        return mk_bool(occurs(ez))
    sel = Selection(U, keep, name='uniq')
    r = NDArray((sel.count,), lambda i: sel.sel(i[0]), a.dtype)
    r.selection = sel
    r.sorted_unique = True
    r.member_fn = lambda m: s_and(mk_bool(z3.And(zint(m) >= 0, zint(m) < U.z)), keep(m))
    r.index_total, r.index_keep = U, keep
    r.valueset = (a, wit, occurs, U)
    r.source_array = original

    def value_at(p):
        """ghost: position p of the source holds a value of the set"""
        v = a.fn((p,))
        pz = zint(p)
        core.ctx().assume(z3.Implies(z3.And(pz >= 0, pz < zint(n)), z3.And(zint(v) >= 0, zint(v) < U.z, occurs(zint(v)))))
        return v
    r.value_at = value_at
    reg = getattr(c, 'valuesets', None)          # ghost registry (creation order) for specifications that talk about the witnesses
    if reg is None:
        reg = c.valuesets = []
    reg.append(r)
    return r


class UniqueSmall:
    """numpy.unique of an integer array whose values lie in a small known range: the ascending list of the
    candidates that occur.  Iteration forks on the occurrence of each candidate (an existential with witness)."""
    _pyvc_model_class = True

    def __init__(self, a, lo, hi):
        self.a, self.lo, self.hi = a.frozen(), lo, hi
        self.present = {}

    def _present(self, v):
        if v not in self.present:
            a = self.a
            eq = NDArray(a.shape, lambda i: s_eq(a.fn(i), v), BOOL)
            self.present[v] = reduce_bool(eq, None, 'any')
        return self.present[v]

    def _iterate(self):
        for v in range(self.lo, self.hi + 1):
            if truth(self._present(v)):
                yield v

    def _len(self):
        raise Unsupported('len of unique values')


def np_sum(a, axis=None, **kw):
    used('NP-SUM')
    a = asarray(a)
    a = a.frozen()
    if axis is None:
        axes = tuple(range(a.ndim))
    else:
        axes = (axis + a.ndim if axis < 0 else axis,) if isinstance(axis, int) else tuple(axis)
    if any(is_sym(a.shape[k]) for k in axes):
        if a.ndim == 1 and a.dtype.kind in 'bi' and a.mask_fn is None:
            # NP-SUM-ABSTRACT: the sum of an integer vector of symbolic length is an integer the executor does not compute (a ghost
            # total, recorded with its vector); it is non-negative when no entry can be negative (decided with a probe index)
            used('NP-SUM-ABSTRACT')
            c = core.ctx()
            total = c.fresh_int('sum')
            if c.check_feasible:
                p = mk_int(z3.Int(c._name('sum_probe')))
                inr = z3.And(p.z >= 0, p.z < zint(a.shape[0]))
                v = a.fn((p,))
                if not c.feasible(z3.And(inr, zint(v) < 0)):
                    c.assume(total >= 0)
            reg = getattr(c, 'sums', None)
            if reg is None:
                reg = c.sums = []
            reg.append((total, a))
            return total
        raise Unsupported('sum over a symbolic extent')
    keep = [k for k in range(a.ndim) if k not in axes]
    out_shape = tuple(a.shape[k] for k in keep)

    def fn(o):
        t = 0
        for r in itertools.product(*[range(a.shape[k]) for k in axes]):
            idx = [None] * a.ndim
            for k, v in zip(keep, o):
                idx[k] = v
            for k, v in zip(axes, r):
                idx[k] = v
            x = a.fn(tuple(idx))
            t = t + (mk_int(zint(x)) if isinstance(x, (bool, SBool)) else x)
        return t
    if not out_shape:
        return fn(())
    r = NDArray(out_shape, fn, INT64 if a.dtype.kind in 'bi' else a.dtype)
    if a.dtype.kind == 'b':
        r.value_range = (0, prod([a.shape[k] for k in axes]))
    return r


def pad(a, pad_width, mode='constant', constant_values=0, **kw):
    used('NP-PAD')
    if mode != 'constant':
        raise Unsupported(f'pad mode {mode!r}')
    a = asarray(a)
    a = a.frozen()
    nd = a.ndim
    if isinstance(pad_width, (int, SInt)):
        pw = [(pad_width, pad_width)] * nd
    else:
        pw = list(pad_width)
        if len(pw) == 2 and all(isinstance(x, (int, SInt)) for x in pw):
            pw = [tuple(pw)] * nd
        elif len(pw) == 1 and nd > 1:
            pw = [tuple(pw[0])] * nd
        pw = [tuple(p) if isinstance(p, (tuple, list)) else (p, p) for p in pw]
    if len(pw) != nd:
        raise_(ValueError, 'pad_width does not match array rank')
    cv = constant_values
    if a.dtype.kind == 'b' and cv == 0:
        cv = False
    shape = tuple(n + b + e for n, (b, e) in zip(a.shape, pw))

    def fn(i):
        inside = s_and(*[mk_bool(z3.And(zint(x) >= zint(b), zint(x) < zint(b) + zint(n)))
                         for x, (b, e), n in zip(i, pw, a.shape)])
        if inside is False:
            return cv
        inner = a.fn(tuple(x - b for x, (b, e) in zip(i, pw)))
        return s_ite(inside, inner, cv)
    return NDArray(shape, fn, a.dtype)


def meshgrid(*xi, indexing='xy'):
    used('NP-MESHGRID')
    if len(xi) != 2 or indexing != 'xy':
        raise Unsupported('meshgrid other than 2-D xy')
    x, y = asarray(xi[0]), asarray(xi[1])
    shp = (y.shape[0], x.shape[0])
    return [NDArray(shp, lambda i: x.fn((i[1],)), x.dtype), NDArray(shp, lambda i: y.fn((i[0],)), y.dtype)]


def column_stack(tup):
    used('NP-COLUMN-STACK')
    arrs = [asarray(t) for t in tup]
    cols = []
    for a in arrs:
        if a.ndim == 1:
            cols.append(NDArray((a.shape[0], 1), (lambda a: lambda i: a.fn((i[0],)))(a), a.dtype))
        elif a.ndim == 2:
            cols.append(a)
        else:
            raise Unsupported('column_stack of rank > 2')
    return concatenate(cols, axis=1)


def _itemsize(d):
    import re
    m = re.search(r'(\d+)$', getattr(d, 'name', ''))
    return int(m.group(1)) // 8 if m else None


def _narrow(v, name, kind):
    c = core.ctx()
    if kind == 'f':
        from .floats import FIN, SFloat, to_sfloat
        x = to_sfloat(v)
        f = z3.Function('round_to_' + name, z3.RealSort(), z3.RealSort())
        over = z3.Function('overflows_' + name, z3.RealSort(), z3.IntSort())
        kz, vz = zint(x.kind), core.zreal(x.val)
        k2 = z3.If(kz == FIN, over(vz), kz)          # a finite value may round to a finite value or overflow to an infinity
        c.assume(z3.And(over(vz) >= 0, over(vz) <= 3))
        return SFloat(mk_int(k2), core.mk_real(f(vz)))
    f = z3.Function('wrap_to_' + name, z3.IntSort(), z3.IntSort())
    bits = 8 * _itemsize(DType(name, kind))
    lo, hi = -(2 ** (bits - 1)), 2 ** (bits - 1) - 1
    vz = zint(v)
    c.assume(z3.And(f(vz) >= lo, f(vz) <= hi, z3.Implies(z3.And(vz >= lo, vz <= hi), f(vz) == vz)))
    return mk_int(f(vz))


def _float_to_sized_int(v, d):
    """astype(float -> intN): truncation toward zero for finite values within the range of the type; anything else (NaN, infinities, out of
    range) gives an unspecified integer of the type (numpy: undefined, with a RuntimeWarning)"""
    from .floats import FIN, to_sfloat
    c = core.ctx()
    x = to_sfloat(v)
    bits = 8 * _itemsize(d)
    lo, hi = -(2 ** (bits - 1)), 2 ** (bits - 1) - 1
    vz = core.zreal(x.val)
    tr = z3.If(vz >= 0, z3.ToInt(vz), -z3.ToInt(-vz))
    g = z3.Function('unspecified_' + d.name, z3.RealSort(), z3.IntSort(), z3.IntSort())
    kz = zint(x.kind)
    junk = g(vz, kz)
    c.assume(z3.And(junk >= lo, junk <= hi))
    return mk_int(z3.If(z3.And(kz == FIN, tr >= lo, tr <= hi), tr, junk))


def can_cast(from_, to, casting='safe'):
    """NP-CAN-CAST: numpy's own casting table for named dtypes"""
    import numpy as _real
    used('NP-CAN-CAST')
    a = from_.dtype if isinstance(from_, NDArray) else as_dtype(from_)
    b = as_dtype(to)
    try:
        return bool(_real.can_cast(_real.dtype(a.name), _real.dtype(b.name), casting=casting))
    except TypeError:
        raise Unsupported(f'numpy.can_cast({a.name}, {b.name}): not a numpy dtype name')


class _CClass:
    """numpy.c_[a, b, ...]: one-dimensional arrays of one length as the columns of a 2-D array (NP-COLUMN-STACK)"""
    _pyvc_model_class = True

    def _getitem(self, key):
        if not isinstance(key, tuple):
            key = (key,)
        if any(isinstance(k, (slice, str)) for k in key):
            raise Unsupported('numpy.c_ with slices / directives')
        arrs = [asarray(k) for k in key]
        n = arrs[0].shape[0]
        for a in arrs[1:]:
            if a.ndim >= 1 and not (same(a.shape[0], n) or known_true(s_eq(a.shape[0], n))):
                raise_(ValueError, 'all the input array dimensions except for the concatenation axis must match exactly')
        return column_stack(arrs)


class SubDType:
    """numpy.dtype((base, n)): every item is a row of n values of the base type"""
    _pyvc_model_class = True

    def __init__(self, base, n):
        self.base, self.n = base, n


def np_dtype(spec):
    if isinstance(spec, tuple) and len(spec) == 2 and isinstance(spec[1], int) and not isinstance(spec[1], bool):
        return SubDType(as_dtype(spec[0]), spec[1])
    return as_dtype(spec)


def fromiter(it, dtype=None, count=-1):
    used('NP-FROMITER')
    if isinstance(dtype, SubDType):
        # NP-FROMITER-SUBARRAY: items are rows of dtype.n values -> array of shape (items, n)
        rows = fromiter(it, dtype=OBJECT, count=count)
        width = dtype.n

        def fn(i):
            row = rows.fn((i[0],))
            if isinstance(row, (list, tuple)):
                if len(row) != width:
                    raise_(ValueError, 'setting an array element with a sequence of the wrong length')
                return _pick(list(row), i[1])
            return asarray(row).fn((i[1],))
        return NDArray((rows.shape[0], width), fn, dtype.base)
    d = as_dtype(dtype, OPAQUE)
    if isinstance(it, SymSeq):
        n = it.length
        if not (isinstance(count, int) and count == -1):
            c = core.ctx()
            if c.branch(zint(count) != zint(n)):
                raise Unsupported('fromiter count differs from iterator length')
        r = NDArray((n,), lambda i: it.at(i[0]), d)
        for attr in ('selection', 'sorted_unique'):
            if hasattr(it, attr):
                setattr(r, attr, getattr(it, attr))
        return r
    vals = list(it)
    if isinstance(count, int) and count >= 0 and count != len(vals):
        if len(vals) < count:
            raise_(ValueError, 'iterator too short')
        vals = vals[:count]
    return NDArray((len(vals),), lambda i: _pick(vals, i[0]), d)


def _pick(vals, k):
    if not is_sym(k):
        return vals[k]
    out = vals[-1]
    for j in range(len(vals) - 2, -1, -1):
        out = s_ite(mk_bool(k.z == j), vals[j], out)
    return out


class NdIter:
    """numpy.nditer(arr, ['multi_index']) -- only the multi_index walk is modelled."""
    _pyvc_model_class = True

    def __init__(self, arr, flags=()):
        used('NP-NDITER-MULTI-INDEX')
        if list(flags) != ['multi_index']:
            raise Unsupported(f'nditer flags {flags!r}')
        self.arr = asarray(arr)
        self._cur = None

    def _getattr(self, name):
        if name == 'multi_index':
            if self._cur is None:
                raise Unsupported('nditer.multi_index outside iteration')
            return self._cur
        raise Unsupported(f'nditer.{name}')

    def _lazy_map(self, fn, cond):
        shp = self.arr.shape
        it = self

        def at(k):
            saved = it._cur
            it._cur = unravel(k, shp)
            try:
                return fn(it.arr.fn(it._cur))
            finally:
                it._cur = saved
        if cond is not None:
            raise Unsupported('filtered iteration over nditer')
        return SymSeq(prod(shp), at, 'gen')

    def _iterate(self):
        shp = self.arr.shape
        if any(is_sym(n) for n in shp):
            raise Unsupported('eager iteration over nditer of symbolic shape')

        def gen():
            for idx in itertools.product(*[range(n) for n in shp]):
                self._cur = idx
                yield self.arr.fn(idx)
        return gen()


# --- numpy.ma ---------------------------------------------------------------------------


class _NoMask:
    _pyvc_model_class = True

    def __repr__(self):
        return 'nomask'

    def _truthy(self):
        return False

    def __invert__(self):
        return True


NOMASK = _NoMask()


def ma_masked_array(data, mask=NOMASK, dtype=None, **kw):
    used('NP-MA-MASKED-ARRAY')
    a = asarray(data).frozen()
    if mask is NOMASK or mask is False:
        return NDArray(a.shape, a.fn, a.dtype, lambda i: False)
    if mask is True:
        return NDArray(a.shape, a.fn, a.dtype, lambda i: True)
    m = asarray(mask)
    nd = a.ndim
    return NDArray(a.shape, a.fn, a.dtype, lambda i: truthy(m.fn(bidx(i, m.shape, nd))))


def ma_getmask(a):
    used('NP-MA-GETMASK')
    if isinstance(a, NDArray) and a.mask_fn is not None:
        m = NDArray(a.shape, a.mask_fn, BOOL)
        if getattr(a, 'mask_shrinks', False):
            anym = reduce_bool(m, None, 'any')
            if not truth(anym):
                used('NP-MA-SHRINK')
                return NOMASK       # nothing is masked: the mask was shrunk to the scalar nomask
        return m
    return NOMASK


def ma_getmaskarray(a):
    used('NP-MA-GETMASK')
    a = asarray(a)
    a = a.frozen()
    return NDArray(a.shape, a.mask_fn if a.mask_fn is not None else (lambda i: False), BOOL)


def ma_getdata(a):
    a = asarray(a)
    a = a.frozen()
    return NDArray(a.shape, a.fn, a.dtype)


def ma_masked_equal(x, value):
    used('NP-MA-MASKED-EQUAL')
    a = asarray(x)
    old = a.mask_fn or (lambda i: False)
    r = NDArray(a.shape, a.fn, a.dtype, lambda i: s_or(old(i), s_eq(a.fn(i), value)))
    r.fill_value = value
    r.mask_shrinks = True        # NP-MA-SHRINK: masked_equal / masked_where drop an all-False mask (getmask then answers nomask)
    return r


def ma_masked_invalid(x, copy=True):
    used('NP-MA-MASKED-INVALID')
    from .floats import f_isfinite
    a = asarray(x)
    src = a.frozen()
    old = src.mask_fn or (lambda i: False)
    r = NDArray(a.shape, src.fn, a.dtype, lambda i: s_or(old(i), s_not(f_isfinite(src.fn(i)))))
    if copy is False and isinstance(x, NDArray):
        # NP-MA-NOCOPY: the masked array shares its data with the argument -- a store into it is a store into the argument
        r.base = (x, None, 'data')
    return r


def ma_filled(a, fill_value=None):
    used('NP-MA-FILLED')
    a = asarray(a)
    a = a.frozen()
    a = a.frozen()
    a = a.frozen()
    if a.mask_fn is None:
        return a
    if fill_value is None:
        raise Unsupported('filled() with the default fill value')
    return NDArray(a.shape, lambda i: s_ite(a.mask_fn(i), fill_value, a.fn(i)), a.dtype)


def ma_is_masked(x):
    used('NP-MA-IS-MASKED')
    if isinstance(x, NDArray) and x.mask_fn is not None:
        return reduce_bool(NDArray(x.shape, x.mask_fn, BOOL), None, 'any')
    return False


def np_equal(a, b):
    return elementwise2(a, b, s_eq, BOOL)


def np_array(obj, dtype=None, **kw):
    used('NP-ARRAY')
    a = asarray(obj, dtype)
    d = as_dtype(dtype, a.dtype)
    return NDArray(a.shape, a.fn, d, a.mask_fn)


def np_append(arr, values, axis=None):
    a = asarray(arr)
    v = asarray(values)
    if v.ndim == 0:
        v0 = v
        v = NDArray((1,), lambda i: v0.fn(()), v0.dtype)
    if axis is not None or a.ndim != 1:
        raise Unsupported('append with axis')
    return concatenate([a, v])


def nan_reduce(which):
    def f(a, axis=None, **kw):
        from .floats import nan_reduce_impl
        used('NP-NAN' + which.upper())
        return nan_reduce_impl(which, a, axis)
    return f


class IInfo:
    _pyvc_model_class = True

    def __init__(self, d):
        d = as_dtype(d)
        bits = {'int32': 32, 'int64': 64}.get(d.name)
        if bits is None:
            raise Unsupported(f'iinfo({d.name})')
        self.min = -(2 ** (bits - 1))
        self.max = 2 ** (bits - 1) - 1


class _NoOpCM:
    _pyvc_model_class = True

    def __init__(self, *a, **k):
        pass

    def _cm_enter(self):
        return self

    def _cm_exit(self, exc):
        return False


class _MA:
    _pyvc_model_class = True
    masked_array = staticmethod(ma_masked_array)
    MaskedArray = NDArray
    getmask = staticmethod(ma_getmask)
    getmaskarray = staticmethod(ma_getmaskarray)
    getdata = staticmethod(ma_getdata)
    masked_equal = staticmethod(ma_masked_equal)
    masked_invalid = staticmethod(ma_masked_invalid)
    filled = staticmethod(ma_filled)
    is_masked = staticmethod(ma_is_masked)
    masked = MASKED
    nomask = NOMASK
    MaskError = MaskError


class _SIndex:
    _pyvc_model_class = True

    def _getitem(self, idx):
        return idx


class NumpyModule:
    _pyvc_model_class = True
    ndarray = NDArray
    ma = _MA
    nan = None      # set in floats
    inf = None
    s_ = _SIndex()
    bool_ = ScalarType(BOOL)
    int32 = ScalarType(INT32)
    int16 = ScalarType(INT16)
    int8 = ScalarType(INT8)
    int64 = ScalarType(INT64)
    int_ = ScalarType(INT64)
    float64 = ScalarType(FLOAT64)
    double = ScalarType(FLOAT64)
    float32 = ScalarType(FLOAT32)
    object_ = ScalarType(OBJECT)
    datetime64 = ScalarType(DATETIME)
    timedelta64 = ScalarType(TIMEDELTA)
    integer = ScalarType(None, 'integer')
    floating = ScalarType(None, 'floating')
    number = ScalarType(None, 'number')
    array = staticmethod(np_array)
    equal = staticmethod(np_equal)
    asarray = staticmethod(np_array)
    stack = staticmethod(stack)
    reshape = staticmethod(lambda a, shape, order='C': asarray(a).reshape(shape, order=order))
    dtype = staticmethod(np_dtype)
    repeat = staticmethod(repeat)
    concatenate = staticmethod(concatenate)
    expand_dims = staticmethod(expand_dims)
    broadcast_to = staticmethod(broadcast_to)
    transpose = staticmethod(transpose)
    full = staticmethod(full)
    zeros = staticmethod(zeros)
    full_like = staticmethod(full_like)
    zeros_like = staticmethod(zeros_like)
    ones_like = staticmethod(ones_like)
    empty_like = staticmethod(empty_like)
    empty = staticmethod(empty)
    arange = staticmethod(arange)
    linspace = staticmethod(linspace)
    where = staticmethod(np_where)
    roll = staticmethod(np_roll)
    median = staticmethod(np_median)
    clip = staticmethod(np_clip)
    indices = staticmethod(indices)
    prod = staticmethod(np_prod)
    ravel_multi_index = staticmethod(ravel_multi_index)
    unravel_index = staticmethod(unravel_index)
    isfinite = staticmethod(isfinite)
    isnan = staticmethod(isnan)
    isinf = staticmethod(isinf)
    abs = staticmethod(np_abs)
    absolute = staticmethod(np_abs)
    any = staticmethod(np_any)
    all = staticmethod(np_all)
    sum = staticmethod(np_sum)
    nonzero = staticmethod(nonzero)
    diff = staticmethod(diff)
    isin = staticmethod(isin)
    flatnonzero = staticmethod(flatnonzero)
    sort = staticmethod(np_sort_any)
    unique = staticmethod(np_unique)
    pad = staticmethod(pad)
    meshgrid = staticmethod(meshgrid)
    column_stack = staticmethod(column_stack)
    c_ = _CClass()
    can_cast = staticmethod(can_cast)
    fromiter = staticmethod(fromiter)
    nditer = NdIter
    append = staticmethod(np_append)
    nanmin = staticmethod(nan_reduce('min'))
    nanmax = staticmethod(nan_reduce('max'))
    nanmean = staticmethod(nan_reduce('mean'))
    iinfo = IInfo
    errstate = _NoOpCM

    @staticmethod
    def array2string(*a, **k):
        from .strings import OpaqueStr
        return OpaqueStr('<array>')


for _n, _v in list(vars(NumpyModule).items()):
    if isinstance(_v, staticmethod):
        _v.__func__._pyvc_model = True
for _n, _v in list(vars(_MA).items()):
    if isinstance(_v, staticmethod):
        _v.__func__._pyvc_model = True
