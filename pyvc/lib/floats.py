"""IEEE-aware float values: (kind in {finite, nan, +inf, -inf}, real value).

Arithmetic on finite values is real arithmetic (assumption A-REAL).  NaN and
infinities are separate kinds because the code branches on them.
"""
from __future__ import annotations

import itertools

import z3

from .. import core
from ..core import (SBool, SInt, SReal, Unsupported, is_sym, mk_bool, mk_int, mk_real, s_and, s_ite,
                    s_not, s_or, truthy, zbool, zint, zreal)

FIN, NAN, PINF, NINF = 0, 1, 2, 3


class SFloat:
    """kind: int|SInt in {0,1,2,3}; val: real value when finite."""
    _pyvc_model_class = True
    _is_float = True

    def __init__(self, kind, val):
        self.kind = kind
        self.val = val

    def __repr__(self):
        return f'SFloat(kind={self.kind}, val={self.val})'

    @staticmethod
    def fresh(name='x', maybe_nan=True):
        c = core.ctx()
        v = c.fresh_real(name)
        if not maybe_nan:
            return SFloat(FIN, v)
        k = c.fresh_int(name + '_kind')
        c.assume(z3.And(k.z >= 0, k.z <= 3))
        return SFloat(k, v)

    def is_fin(self):
        return self.kind == FIN if not is_sym(self.kind) else mk_bool(self.kind.z == FIN)

    def is_nan(self):
        return self.kind == NAN if not is_sym(self.kind) else mk_bool(self.kind.z == NAN)

    def _bin(self, o, op, opname):
        o = to_sfloat(o)
        core.ctx().assumptions_used.add('A-REAL: finite float arithmetic is real arithmetic')
        fin = s_and(self.is_fin(), o.is_fin())
        if fin is True:
            return SFloat(FIN, op(self.val, o.val))
        anynan = s_or(self.is_nan(), o.is_nan())
        # non-finite results: NaN if either is NaN; inf arithmetic collapsed to NaN-or-inf conservatively:
        # only the NaN/finite distinction is relied on by the code under contract.
        if opname in ('add', 'sub', 'mul', 'div'):
            kind = s_ite(fin, FIN, s_ite(anynan, NAN, _inf_kind(self, o, opname)))
        else:
            raise Unsupported(opname)
        return SFloat(kind, op(self.val, o.val))

    def __add__(self, o): return self._bin(o, lambda a, b: a + b, 'add')
    def __radd__(self, o): return to_sfloat(o)._bin(self, lambda a, b: a + b, 'add')
    def __sub__(self, o): return self._bin(o, lambda a, b: a - b, 'sub')
    def __rsub__(self, o): return to_sfloat(o)._bin(self, lambda a, b: a - b, 'sub')
    def __mul__(self, o): return self._bin(o, lambda a, b: a * b, 'mul')
    def __rmul__(self, o): return to_sfloat(o)._bin(self, lambda a, b: a * b, 'mul')

    def __truediv__(self, o):
        o = to_sfloat(o)
        if not is_sym(o.kind) and o.kind == FIN and not is_sym(o.val) and o.val != 0:
            return self._bin(o, lambda a, b: a / b, 'div')
        raise Unsupported('float division by a symbolic value')

    def __neg__(self):
        k = self.kind
        if is_sym(k):
            nk = mk_int(z3.If(k.z == PINF, NINF, z3.If(k.z == NINF, PINF, k.z)))
        else:
            nk = {PINF: NINF, NINF: PINF}.get(k, k)
        return SFloat(nk, -self.val)

    def _cmp(self, o, op):
        o = to_sfloat(o)
        fin = s_and(self.is_fin(), o.is_fin())
        if fin is True:
            return op(self.val, o.val)
        if not (is_sym(self.kind) or is_sym(o.kind)):
            pass
        anynan = s_or(self.is_nan(), o.is_nan())
        # comparisons with NaN are False; infinities ordered
        a = s_ite(self.is_fin(), self.val, s_ite(_is(self.kind, PINF), 10**30, -10**30))
        b = s_ite(o.is_fin(), o.val, s_ite(_is(o.kind, PINF), 10**30, -10**30))
        return s_and(s_not(anynan), op(a, b))

    def __lt__(self, o): return self._cmp(o, lambda a, b: a < b)
    def __le__(self, o): return self._cmp(o, lambda a, b: a <= b)
    def __gt__(self, o): return self._cmp(o, lambda a, b: a > b)
    def __ge__(self, o): return self._cmp(o, lambda a, b: a >= b)

    def _eq(self, o):
        if not isinstance(o, (SFloat, int, float, SInt, SReal)):
            return False
        o = to_sfloat(o)
        return s_and(s_not(self.is_nan()), s_not(o.is_nan()),
                     s_ite(s_and(self.is_fin(), o.is_fin()), core.s_eq(self.val, o.val), core.s_eq(self.kind, o.kind)))

    def same_bits(self, o):
        """Bitwise identity in the sense the properties need: same kind, and same value when finite."""
        o = to_sfloat(o)
        return s_and(core.s_eq(self.kind, o.kind), s_or(s_not(self.is_fin()), core.s_eq(self.val, o.val)))

    __hash__ = None


def _is(kind, k):
    return kind == k if not is_sym(kind) else mk_bool(kind.z == k)


def _inf_kind(a, b, opname):
    # one operand infinite, none NaN.  add: inf + (-inf) = NaN; else the infinite one's sign.
    # Only used to keep NaN-ness right; exact infinity signs are not relied upon.
    if opname in ('add', 'sub'):
        bk = b.kind if opname == 'add' else (-b).kind
        both_inf = s_and(s_not(a.is_fin()), s_not(_is(bk, FIN)))
        return s_ite(both_inf, s_ite(core.s_eq(a.kind, bk), a.kind, NAN), s_ite(a.is_fin(), bk, a.kind))
    # mul/div with infinities: 0*inf = NaN ; treat as NaN conservatively when a zero could be involved
    return NAN


def to_sfloat(v):
    if isinstance(v, SFloat):
        return v
    if isinstance(v, bool):
        return SFloat(FIN, 1 if v else 0)
    if isinstance(v, float):
        if v != v:
            return SFloat(NAN, 0)
        if v == float('inf'):
            return SFloat(PINF, 0)
        if v == float('-inf'):
            return SFloat(NINF, 0)
        return SFloat(FIN, mk_real(zreal(v)))
    if isinstance(v, int):
        return SFloat(FIN, v)
    if isinstance(v, (SInt, SReal)):
        return SFloat(FIN, v)
    if isinstance(v, SBool):
        return SFloat(FIN, mk_int(zint(v)))
    if isinstance(v, core.SVal):
        raise Unsupported('opaque value used in float arithmetic')
    if v is None:
        raise Unsupported('None used as float')
    raise Unsupported(f'cannot convert {type(v).__name__} to float')


def sfloat_ite(c, a, b):
    a, b = to_sfloat(a), to_sfloat(b)
    return SFloat(s_ite(c, a.kind, b.kind), s_ite(c, a.val, b.val))


def sfloat_to_int(v):
    v = to_sfloat(v)
    if v.is_fin() is not True:
        c = core.ctx()
        if not c.branch(zbool(v.is_fin())):
            raise Unsupported('conversion of a non-finite float to int')
    val = v.val
    if isinstance(val, int):
        return val
    if isinstance(val, SInt):
        return val
    if isinstance(val, SReal):
        z = val.z
        return mk_int(z3.If(z >= 0, z3.ToInt(z), -z3.ToInt(-z)))
    return int(val)


def f_isfinite(v):
    if isinstance(v, SFloat):
        return v.is_fin()
    if isinstance(v, float):
        return v == v and v not in (float('inf'), float('-inf'))
    if isinstance(v, (int, SInt, SReal, bool, SBool)):
        return True
    raise Unsupported(f'isfinite({type(v).__name__})')


def f_isnan(v):
    if isinstance(v, SFloat):
        return v.is_nan()
    if isinstance(v, float):
        return v != v
    if isinstance(v, (int, SInt, SReal, bool, SBool)):
        return False
    raise Unsupported(f'isnan({type(v).__name__})')


NANV = SFloat(NAN, 0)
INFV = SFloat(PINF, 0)


def nan_reduce_impl(which, a, axis):
    from . import numpy_ as np
    if isinstance(a, list):
        a = np.stack([np.asarray(x) for x in a], axis=0)
    a = np.asarray(a)
    if axis is None:
        axes = tuple(range(a.ndim))
    else:
        axes = (axis + a.ndim if axis < 0 else axis,) if isinstance(axis, int) else tuple(axis)
    keep = [k for k in range(a.ndim) if k not in axes]
    out_shape = tuple(a.shape[k] for k in keep)
    if any(is_sym(a.shape[k]) for k in axes):
        return _nan_reduce_symbolic(which, a, axes, keep, out_shape)

    def fn(o):
        vals = []
        for r in itertools.product(*[range(a.shape[k]) for k in axes]):
            idx = [None] * a.ndim
            for k, v in zip(keep, o):
                idx[k] = v
            for k, v in zip(axes, r):
                idx[k] = v
            vals.append(to_sfloat(a.fn(tuple(idx))))
        return _reduce_vals(which, vals)
    if not out_shape:
        return fn(())
    return np.NDArray(out_shape, fn, np.FLOAT64)


def _reduce_vals(which, vals):
    if not vals:
        return NANV
    notnan = [s_not(v.is_nan()) for v in vals]
    anyv = s_or(*notnan)
    if which == 'mean':
        # the code under contract only takes means of values that are finite or NaN
        cnt = 0
        tot = 0
        for v, ok in zip(vals, notnan):
            cnt = cnt + s_ite(ok, 1, 0)
            tot = tot + s_ite(ok, v.val, 0)
        allfin = s_and(*[s_or(v.is_nan(), v.is_fin()) for v in vals])
        if allfin is not True:
            c = core.ctx()
            if not c.branch(zbool(allfin)):
                raise Unsupported('nanmean over infinite values')
        safe = s_ite(anyv, cnt, 1)
        mean = core.mk_real(zreal(tot) / zreal(safe))
        return SFloat(s_ite(anyv, FIN, NAN), mean)
    # min / max over non-NaN values (finite assumed when present)
    best = None
    for v, ok in zip(vals, notnan):
        if best is None:
            best = (ok, v.val)
        else:
            have, bv = best
            better = s_and(ok, s_or(s_not(have), (v.val < bv) if which == 'min' else (v.val > bv)))
            best = (s_or(have, ok), s_ite(better, v.val, bv))
    return SFloat(s_ite(best[0], FIN, NAN), best[1])


def _nan_reduce_symbolic(which, a, axes, keep, out_shape):
    """nanmin / nanmax over symbolic extents: an uninterpreted result with its defining facts
    instantiated on demand (``.bound(idx)`` adds  result <= a[idx]  for min, etc.)."""
    from . import numpy_ as np
    if which == 'mean':
        raise Unsupported('nanmean over a symbolic extent')
    c = core.ctx()
    nk = len(keep)
    f = c.fresh_fn('nan' + which, *([z3.IntSort()] * nk + [z3.RealSort()]))
    has = c.fresh_fn('nan' + which + '_has', *([z3.IntSort()] * nk + [z3.BoolSort()]))
    wit = [c.fresh_fn('nan' + which + f'_w{j}', *([z3.IntSort()] * nk + [z3.IntSort()])) for j in axes]
    c.lib_used.add('NP-NANMINMAX-SKOLEM')

    def full(o, r):
        idx = [None] * a.ndim
        for k, v in zip(keep, o):
            idx[k] = v
        for k, v in zip(axes, r):
            idx[k] = v
        return tuple(idx)

    def at(o):
        oz = [zint(x) for x in o]
        val = f(*oz) if oz else f()
        h = has(*oz) if oz else has()
        w = [mk_int(g(*oz)) if oz else mk_int(g()) for g in wit]
        inr = z3.And(*[z3.And(zint(x) >= 0, zint(x) < zint(a.shape[k])) for x, k in zip(w, axes)])
        we = to_sfloat(a.fn(full(o, w)))
        cc = core.ctx()
        cc.assume(z3.Implies(h, z3.And(inr, zbool(we.is_fin()), zreal(we.val) == val)))
        res = SFloat(s_ite(mk_bool(h), FIN, NAN), mk_real(val))
        res._reduce = (which, a, axes, keep, tuple(o), f, has)

        def bound(r):
            e = to_sfloat(a.fn(full(o, r)))
            inr2 = z3.And(*[z3.And(zint(x) >= 0, zint(x) < zint(a.shape[k])) for x, k in zip(r, axes)])
            cmp_ = (val <= zreal(e.val)) if which == 'min' else (val >= zreal(e.val))
            core.ctx().assume(z3.Implies(z3.And(inr2, zbool(e.is_fin())), z3.And(h, cmp_)))
        res.bound = bound
        return res
    if not out_shape:
        return at(())
    return np.NDArray(out_shape, at, np.FLOAT64)
