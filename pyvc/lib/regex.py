"""Model of the ``re`` module for symbolic subjects.

Patterns are always concrete (taken from the source text); they are translated from
``sre_parse``'s parse tree into z3 regular expressions with Python's real ``\\d`` / ``\\s`` / ``\\w``
classes (computed from ``unicodedata`` / ``str`` predicates at start-up).  On concrete subjects the
real ``re`` module is used.

match / fullmatch / search on a symbolic subject return ``Maybe(None | MatchModel)``:
the match exists iff the subject has a prefix (match), is (fullmatch) or contains (search) a word of
the language.  Capture groups are fresh strings tied to the subject by the concatenation structure
of the pattern (top-level sequence of groups and group-free pieces); *which* of several possible
decompositions Python's backtracking picks is not modelled -- every consistent decomposition is
allowed (over-approximation; refutations are replayed natively).
"""
from __future__ import annotations

import re as _re
import sys

import z3

try:
    import re._parser as sre_parse          # py >= 3.11
    import re._constants as sre_constants
except ImportError:                          # pragma: no cover
    import sre_parse
    import sre_constants

from .. import core
from ..core import ExcObj, Maybe, PyRaise, SBool, SStr, Unsupported, mk_bool, mk_str, zstr
from ..interp import model

MAXCP = 0x2FFFF   # z3's default character range


def _ranges(pred):
    out = []
    start = None
    for cp in range(0, MAXCP + 1):
        ok = pred(chr(cp))
        if ok and start is None:
            start = cp
        elif not ok and start is not None:
            out.append((start, cp - 1))
            start = None
    if start is not None:
        out.append((start, MAXCP))
    return out


_CLASS_CACHE = {}


def class_ranges(name):
    if name not in _CLASS_CACHE:
        if name == 'digit':
            _CLASS_CACHE[name] = _ranges(lambda ch: ch.isdecimal())      # re's \d == Unicode category Nd
        elif name == 'space':
            _CLASS_CACHE[name] = _ranges(lambda ch: ch.isspace())
        elif name == 'word':
            _CLASS_CACHE[name] = _ranges(lambda ch: ch.isalnum() or ch == '_')
        else:
            raise Unsupported(f'regex class {name}')
    return _CLASS_CACHE[name]


def _chr(cp):
    return z3.StringVal(chr(cp)) if cp < 0x10000 and chr(cp).isprintable() and chr(cp) not in '\\"' else z3.Unit(z3.CharVal(cp)) \
        if hasattr(z3, 'CharVal') else z3.StringVal(chr(cp))


def _range_re(lo, hi):
    if lo == hi:
        return z3.Re(_chr(lo))
    return z3.Range(_chr(lo), _chr(hi))


def _union(res):
    res = list(res)
    if not res:
        return z3.Empty(z3.ReSort(z3.StringSort()))
    if len(res) == 1:
        return res[0]
    return z3.Union(*res)


def ranges_re(ranges):
    return _union(_range_re(lo, hi) for lo, hi in ranges)


def _complement_ranges(ranges):
    out = []
    prev = 0
    for lo, hi in sorted(ranges):
        if lo > prev:
            out.append((prev, lo - 1))
        prev = max(prev, hi + 1)
    if prev <= MAXCP:
        out.append((prev, MAXCP))
    return out


CATEGORY = {
    sre_constants.CATEGORY_DIGIT: ('digit', False), sre_constants.CATEGORY_NOT_DIGIT: ('digit', True),
    sre_constants.CATEGORY_SPACE: ('space', False), sre_constants.CATEGORY_NOT_SPACE: ('space', True),
    sre_constants.CATEGORY_WORD: ('word', False), sre_constants.CATEGORY_NOT_WORD: ('word', True),
}


def _in_ranges(items):
    negate = False
    ranges = []
    for op, av in items:
        if op is sre_constants.NEGATE:
            negate = True
        elif op is sre_constants.LITERAL:
            ranges.append((av, av))
        elif op is sre_constants.RANGE:
            ranges.append((av[0], av[1]))
        elif op is sre_constants.CATEGORY:
            nm, neg = CATEGORY[av]
            r = class_ranges(nm)
            ranges.extend(_complement_ranges(r) if neg else r)
        else:
            raise Unsupported(f'regex set item {op}')
    return _complement_ranges(ranges) if negate else ranges


def translate(parsed, flags=0):
    """sre parse tree -> z3 regex (whole language of the sub-pattern)."""
    parts = []
    for op, av in parsed:
        if op is sre_constants.LITERAL:
            parts.append(z3.Re(_chr(av)))
        elif op is sre_constants.NOT_LITERAL:
            parts.append(ranges_re(_complement_ranges([(av, av)])))
        elif op is sre_constants.ANY:
            parts.append(ranges_re(_complement_ranges([(10, 10)])))
        elif op is sre_constants.IN:
            parts.append(ranges_re(_in_ranges(av)))
        elif op is sre_constants.CATEGORY:
            nm, neg = CATEGORY[av]
            r = class_ranges(nm)
            parts.append(ranges_re(_complement_ranges(r) if neg else r))
        elif op is sre_constants.BRANCH:
            parts.append(_union(translate(alt, flags) for alt in av[1]))
        elif op is sre_constants.SUBPATTERN:
            parts.append(translate(av[3], flags))
        elif op in (sre_constants.MAX_REPEAT, sre_constants.MIN_REPEAT):
            lo, hi, sub = av
            r = translate(sub, flags)
            if hi is sre_constants.MAXREPEAT:
                if lo == 0:
                    parts.append(z3.Star(r))
                elif lo == 1:
                    parts.append(z3.Plus(r))
                else:
                    parts.append(z3.Concat(*([r] * lo + [z3.Star(r)])))
            else:
                parts.append(z3.Loop(r, lo, hi))
        elif op is sre_constants.AT:
            raise Unsupported(f'regex anchor {av} inside a pattern')
        else:
            raise Unsupported(f'regex construct {op}')
    if not parts:
        return z3.Re(z3.StringVal(''))
    if len(parts) == 1:
        return parts[0]
    return z3.Concat(*parts)


ANY_STR = None


def any_string():
    return z3.Full(z3.ReSort(z3.StringSort()))


class PatternModel:
    _pyvc_model_class = True

    def __init__(self, pattern, flags=0):
        if not isinstance(pattern, str):
            raise Unsupported('symbolic regular expression pattern')
        self.pattern = pattern
        self.flags = flags
        self.real = _re.compile(pattern, flags)
        if flags & ~(_re.UNICODE):
            self._unsupported = f'regex flags {flags}'
        else:
            self._unsupported = None
        self.parsed = sre_parse.parse(pattern, flags)
        self.groups = self.real.groups

    # -- language ------------------------------------------------------------------------
    def language(self):
        if self._unsupported:
            raise Unsupported(self._unsupported)
        return translate(self.parsed, self.flags)

    def _pieces(self):
        """Top-level sequence split into (is_group, sub-parse) pieces; groups must be top level."""
        pieces = []
        cur = []

        def contains_group(items):
            for op, av in items:
                if op is sre_constants.SUBPATTERN:
                    if av[0] is not None:
                        return True
                    if contains_group(av[3]):
                        return True
                elif op is sre_constants.BRANCH:
                    if any(contains_group(alt) for alt in av[1]):
                        return True
                elif op in (sre_constants.MAX_REPEAT, sre_constants.MIN_REPEAT):
                    if contains_group(av[2]):
                        return True
            return False
        for op, av in self.parsed:
            if op is sre_constants.SUBPATTERN and av[0] is not None:
                if contains_group(av[3]):
                    raise Unsupported('nested capture groups')
                if cur:
                    pieces.append((False, list(cur)))
                    cur = []
                pieces.append((True, av[3]))
            else:
                if contains_group([(op, av)]):
                    raise Unsupported('capture group below the top-level sequence')
                cur.append((op, av))
        if cur:
            pieces.append((False, cur))
        return pieces

    def _symbolic(self, s: SStr, mode):
        c = core.ctx()
        c.lib_used.add('PY-RE (regex translated from the source pattern via sre_parse; groups: any consistent decomposition)')
        lang = self.language()
        full = any_string()
        if mode == 'fullmatch':
            cond = z3.InRe(s.z, lang)
        elif mode == 'match':
            cond = z3.InRe(s.z, z3.Concat(lang, full))
        else:
            cond = z3.InRe(s.z, z3.Concat(full, lang, full))
        # Decide through a fresh boolean: on the matching path only the (equivalent) decomposition is asserted,
        # on the other path the negated membership -- keeps the solver's queries small.
        matched = c.fresh_bool('re_matched')
        if not c.branch(matched.z):
            c.assume(z3.Not(cond))
            return None
        # decomposition
        pieces = self._pieces()
        segs = []
        groups = []
        for isg, sub in pieces:
            v = c.fresh_str('grp' if isg else 'seg')
            c.assume(z3.InRe(v.z, translate(sub, self.flags)))
            segs.append(v.z)
            if isg:
                groups.append(v)
        pre = c.fresh_str('pre') if mode == 'search' else None
        post = c.fresh_str('post') if mode != 'fullmatch' else None
        allp = ([pre.z] if pre is not None else []) + segs + ([post.z] if post is not None else [])
        c.assume(s.z == (z3.Concat(*allp) if len(allp) > 1 else allp[0]))
        c.event('re.' + mode, s, tuple(groups), post)
        return MatchModel(self, s, groups, post)

    def _do(self, s, mode):
        if isinstance(s, SStr):
            return self._symbolic(s, mode)
        if not isinstance(s, str):
            raise PyRaise(ExcObj(TypeError, ('expected string or bytes-like object',)))
        m = getattr(self.real, mode)(s)
        return m

    def match(self, s, *a):
        return self._do(s, 'match')

    def fullmatch(self, s, *a):
        return self._do(s, 'fullmatch')

    def search(self, s, *a):
        return self._do(s, 'search')


class MatchModel:
    _pyvc_model_class = True

    def __init__(self, pat, subject, groups, rest):
        self.pat, self.subject, self._groups, self.rest = pat, subject, groups, rest

    def groups(self, default=None):
        return tuple(self._groups)

    def group(self, *idx):
        if not idx or idx == (0,):
            raise Unsupported('match.group(0) on a symbolic subject')
        vals = tuple(self._groups[i - 1] for i in idx)
        return vals[0] if len(vals) == 1 else vals

    def _truthy(self):
        return True


class ReModule:
    _pyvc_model_class = True
    UNICODE = _re.UNICODE
    IGNORECASE = _re.IGNORECASE
    I = _re.I
    Pattern = PatternModel
    Match = MatchModel

    @staticmethod
    @model
    def compile(pattern, flags=0):
        return PatternModel(pattern, flags)

    @staticmethod
    @model
    def match(pattern, s, flags=0):
        return PatternModel(pattern, flags).match(s)

    @staticmethod
    @model
    def fullmatch(pattern, s, flags=0):
        return PatternModel(pattern, flags).fullmatch(s)

    @staticmethod
    @model
    def search(pattern, s, flags=0):
        return PatternModel(pattern, flags).search(s)

    @staticmethod
    @model
    def escape(s):
        return _re.escape(s)

    @staticmethod
    @model
    def sub(pattern, repl, s, *a, **k):
        if isinstance(s, SStr):
            raise Unsupported('re.sub on a symbolic subject')
        return _re.sub(pattern, repl, s, *a, **k)

    @staticmethod
    @model
    def split(pattern, s, *a, **k):
        if isinstance(s, SStr):
            raise Unsupported('re.split on a symbolic subject')
        return _re.split(pattern, s, *a, **k)
