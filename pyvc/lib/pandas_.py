"""Library contracts for the small part of pandas the code under contract touches (trusted base): a DataFrame is a set of named
columns of one length with a row index (labels); a Series is one column.

PD-FRAME: frame[name] is the column; frame.reset_index(drop=True) keeps every column value for value, in row order, and labels the rows
0 .. n-1; frame.copy() is independent of the original (index name included); frame.to_xarray() is a Dataset with one dimension named
after the index (``index`` if unnamed), a coordinate of that name holding the row labels in row order, and one variable per column on
that dimension, values in row order."""
from __future__ import annotations

from .. import core
from ..core import Unsupported
from ..interp import model
from . import numpy_ as np
from .numpy_ import NDArray, asarray, used


class IndexModel:
    _pyvc_model_class = True

    def __init__(self, labels, name=None):
        self.labels = list(labels)
        self.name = name

    def _setattr(self, k, v):
        if k != 'name':
            raise Unsupported(f'Index.{k} = ...')
        core.foreach_guard(getattr(self, '_born', 0), 'store to Index.name')
        self.name = v

    def _len(self):
        return len(self.labels)

    def _asarray(self):
        return asarray(self.labels)


class SeriesModel:
    _pyvc_model_class = True

    def __init__(self, arr, index, name=None):
        self.arr, self.index, self.name = arr, index, name

    def _asarray(self):
        return self.arr

    def _len(self):
        return self.arr.shape[0]

    @property
    def values(self):
        return self.arr

    def to_numpy(self):
        return self.arr


class DataFrameModel:
    _pyvc_model_class = True

    def __init__(self, columns, index=None, index_name=None):
        used('PD-FRAME')
        self.columns_ = {k: asarray(v) for k, v in columns.items()}
        n = None
        for a in self.columns_.values():
            if a.ndim != 1:
                raise Unsupported('DataFrame column that is not one-dimensional')
            n = a.shape[0]
        if n is None:
            n = 0
        if not isinstance(n, int):
            raise Unsupported('DataFrame with a symbolic number of rows')
        self.nrows = n
        self.index = index if isinstance(index, IndexModel) else IndexModel(list(range(n)) if index is None else index, index_name)
        if len(self.index.labels) != n:
            raise Unsupported('index length differs from the column length')

    def _getitem(self, key):
        if isinstance(key, str):
            if key not in self.columns_:
                raise core.PyRaise(core.ExcObj(KeyError, (key,)))
            return SeriesModel(self.columns_[key], self.index, key)
        raise Unsupported(f'DataFrame[{key!r}]')

    def _contains(self, key):
        return key in self.columns_

    def _len(self):
        return self.nrows

    @property
    def columns(self):
        return list(self.columns_)

    def reset_index(self, drop=False, **kw):
        if not drop or kw:
            raise Unsupported('DataFrame.reset_index other than (drop=True)')
        core.ctx().event('frame', 'reset_index')
        return DataFrameModel(dict(self.columns_), IndexModel(list(range(self.nrows)), None))

    def copy(self, deep=True):
        return DataFrameModel({k: v.frozen() for k, v in self.columns_.items()}, IndexModel(list(self.index.labels), self.index.name))

    def to_xarray(self):
        from .xarray_ import Variable, XDataset
        used('PD-FRAME')
        dim = self.index.name if self.index.name is not None else 'index'
        ds = XDataset()
        ds._vars[dim] = Variable((dim,), asarray(list(self.index.labels)), {}, {})
        ds._coord_names.add(dim)
        for k, a in self.columns_.items():
            if k == dim:
                raise core.PyRaise(core.ExcObj(ValueError, ('cannot insert index, already exists',)))
            ds._vars[k] = Variable((dim,), a.frozen(), {}, {})
        return ds

    def _getattr(self, name):
        try:
            return object.__getattribute__(self, name)
        except AttributeError:
            raise Unsupported(f'DataFrame.{name} is not modelled')
