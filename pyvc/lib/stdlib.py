"""Standard-library surface seen by the interpreted code.

Pure modules operating on concrete values are passed through (itertools, operator,
functools.reduce, re, json, pathlib, textwrap, collections); the rest are small models
that record *events* in the trace (warnings, file writes, hash updates).
"""
from __future__ import annotations

import collections
import datetime
import functools
import itertools
import json
import operator
import os
import pathlib
import re
import textwrap
import types

import z3

from .. import core
from ..core import ExcObj, PyRaise, Unsupported, is_sym
from ..interp import Dummy, Opaque, exc_matches, model


class Suppress:
    _pyvc_model_class = True

    def __init__(self, *types_):
        self.types = types_

    def _cm_enter(self):
        return None

    def _cm_exit(self, exc):
        return exc is not None and exc_matches(exc, tuple(self.types))


class NullCM:
    _pyvc_model_class = True

    def __init__(self, *a, **k):
        pass

    def _cm_enter(self):
        return self

    def _cm_exit(self, exc):
        return False


class FileModel(NullCM):
    def __init__(self, a, k):
        self.a, self.k = a, k
        self.written = []

    def write(self, s):
        self.written.append(s)
        core.ctx().event('file.write', self.a, s)

    def read(self):
        raise Unsupported('file read')


class BytesOf:
    """Opaque byte string denoting ``what`` of ``payload`` (used in hash traces)."""
    _pyvc_model_class = True

    def __init__(self, what, payload, tag=None):
        self.what, self.payload, self.tag = what, payload, tag

    def __repr__(self):
        return f'<bytes {self.what}>'

    def _len(self):
        c = core.ctx()
        if isinstance(self.what, tuple) and self.what[0] == 'int':
            return 4 if self.what[1] == 'int32' else 8
        if isinstance(self.what, tuple) and self.what[0] == 'marshal' and self.tag is not None:
            import z3
            f = getattr(c, '_marshal_len', None)
            if f is None:
                f = c._marshal_len = z3.Function('marshal_len', z3.IntSort(), z3.IntSort())
            n = core.mk_int(f(core.zint(self.tag)))
            c.assume(n >= 0)
            c.assume(n < 2 ** 31)
            return n
        if not hasattr(self, '_length'):
            self._length = c.fresh_int('nbytes')
            c.assume(self._length >= 0)
        return self._length


class Warnings:
    _pyvc_model_class = True

    @staticmethod
    @model
    def warn(message, category=None, stacklevel=1, **kw):
        cat = category if category is not None else UserWarning
        name = getattr(cat, '__name__', None) or getattr(cat, 'name', '?')
        core.ctx().event('warning', name, message)

    catch_warnings = NullCM

    @staticmethod
    @model
    def filterwarnings(*a, **k):
        return None

    @staticmethod
    @model
    def simplefilter(*a, **k):
        return None


class Logging:
    _pyvc_model_class = True
    config = Dummy('logging.config')
    DEBUG, INFO, WARNING, ERROR = 10, 20, 30, 40

    @staticmethod
    @model
    def getLogger(name=None):
        return LoggerModel()

    @staticmethod
    @model
    def captureWarnings(flag):
        return None

    @staticmethod
    @model
    def basicConfig(*a, **k):
        return None


class LoggerModel:
    _pyvc_model_class = True

    def _getattr(self, name):
        if name == 'getChild':
            return model(lambda *a, **k: LoggerModel())

        @model
        def log(*a, **k):
            core.ctx().event('log', name)
        return log


class OpaqueValue:
    """A library value the executor only passes around (parsed JSON, data frames, paths ...)."""
    _pyvc_model_class = True

    def __init__(self, what, **info):
        self.what = what
        self.info = info

    def __repr__(self):
        return f'<{self.what}>'

    def _getattr(self, name):
        if name in ('what', 'info'):
            return object.__getattribute__(self, name)
        info = object.__getattribute__(self, 'info')
        if name in info:
            return info[name]
        try:
            return object.__getattribute__(self, name)
        except AttributeError:
            raise Unsupported(f'{self.what}.{name} is not modelled')

    def _format(self, spec):
        from .strings import OpaqueStr
        return OpaqueStr(f'<{self.what}>')


def choice(name):
    """A nondeterministic boolean outcome of a library call (both outcomes explored)."""
    c = core.ctx()
    return c.branch(c.fresh_bool(name).z)


class JsonModel:
    _pyvc_model_class = True
    JSONDecodeError = json.JSONDecodeError

    @staticmethod
    @model
    def loads(s, **kw):
        from ..core import SStr
        if isinstance(s, SStr):
            core.ctx().lib_used.add('PY-JSON (loads either raises JSONDecodeError or returns some value)')
            core.ctx().event('json.loads', s)
            if choice('json_loads_ok'):
                return OpaqueValue('json', source=s)
            raise PyRaise(ExcObj(json.JSONDecodeError, ('invalid json',)))
        try:
            return json.loads(s, **kw)
        except ValueError as e:
            raise PyRaise(ExcObj(type(e), (str(e),)))

    @staticmethod
    @model
    def load(f, **kw):
        core.ctx().event('json.load', f)
        if choice('json_load_ok'):
            return OpaqueValue('json', source=f)
        raise PyRaise(ExcObj(json.JSONDecodeError, ('invalid json',)))

    @staticmethod
    @model
    def dump(obj, f, **kw):
        core.ctx().event('json.dump', obj, f, kw)

    @staticmethod
    @model
    def dumps(obj, **kw):
        from ..core import is_sym
        core.ctx().event('json.dumps', obj)
        try:
            return json.dumps(obj, **kw)
        except TypeError:
            return BytesOf('json', obj)


class PathModel:
    """pathlib.Path over a symbolic (or opaque) string."""
    _pyvc_model_class = True

    def __init__(self, s, suffix=None):
        self.s = s
        self._suffix = suffix

    def exists(self):
        core.ctx().event('path.exists', self)
        return choice('path_exists')

    @property
    def suffix(self):
        if self._suffix is None:
            self._suffix = core.ctx().fresh_str('suffix')
        return self._suffix

    def open(self, *a, **k):
        core.ctx().event('path.open', self, a)
        return FileModel((self,) + a, k)

    def __truediv__(self, other):
        return PathModel(('join', self, other))

    def with_suffix(self, suffix):
        return PathModel(('with_suffix', self, suffix))

    def with_name(self, name):
        return PathModel(('with_name', self, name))

    def _format(self, spec):
        from .strings import OpaqueStr
        return OpaqueStr('<path>')

    def __repr__(self):
        return f'<Path {self.s!r}>'


class _PathType(type):
    def __call__(cls, *a):
        from ..core import SStr
        if len(a) == 1 and isinstance(a[0], (SStr, OpaqueValue, PathModel)):
            return a[0] if isinstance(a[0], PathModel) else PathModel(a[0])
        return pathlib.Path(*a)


class PathClass(metaclass=_PathType):
    _pyvc_model = True

    @staticmethod
    def _isinstance(x):
        return isinstance(x, (PathModel, pathlib.PurePath))


class PathlibModel:
    _pyvc_model_class = True
    PurePath = pathlib.PurePath
    Path = PathClass


class Recorder:
    """Stand-in for GUI / plotting objects (matplotlib, cartopy): every attribute is a Recorder, every call is recorded
    as a trace event ('plot', path, args, kwargs) and returns a Recorder."""
    _pyvc_model_class = True

    def __init__(self, path='obj'):
        object.__setattr__(self, '_path', path)

    def _getattr(self, name):
        return Recorder(f'{self._path}.{name}')

    def __getattr__(self, name):
        if name.startswith('_'):
            raise AttributeError(name)
        return Recorder(f'{self._path}.{name}')

    def _setattr(self, name, value):
        core.ctx().event('plot-set', f'{self._path}.{name}', value)

    def __call__(self, *a, **k):
        core.ctx().event('plot', self._path, a, k)
        return Recorder(self._path + '()')

    def _iterate(self):
        return iter(())

    def __repr__(self):
        return f'<{self._path}>'


class FrameStub(OpaqueValue):
    def __init__(self, what='dataframe'):
        super().__init__(what)

    def _getattr(self, name):
        if name == 'iloc':
            return _ILoc(self)
        if name == 'head':
            return model(lambda *a: FrameStub('rows-head'))
        if name.startswith('_'):
            raise Unsupported(f'DataFrame.{name} is not modelled')
        # any other method gives *another* table (dropna, query, sort_values, rename ...): what it holds is not modelled, only that it is
        # no longer the table this one was

        def derived(*a, **k):
            core.ctx().event('frame-derived', self, name, a, k)
            return FrameStub(f'{self.what}.{name}(...)')
        return model(derived)

    def _getitem(self, key):
        # a column (or a selection of rows / columns): another object derived from this table; reading alone changes nothing
        return FrameStub(f'{self.what}[{key!r}]')

    def _setitem(self, key, value):
        # PD-FRAME-STORE: `df[col] = ...` replaces a column of THIS table in place: the table is no longer what was read
        core.ctx().event('frame-derived', self, '__setitem__', (key, value), {})

    def _len(self):
        return core.ctx().fresh_int('nrows')


class _ILoc:
    _pyvc_model_class = True

    def __init__(self, df):
        self.df = df

    def _getitem(self, idx):
        core.ctx().event('iloc', self.df, idx)
        return FrameStub('rows')


class _OpaqueIndex:
    """a pandas index the executor only passes around: its length is some non-negative integer, its entries some tuples"""
    _pyvc_model_class = True

    def __init__(self, what, source, n=None):
        self.what, self.source = what, source
        self.n = n

    def drop_duplicates(self, **kw):
        core.ctx().event('call', 'Index.drop_duplicates', self)
        return _OpaqueIndex(self.what + '.drop_duplicates()', self)

    def _len(self):
        if self.n is None:
            c = core.ctx()
            self.n = c.fresh_int('index_len')
            c.assume(self.n >= 0)
        return self.n

    def to_list(self):
        from .seq import SymSeq
        from .floats import FIN, SFloat
        c = core.ctx()
        fx, fy = c.fresh_fn('index_x', z3.IntSort(), z3.RealSort()), c.fresh_fn('index_y', z3.IntSort(), z3.RealSort())
        return SymSeq(self._len(), lambda k: (SFloat(FIN, core.mk_real(fx(core.zint(k)))), SFloat(FIN, core.mk_real(fy(core.zint(k))))), 'list')


class PandasModel:
    _pyvc_model_class = True

    class MultiIndex:
        _pyvc_model_class = True

        @staticmethod
        def from_arrays(arrays, **kw):
            core.ctx().event('call', 'pandas.MultiIndex.from_arrays', arrays)
            return _OpaqueIndex('multiindex', arrays)

    class RangeIndex:
        """PD-RANGEINDEX: isinstance(index, pandas.RangeIndex). Labels that form an arithmetic progression of integers may be held as a
        RangeIndex or as a plain integer index - the labels do not tell - so both answers are explored; any other labels: no."""
        _pyvc_model_class = True

        @staticmethod
        def _isinstance(x):
            from .pandas_ import IndexModel
            if not isinstance(x, IndexModel):
                return False
            labels = list(x.labels)
            if not all(isinstance(v, int) and not isinstance(v, bool) for v in labels):
                return False
            steps = {b - a for a, b in zip(labels, labels[1:])}
            if len(steps) > 1 or 0 in steps:
                return False
            core.ctx().lib_used.add('PD-RANGEINDEX')
            return choice('index_is_held_as_a_RangeIndex')

    @staticmethod
    @model
    def to_numeric(arg, **kw):
        # PD-TO-NUMERIC: another object with (possibly) other values: cells that are not numbers become NaN with errors='coerce'
        core.ctx().event('call', 'pandas.to_numeric', arg, kw)
        return FrameStub(f'to_numeric({getattr(arg, "what", arg)!r})')

    @staticmethod
    def Series(data=None, index=None, **kw):
        core.ctx().event('call', 'pandas.Series', data, index)
        return OpaqueValue('series', data=data, index=index)

    @staticmethod
    def DataFrame(data=None, index=None, **kw):
        from .pandas_ import DataFrameModel
        return DataFrameModel(dict(data or {}), index)

    @staticmethod
    @model
    def read_csv(path, **kw):
        stub = FrameStub('dataframe')
        core.ctx().event('call', 'pandas.read_csv', path, kw, stub)
        return stub


class TempDir:
    _pyvc_model_class = True

    def __init__(self, *a, **k):
        self.path = PathModel(OpaqueValue('tempdir'))
        core.ctx().event('TemporaryDirectory', k)

    def _cm_enter(self):
        return self.path

    def _cm_exit(self, exc):
        core.ctx().event('TemporaryDirectory.cleanup')
        return False


class TempfileModel:
    _pyvc_model_class = True
    TemporaryDirectory = TempDir


class NullContext:
    _pyvc_model_class = True

    def __init__(self, value=None):
        self.value = value

    def _cm_enter(self):
        return self.value

    def _cm_exit(self, exc):
        return False


class Functools:
    _pyvc_model_class = True
    reduce = staticmethod(functools.reduce)
    cached_property = Dummy('cached_property')
    partial = staticmethod(functools.partial)

    @staticmethod
    @model
    def wraps(fn):
        return model(lambda g: g)


class Contextlib:
    _pyvc_model_class = True
    suppress = Suppress
    contextmanager = Dummy('contextmanager')
    nullcontext = NullContext
    AbstractContextManager = Dummy('AbstractContextManager')


class Abc:
    _pyvc_model_class = True
    ABC = Dummy('ABC')
    abstractmethod = Dummy('abstractmethod')


class Enum:
    pass


class IntEnum:
    pass


class EnumModule:
    _pyvc_model_class = True
    Enum = Enum
    IntEnum = IntEnum


class HashModel:
    """hashlib object: the digest is a function of the concatenated update() chunks (A-HASH)."""
    _pyvc_model_class = True

    def __init__(self, *a, **k):
        self.chunks = []

    def update(self, b):
        self.chunks.append(b)
        core.ctx().event('hash.update', b)

    def hexdigest(self):
        d = Opaque('hexdigest')
        d.chunks = list(self.chunks)        # A-HASH: the digest stands for exactly the bytes fed so far
        return d


class Hashlib:
    _pyvc_model_class = True
    blake2b = HashModel
    sha1 = HashModel
    sha256 = HashModel
    md5 = HashModel


class Marshal:
    _pyvc_model_class = True

    @staticmethod
    @model
    def dumps(value, version=4):
        # PY-MARSHAL: injective on values, but NOT a function of the value alone: with version >= 3 the bytes also
        # depend on object identity / reference counts (FLAG_REF, interned strings).  ``tag`` stands for that state.
        c = core.ctx()
        c.lib_used.add('PY-MARSHAL (injective; bytes depend on value AND on interning / reference counts; the same '
                       'objects marshal identically within one process)')
        tags = getattr(c, '_marshal_tags', None)
        if tags is None:
            tags = c._marshal_tags = {}
        key = (id(value), version)
        if key not in tags:
            tags[key] = (c.fresh_int('marshal_refstate'), value)    # keep value alive so ids are not reused
        return BytesOf(('marshal', version), value, tag=tags[key][0])


class Metadata:
    _pyvc_model_class = True

    @staticmethod
    @model
    def entry_points(**kw):
        core.ctx().lib_used.add('ENTRYPOINTS-DETERMINISTIC')
        eps = getattr(core.ctx(), 'entry_points', None)
        if eps is None:
            raise Unsupported('entry points not provided by the scenario')
        return list(eps)


@model
def _version(name):
    return '0.0.0+model'


Metadata.version = staticmethod(_version)


class Importlib:
    _pyvc_model_class = True
    metadata = Metadata

    @staticmethod
    @model
    def import_module(name):
        raise Unsupported('importlib.import_module')


class SysModule:
    _pyvc_model_class = True
    argv = ['emsarray']
    stderr = Opaque('stderr')
    stdout = Opaque('stdout')

    @staticmethod
    @model
    def exit(code=0):
        raise PyRaise(ExcObj(SystemExit, (code,)))


class Operator:
    """operator module: real functions, except the ones that would force a symbolic value concrete."""
    _pyvc_model_class = True

    @staticmethod
    @model
    def index(x):
        from ..core import SInt, SBool
        if isinstance(x, (SInt, int)) and not isinstance(x, bool):
            return x
        if isinstance(x, (bool, SBool)):
            return core.mk_int(core.zint(x))
        raise PyRaise(ExcObj(TypeError, ('object cannot be interpreted as an integer',)))

    def __getattr__(self, name):
        return getattr(operator, name)


def make_libs():
    from . import numpy_, xarray_, shapely_
    from .floats import INFV, NANV
    numpy_.NumpyModule.nan = NANV
    numpy_.NumpyModule.inf = INFV
    typing_ = Dummy('typing')
    libs = {
        'numpy': numpy_.NumpyModule,
        'xarray': xarray_.XarrayModule,
        'shapely': shapely_.ShapelyModule,
        'typing': _Typing(),
        'types': Dummy('types'),
        'collections': _Collections(),
        'collections.abc': Dummy('collections.abc'),
        'abc': Abc,
        'enum': EnumModule,
        'dataclasses': Dummy('dataclasses'),
        'functools': Functools,
        'itertools': itertools,
        'operator': Operator(),
        'contextlib': Contextlib,
        'logging': Logging,
        'warnings': Warnings,
        'hashlib': Hashlib,
        'marshal': Marshal,
        'pathlib': PathlibModel,
        'json': JsonModel,
        'geojson': __import__('pyvc.lib.exportlibs', fromlist=['x']).GeoJsonModule,
        'shapefile': __import__('pyvc.lib.exportlibs', fromlist=['x']).ShapefileModule,
        'argparse': __import__('argparse'),
        'decimal': __import__('decimal'),
        'tempfile': TempfileModel,
        'pandas': PandasModel,
        'matplotlib': Recorder('matplotlib'),
        'cartopy': Recorder('cartopy'),
        'cftime': __import__('pyvc.lib.timelib', fromlist=['x']).CftimeModule,
        'pytz': __import__('pyvc.lib.timelib', fromlist=['x']).PytzModule,
        'netCDF4': __import__('pyvc.lib.timelib', fromlist=['x']).Netcdf4Module,
        'pkgutil': Dummy('pkgutil'),
        'os': os,
        're': __import__('pyvc.lib.regex', fromlist=['ReModule']).ReModule,
        'textwrap': textwrap,
        'unicodedata': __import__('unicodedata'),       # the real module: pure functions of concrete strings
        'datetime': datetime,
        'time': Dummy('time'),
        'sys': SysModule,
        'importlib': Importlib,
        'importlib.metadata': Metadata,
    }
    return libs


class _Typing:
    _pyvc_model_class = True
    TYPE_CHECKING = False

    def _getattr(self, name):
        if name == 'TYPE_CHECKING':
            return False
        if name == 'cast':
            return model(lambda t, v: v)
        return Dummy('typing.' + name)

    def __getattr__(self, name):
        return self._getattr(name)


class _Collections:
    _pyvc_model_class = True
    defaultdict = collections.defaultdict
    OrderedDict = collections.OrderedDict
    namedtuple = staticmethod(collections.namedtuple)
    abc = Dummy('collections.abc')
