"""Cumulative sum / argmax along one axis of symbolic length (used by operations.depth._find_ocean_floor_indexes).

Library contracts
  XR-CUMSUM-SKIPNA   DataArray.cumsum(dim) on a float array skips NaN (numpy.nancumsum: a NaN term contributes 0);
                     on an integer array it is the plain prefix sum.
  XR-ARGMAX-FIRST    DataArray.argmax(dim) is the first position of the maximum along dim (no NaN can be present after
                     nancumsum); an empty axis raises ValueError.
Theory (quantifier free, facts instantiated on demand):
  S(o, k)   = prefix sum of line o up to and including layer k;  S(o, k) = S(o, k-1) + term(o, k)   [definition]
  M(o)      = argmax of line o:  0 <= M < n,  S(o, j) <= S(o, M) for every j,  S(o, j) < S(o, M) for j < M
Lemma CUMSUM-MONOTONE (terms >= 0  =>  0 <= S(o, a) <= S(o, b) for a <= b) is *proved by induction on the layer index*:
the base and step are emitted as obligations (discharged by z3) each time the lemma is requested; only then are its
instances assumed.  The induction principle over the integers is the meta-level rule (assumption INDUCTION-NAT).
"""
from __future__ import annotations

import z3

from .. import core
from ..core import ExcObj, PyRaise, Unsupported, is_sym, mk_bool, mk_int, mk_real, zint, zreal
from . import numpy_ as np
from .floats import FIN, NAN, SFloat, to_sfloat


class CumSum:
    def __init__(self, src, axis, floaty):
        c = core.ctx()
        self.src, self.axis, self.floaty = src.frozen(), axis, floaty
        self.n = src.shape[axis]
        self.S = c.fresh_fn('cumsum', *([z3.IntSort()] * src.ndim), z3.RealSort())
        self.M = c.fresh_fn('argmax', *([z3.IntSort()] * max(src.ndim - 1, 1)), z3.IntSort())
        self.mono_proved = False
        c.lib_used.add('XR-CUMSUM-SKIPNA (float cumsum skips NaN; a NaN term contributes 0)')

    def full(self, other, k):
        o = list(other)
        o.insert(self.axis, k)
        return tuple(o)

    def term(self, idx):
        """(contribution as a real, is-counted) of element idx"""
        v = self.src.fn(tuple(idx))
        if self.floaty:
            v = to_sfloat(v)
            c = core.ctx()
            if is_sym(v.kind):
                # +-inf terms are outside the theory: the callers' terms are 1.0 or NaN (x*0+1 with x finite or NaN)
                if c.feasible(z3.And(v.kind.z != FIN, v.kind.z != NAN)):
                    raise Unsupported('cumsum over possibly infinite terms')
                return z3.If(v.kind.z == FIN, zreal(v.val), z3.RealVal(0))
            if v.kind == FIN:
                return zreal(v.val)
            if v.kind == NAN:
                return z3.RealVal(0)
            raise Unsupported('cumsum over infinite terms')
        return z3.ToReal(zint(v)) if isinstance(v, (int, core.SInt)) and not isinstance(v, bool) else zreal(v)

    def s(self, other, k):
        """S(other, k) with its defining equation at k."""
        c = core.ctx()
        kz = zint(k)
        idx = self.full(other, k)
        t = self.S(*[zint(i) for i in idx])
        prev = self.S(*[zint(i) for i in self.full(other, mk_int(kz - 1))])
        inr = z3.And(kz >= 0, kz < zint(self.n))
        c.assume(z3.Implies(inr, t == z3.If(kz > 0, prev, z3.RealVal(0)) + self.term(idx)))
        return t

    def prove_monotone(self):
        """lemma CUMSUM-MONOTONE by induction; returns True when base and step are discharged (recorded as obligations)."""
        if self.mono_proved:
            return True
        c = core.ctx()
        other = [c.fresh_int('line') for _ in range(self.src.ndim - 1)]
        for o, n in zip(other, [s for a, s in enumerate(self.src.shape) if a != self.axis]):
            c.assume(o >= 0)
            c.assume(o < n)
        b = c.fresh_int('b')
        c.assume(b >= 0)
        c.assume(b < self.n)
        tb = self.term(self.full(other, b))
        c.check('lemma cumsum-monotone, precondition: every term is >= 0 (NaN counts 0)', mk_bool(tb >= 0))
        sb = self.s(other, b)
        prev = self.S(*[zint(i) for i in self.full(other, mk_int(b.z - 1))])
        c.check('lemma cumsum-monotone, base: S(0) >= 0', mk_bool(z3.Implies(b.z == 0, sb >= 0)))
        c.check('lemma cumsum-monotone, step: S(b-1) >= 0 => S(b) >= S(b-1) >= 0',
                mk_bool(z3.Implies(z3.And(b.z > 0, prev >= 0), z3.And(sb >= prev, sb >= 0))))
        c.lib_used.add('INDUCTION-NAT (lemma cumsum-monotone: base and step discharged, generalised by induction on the layer index)')
        self.mono_proved = True
        return True

    def monotone(self, other, a, b):
        """instance of the proved lemma: 0 <= a <= b < n => 0 <= S(a) <= S(b)"""
        self.prove_monotone()
        c = core.ctx()
        az, bz = zint(a), zint(b)
        sa = self.S(*[zint(i) for i in self.full(other, a)])
        sb = self.S(*[zint(i) for i in self.full(other, b)])
        c.assume(z3.Implies(z3.And(az >= 0, az <= bz, bz < zint(self.n)), z3.And(sa >= 0, sa <= sb)))

    def m(self, other):
        c = core.ctx()
        o = [zint(i) for i in other] or [z3.IntVal(0)]
        t = self.M(*o)
        c.assume(z3.And(t >= 0, t < zint(self.n)))
        reg = getattr(c, 'argmax_lines', None)
        if reg is None:
            reg = c.argmax_lines = []
        if not any(r[0] is self and len(r[1]) == len(other) and all(z3.eq(zint(a), zint(b)) for a, b in zip(r[1], other)) for r in reg):
            reg.append((self, tuple(other), mk_int(t)))
        return mk_int(t)

    def argmax_facts(self, other, j):
        """S(j) <= S(M); j < M => S(j) < S(M)   for a layer j of line ``other``"""
        c = core.ctx()
        m = self.m(other)
        sm = self.s(other, m)
        sj = self.s(other, j)
        jz = zint(j)
        c.assume(z3.Implies(z3.And(jz >= 0, jz < zint(self.n)), z3.And(sj <= sm, z3.Implies(jz < m.z, sj < sm))))
        return m


def cumsum(da, dim):
    from .xarray_ import XDataArray, Variable
    v = da.variable
    if dim is None or dim not in v.dims:
        raise Unsupported('cumsum without a named dimension of the array')
    axis = v.dims.index(dim)
    floaty = v.arr.dtype.kind == 'f'
    if v.arr.dtype.kind not in 'fiu':
        raise Unsupported(f'cumsum of dtype {v.arr.dtype}')
    cs = CumSum(v.arr, axis, floaty)

    def fn(i):
        other = tuple(x for a, x in enumerate(i) if a != axis)
        return SFloat(FIN, mk_real(cs.s(other, i[axis]))) if floaty else mk_real(cs.s(other, i[axis]))
    arr = np.NDArray(v.arr.shape, fn, v.arr.dtype)
    arr._cumsum = cs
    return XDataArray(_var=Variable(v.dims, arr, {}, {}), name=da.name, _coords=dict(da._coords))


def argmax(da, dim):
    from .xarray_ import XDataArray, Variable
    v = da.variable
    cs = getattr(v.arr, '_cumsum', None)
    if cs is None or dim not in v.dims or v.dims.index(dim) != cs.axis:
        raise Unsupported('argmax of anything but a cumulative sum along the same dimension')
    c = core.ctx()
    c.lib_used.add('XR-ARGMAX-FIRST (first position of the maximum along the dimension; empty axis raises ValueError)')
    if c.branch(zint(cs.n) == 0):
        raise PyRaise(ExcObj(ValueError, ('attempt to get argmax of an empty sequence',)))
    dims = tuple(d for d in v.dims if d != dim)
    shape = tuple(s for a, s in enumerate(v.arr.shape) if a != cs.axis)
    arr = np.NDArray(shape, lambda i: cs.m(tuple(i)), np.INT64)
    arr._argmax_of = cs
    coords = {k: cv for k, cv in da._coords.items() if dim not in cv.variable.dims}
    return XDataArray(_var=Variable(dims, arr, {}, {}), name=da.name, _coords=coords)
