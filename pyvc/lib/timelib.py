"""Library contracts for cftime / pytz / datetime formatting / netCDF4 attribute access (C17).

* A *valid CF units string given by the caller* is a structured value ``UnitsIn(period, fields, T)``:
  ``<period> since <epoch>`` whose epoch has civil fields (Y,M,D,h,m,s) and UTC offset T minutes.
  (All accepted spellings -- with/without 'T', seconds, ``+HH``, ``+HH:MM``, ``+HHMM`` -- denote such a value;
  the spelling itself is irrelevant to the code under contract, which only calls cftime on it.)
* Strings *built by the code* (f-strings, strftime) keep their construction (``SStr.parts``: literals and formatted
  integers).  CF-PARSE: parsing such a string applies cftime's ISO-8601 grammar to the *skeleton* of the string
  (digit runs of path-concrete length), because the grammar only looks at character classes:
      year [+-]?d+ - month d{1,2} - day d{1,2} ( [ T] hour d{1,2} (: minute d{1,2} (: second d{1,2})?)?)?
      ( ' '? timezone:  Z | [+-]dd:?dd | [+-]dd )?          -- prefix match, anything else is ignored, offset 0
* Instants: a datetime is (civil fields, shift minutes, tz); its instant is civil(fields) + shift where ``civil`` is an
  uninterpreted function -- equal fields give equal instants (all the code under contract needs).
"""
from __future__ import annotations

import re as _re

import z3

from .. import core
from ..core import (ExcObj, PyRaise, SBool, SInt, SStr, Unsupported, is_sym, mk_bool, mk_int, s_and, s_eq, zint)
from ..interp import model
from . import strings
from .stdlib import NullCM, OpaqueValue

ISO8601_TEXT = (
    r"(?P<year>[+-]?[0-9]+)"
    r"(?:-(?P<month>[0-9]{1,2})"
    r"(?:-(?P<day>[0-9]{1,2})"
    r"(?:(?P<separator1>[ T])(?P<hour>[0-9]{1,2})"
    r"(?::(?P<minute>[0-9]{1,2})"
    r"(?::(?P<second>[0-9]{1,2})(?:\.(?P<fraction>[0-9]+))?)?)?)?"
    r"(?:(?P<separator2>[ ]?)(?P<timezone>Z|[-+][0-9]{2}:?[0-9]{2}|[-+][0-9]{2}))?"
    r")?)?")
ISO8601 = _re.compile(ISO8601_TEXT)
TZ = _re.compile(r"(?P<prefix>[+-])(?P<hours>[0-9]{2})(?::?(?P<minutes>[0-9]{2}))?")


def civil_fn():
    c = core.ctx()
    f = getattr(c, '_civil', None)
    if f is None:
        f = c._civil = z3.Function('civil_minutes', *([z3.IntSort()] * 6 + [z3.IntSort()]))
    return f


class UnitsIn:
    """A caller-supplied valid CF time units string."""
    _pyvc_model_class = True

    def __init__(self, period, fields, offset):
        self.period, self.fields, self.offset = period, tuple(fields), offset

    def _format(self, spec):
        return strings.OpaqueStr('<units>')

    def __repr__(self):
        return '<units string>'


class DateIn:
    _pyvc_model_class = True

    def __init__(self, units):
        self.units = units

    def strip(self, *a):
        return self


class Offset:
    """pytz.FixedOffset(minutes) / pytz.UTC"""
    _pyvc_model_class = True

    def __init__(self, minutes):
        self.minutes = minutes


class DT:
    """datetime.datetime model."""
    _pyvc_model_class = True

    def __init__(self, fields, shift=0, tz=None):
        self.fields, self.shift, self.tz = tuple(fields), shift, tz

    def instant(self):
        f = civil_fn()
        return mk_int(f(*[zint(x) for x in self.fields])) + self.shift

    def replace(self, tzinfo=None, **kw):
        if kw:
            raise Unsupported('datetime.replace of fields')
        core.ctx().lib_used.add('DT-REPLACE-TZINFO (same wall clock, timezone attached)')
        if not isinstance(tzinfo, Offset):
            raise Unsupported('tzinfo of unknown kind')
        if self.tz is not None:
            raise Unsupported('replace(tzinfo=) on an aware datetime')
        # naive wall clock interpreted in tz: instant = wall - tz offset
        return DT(self.fields, self.shift - tzinfo.minutes, tz=tzinfo)._rewall(self.shift)

    def _rewall(self, wall_shift):
        self.wall_shift = wall_shift
        return self

    def astimezone(self, tz):
        core.ctx().lib_used.add('DT-ASTIMEZONE (same instant, wall clock shifted by the offset difference)')
        if self.tz is None:
            raise Unsupported('astimezone on a naive datetime')
        if not isinstance(tz, Offset):
            raise Unsupported('astimezone to unknown tz')
        # wall clock in the new zone = instant + new offset
        d = DT(self.fields, self.shift, tz=tz)
        d.wall_shift = self.wall_shift - self.tz.minutes + tz.minutes
        return d

    def _field(self, k):
        w = self._wall()
        if w is None or (is_sym(w) and core.ctx().feasible(w.z != 0)) or (not is_sym(w) and w != 0):
            raise Unsupported('field of a datetime whose wall clock is not its civil fields (needs calendar arithmetic)')
        return self.fields[k]

    year = property(lambda self: self._field(0))
    month = property(lambda self: self._field(1))
    day = property(lambda self: self._field(2))
    hour = property(lambda self: self._field(3))
    minute = property(lambda self: self._field(4))
    second = property(lambda self: self._field(5))

    def utcoffset(self):
        core.ctx().lib_used.add('DT-UTCOFFSET (timedelta: days/seconds normalised, seconds in [0, 86400))')
        if self.tz is None:
            return None
        return TimeDelta(self.tz.minutes * 60)

    def _wall(self):
        """shift of the wall clock relative to civil(fields) (0 = the fields themselves)."""
        return getattr(self, 'wall_shift', self.shift if self.tz is None else None)

    def _format(self, spec):
        core.ctx().lib_used.add('DT-STRFTIME (%Y is NOT zero padded on glibc; %m %d %H %M %S are 2 digits)')
        w = self._wall()
        if w is None:
            raise Unsupported('strftime of an aware datetime of unknown wall clock')
        c = core.ctx()
        if is_sym(w):
            if c.feasible(w.z != 0):
                raise Unsupported('strftime of a datetime whose wall clock is not its civil fields (needs calendar arithmetic)')
        elif w != 0:
            raise Unsupported('strftime of a shifted datetime (needs calendar arithmetic)')
        Y, M, D, h, m, s = self.fields
        parts = []
        i = 0
        table = {'Y': (Y, 'd'), 'm': (M, '02d'), 'd': (D, '02d'), 'H': (h, '02d'), 'M': (m, '02d'), 'S': (s, '02d')}
        while i < len(spec):
            ch = spec[i]
            if ch == '%' and i + 1 < len(spec):
                d = spec[i + 1]
                if d not in table:
                    raise Unsupported(f'strftime directive %{d}')
                v, sp = table[d]
                parts.append(strings.format_value(None, v, sp))
                i += 2
            else:
                parts.append(ch)
                i += 1
        return strings.concat(parts)

    def _eq(self, other):
        if not isinstance(other, DT):
            return False
        if (self.tz is None) != (other.tz is None):
            raise Unsupported('comparison of naive and aware datetimes')
        if self.tz is None:
            a = self.instant()
            b = other.instant()
        else:
            a, b = self.instant(), other.instant()
        return s_eq(a, b)

    __hash__ = None


class TimeDelta:
    _pyvc_model_class = True

    def __init__(self, total_seconds):
        self.total = total_seconds

    @property
    def seconds(self):
        t = self.total
        if is_sym(t):
            return mk_int(core.py_mod(zint(t), z3.IntVal(86400)))
        return t % 86400

    @property
    def days(self):
        t = self.total
        if is_sym(t):
            return mk_int(core.py_floordiv(zint(t), z3.IntVal(86400)))
        return t // 86400

    def total_seconds(self):
        return self.total


class PytzModule:
    _pyvc_model_class = True
    UTC = Offset(0)
    utc = UTC

    @staticmethod
    @model
    def FixedOffset(minutes):
        core.ctx().lib_used.add('PYTZ-FIXEDOFFSET')
        if hasattr(minutes, '_int'):
            minutes = minutes._int()
        return Offset(minutes)


def skeleton(parts):
    """parts -> (text with symbolic digit runs replaced by '1's, atoms=[(start, end, part)])  (forks on digit counts)"""
    c = core.ctx()
    text = ''
    atoms = []
    for p in parts:
        if p[0] == 'lit':
            atoms.append((len(text), len(text) + len(p[1]), 'LIT', p[1], 0, 0))
            text += p[1]
        elif p[0] == 'int':
            _, v, spec = p[:3]
            m = _re.fullmatch(r'(\+?)(0?)(\d*)d?', spec)
            plus, zero, width = m.group(1) == '+', m.group(2) == '0', int(m.group(3) or 0)
            if is_sym(v):
                neg = c.branch(v.z < 0)
                a = mk_int(z3.If(v.z >= 0, v.z, -v.z))
                nd = None
                padded = (width - (1 if (neg or plus) else 0)) if (zero and width) else 0
                if padded and not c.feasible(zint(a) >= 10 ** padded):
                    nd = padded          # zero padding fixes the number of characters; no case split needed
                else:
                    for k in range(1, 7):
                        if c.branch(zint(a) < 10 ** k):
                            nd = k
                            break
                if nd is None:
                    raise Unsupported('formatted integer with more than 6 digits')
            else:
                neg = v < 0
                a = abs(v)
                nd = len(str(a))
            sign = '-' if neg else ('+' if plus else '')
            body = '1' * nd
            if zero and width:
                body = '1' * max(nd, width - len(sign))
            start = len(text)
            text += sign + body
            atoms.append((start, len(text), sign, a, nd, len(body)))
        elif p[0] == 'str':
            raise Unsupported('free symbolic string inside a date to be parsed')
        else:
            raise Unsupported(f'string part {p[0]}')
    return text, atoms


def _value_of(span, atoms, allow_sign):
    """Integer denoted by text[span] -- must coincide with one formatted integer (with or without its sign)."""
    s, e = span
    for (a0, a1, sign, absval, nd, width) in atoms:
        if sign == 'LIT':
            if a0 <= s and e <= a1:
                t = absval[s - a0:e - a0]
                return abs(int(t)), ('-' if t.startswith('-') else '')
            continue
        d0 = a0 + len(sign)
        if (s, e) == (d0, a1):
            return absval, ''
        if allow_sign and (s, e) == (a0, a1):
            return absval, sign
    raise Unsupported('parsed field does not coincide with one formatted integer')


def parse_date_parts(parts):
    """CF-PARSE on a constructed string -> (fields6, offset minutes)"""
    core.ctx().lib_used.add('CF-PARSE-TZ (cftime ISO-8601 grammar; offsets only as Z, +-HH, +-HH:MM, +-HHMM; prefix match)')
    text, atoms = skeleton(parts)
    text = text.strip()
    # strip() may only remove leading literal spaces; account for the shift
    lead = 0
    m = ISO8601.match(text)
    if m is None or m.group('year') is None:
        raise PyRaise(ExcObj(ValueError, ('invalid time units',)))
    full = skeleton_text_offset(parts, text)

    def val(name, default, allow_sign=False):
        if m.group(name) is None:
            return default
        s, e = m.span(name)
        v, sign = _value_of((s + full, e + full), atoms, allow_sign)
        return -v if sign == '-' else v
    Y = val('year', None, True)
    M, D = val('month', 1), val('day', 1)
    h, mi, s = val('hour', 0), val('minute', 0), val('second', 0)
    tz = m.group('timezone')
    off = 0
    if tz is not None and tz != 'Z':
        t0 = m.start('timezone')
        tm = TZ.match(tz)
        sign = -1 if tm.group('prefix') == '-' else 1
        hs, he = tm.span('hours')
        hv = _digits_value((t0 + hs + full, t0 + he + full), atoms)
        mv = 0
        if tm.group('minutes') is not None:
            ms, me = tm.span('minutes')
            mv = _digits_value((t0 + ms + full, t0 + me + full), atoms)
        off = sign * (hv * 60 + mv)
    return (Y, M, D, h, mi, s), off


def skeleton_text_offset(parts, stripped):
    text, _ = '', None
    # recompute how many leading characters strip() removed
    raw = ''.join(p[1] if p[0] == 'lit' else '' for p in parts[:1]) if parts and parts[0][0] == 'lit' else ''
    return len(raw) - len(raw.lstrip()) if raw else 0


def _digits_value(span, atoms):
    s, e = span
    for (a0, a1, sign, absval, nd, width) in atoms:
        if sign == 'LIT':
            if a0 <= s and e <= a1:
                return int(absval[s - a0:e - a0])
            continue
        d0 = a0 + len(sign)
        if (s, e) == (d0, a1):
            return absval
    raise Unsupported('timezone digits do not coincide with one formatted integer')


def split_units(s):
    """'<period> since <date>' for a constructed string -> (period, date parts)"""
    parts = getattr(s, 'parts', None)
    if parts is None:
        raise Unsupported('time units string of unknown construction')
    flat = list(parts)
    for i, p in enumerate(flat):
        if p[0] == 'lit' and ' since ' in p[1]:
            before, after = p[1].split(' since ', 1)
            head = flat[:i] + ([('lit', before)] if before else [])
            tail = ([('lit', after)] if after else []) + flat[i + 1:]
            return head, tail
    raise PyRaise(ExcObj(ValueError, ("no 'since' in unit_string",)))


class CftimeModule:
    _pyvc_model_class = True

    @staticmethod
    @model
    def _datesplit(units):
        core.ctx().lib_used.add('CF-DATESPLIT')
        if isinstance(units, UnitsIn):
            return (units.period, DateIn(units))
        head, tail = split_units(units)
        return (strings.concat_parts(head), strings.concat_parts(tail))

    @staticmethod
    @model
    def _parse_date(date):
        if isinstance(date, DateIn):
            u = date.units
            return tuple(u.fields) + (0, u.offset)
        parts = getattr(date, 'parts', None)
        if parts is None:
            raise Unsupported('parse of a string of unknown construction')
        fields, off = parse_date_parts(parts)
        return tuple(fields) + (0, off)

    @staticmethod
    @model
    def num2pydate(times, units, calendar='standard', **kw):
        core.ctx().lib_used.add('CF-NUM2PYDATE (time 0 is the reference instant, returned naive in UTC)')
        if times != 0 or is_sym(times):
            raise Unsupported('num2pydate of a non-zero time')
        if isinstance(units, UnitsIn):
            return DT(units.fields, shift=-units.offset)
        head, tail = split_units(units)
        fields, off = parse_date_parts(tail)
        return DT(fields, shift=-off if not is_sym(off) else mk_int(-zint(off)))


class NcVariable:
    _pyvc_model_class = True

    def __init__(self, name, attrs):
        self.name, self.attrs = name, attrs

    def getncattr(self, k):
        core.ctx().event('nc.getncattr', self.name, k)
        if k not in self.attrs:
            raise PyRaise(ExcObj(AttributeError, (f'NetCDF: Attribute not found: {k}',)))
        return self.attrs[k]

    def setncattr(self, k, v):
        core.ctx().event('nc.setncattr', self.name, k, v)
        self.attrs[k] = v


class NcFile(NullCM):
    def __init__(self, path, mode='r', **kw):
        c = core.ctx()
        c.event('nc.open', path, mode)
        files = getattr(c, 'nc_files', None)
        if files is None:
            raise Unsupported('netCDF4.Dataset: no file system provided by the scenario')
        self.path, self.mode = path, mode
        self.variables = files.get(path if not isinstance(path, OpaqueValue) else path.what, None)
        if self.variables is None:
            raise PyRaise(ExcObj(FileNotFoundError, (path,)))

    def sync(self):
        core.ctx().event('nc.sync', self.path)

    def _cm_exit(self, exc):
        core.ctx().event('nc.close', self.path)
        return False


class Netcdf4Module:
    _pyvc_model_class = True
    Dataset = NcFile
