"""Builtins of the interpreted program (models where symbolic values may flow, real ones otherwise)."""
from __future__ import annotations

import builtins as _bi

import z3

from .. import core
from ..core import (ExcObj, Maybe, PyRaise, SBool, SInt, SReal, SStr, Sym, Unsupported, zint,
                    is_sym, mk_bool, mk_int, resolve_maybe, s_and, s_eq, s_ite, s_not, s_or,
                    truth, truthy)


def make(interp):
    from ..interp import (BoundMethod, ClassInfo, Dummy, EnumMember, Func, Obj, Opaque,
                          class_mro, is_subclass, model)

    B = {}

    @model
    def b_len(x):
        if isinstance(x, Maybe):
            x = resolve_maybe(x)
        parts = getattr(x, 'parts', None)
        if parts is not None and len(parts) == 1 and parts[0][0] == 'int' and parts[0][2] == '':
            # PY-INT-STR-LEN: len(str(v)) for an integer v: the number of decimal digits (plus one for a minus sign); decided by
            # case split on the magnitude (|v| < 10**40)
            c = core.ctx()
            c.lib_used.add('PY-INT-STR-LEN (len(str(v)) = number of decimal digits of |v|, +1 when negative)')
            v = zint(parts[0][1])
            neg = 1 if c.branch(v < 0) else 0
            a = z3.If(v < 0, -v, v)
            for d in range(1, 41):
                if c.branch(a < 10 ** d):
                    return d + neg
            raise Unsupported('integer with more than 40 digits')
        if hasattr(x, '_len'):
            return x._len()
        if isinstance(x, Sym):
            raise PyRaise(ExcObj(TypeError, ('object of this type has no len()',)))
        if hasattr(x, '__next__'):
            raise PyRaise(ExcObj(TypeError, ("object of type 'generator' has no len()",)))
        try:
            return len(x)
        except TypeError as e:
            raise PyRaise(ExcObj(TypeError, e.args))

    @model
    def b_isinstance(x, t):
        if isinstance(x, Maybe):
            x = resolve_maybe(x)
        if isinstance(t, tuple):
            return any(b_isinstance(x, u) for u in t)
        if isinstance(t, Dummy):
            if t._name in ('typing.IO',):
                return False          # isinstance(x, typing.IO) is False for paths and for real file objects
            raise Unsupported(f'isinstance against unmodelled type {t!r}')
        if isinstance(t, ClassInfo):
            if isinstance(x, (Obj, ExcObj)) and isinstance(x.cls, ClassInfo):
                return t in x.cls.mro()
            if isinstance(x, EnumMember):
                return t in x.cls.mro()
            return False
        if t is str:
            return isinstance(x, (str, SStr)) or (isinstance(x, EnumMember) and x._mixin() is str)
        if t is int:
            return (isinstance(x, (int, SInt, SBool))) or (isinstance(x, EnumMember) and x._mixin() is int)
        if t is bool:
            return isinstance(x, (bool, SBool))
        if t is float:
            return isinstance(x, (float, SReal)) or getattr(x, '_is_float', False)
        if t is type:
            return isinstance(x, (type, ClassInfo))
        if isinstance(t, type) and issubclass(t, BaseException):
            return isinstance(x, ExcObj) and is_subclass(x.cls, t)
        if isinstance(t, type):
            if hasattr(t, '_isinstance'):
                return t._isinstance(x)
            return isinstance(x, t)
        raise Unsupported(f'isinstance({x!r}, {t!r})')

    @model
    def b_issubclass(c, t):
        if isinstance(t, tuple):
            return any(b_issubclass(c, u) for u in t)
        if hasattr(c, '_issubclass'):
            return c._issubclass(t)
        if not isinstance(c, (type, ClassInfo)):
            raise PyRaise(ExcObj(TypeError, ('issubclass() arg 1 must be a class',)))
        return is_subclass(c, t)

    @model
    def b_int(x=0, base=None):
        if isinstance(x, Maybe):
            x = resolve_maybe(x)
        if hasattr(x, '_int'):
            return x._int()
        if isinstance(x, SInt):
            return x
        if isinstance(x, SBool):
            return mk_int(core.zint(x))
        if isinstance(x, SReal):
            # truncation toward zero
            z = x.z
            return mk_int(z3.If(z >= 0, z3.ToInt(z), -z3.ToInt(-z)))
        if isinstance(x, EnumMember):
            return int(x.value)
        if isinstance(x, SStr):
            from . import strings
            return strings.int_of_sstr(x)
        try:
            return int(x) if base is None else int(x, base)
        except (ValueError, TypeError, OverflowError) as e:
            raise PyRaise(ExcObj(type(e), e.args))

    @model
    def b_float(x=0.0):
        if isinstance(x, Maybe):
            x = resolve_maybe(x)
        if hasattr(x, '_float'):
            return x._float()
        if isinstance(x, SReal):
            return x
        if isinstance(x, (SInt, SBool)):
            return core.mk_real(core.zreal(x))
        if isinstance(x, SStr):
            from . import strings
            return strings.float_of_sstr(x)
        try:
            return float(x)
        except (ValueError, TypeError) as e:
            raise PyRaise(ExcObj(type(e), e.args))

    @model
    def b_bool(x=False):
        return truthy(x)

    @model
    def b_str(x=''):
        if isinstance(x, Maybe):
            x = resolve_maybe(x)
        if isinstance(x, (str, SStr)):
            return x
        if isinstance(x, EnumMember):
            if x._mixin() is str:
                return str(x)
            return str(x)
        from . import strings
        return strings.format_value(interp, x, '', ord('s'))

    @model
    def b_repr(x):
        from . import strings
        return strings.format_value(interp, x, '', ord('r'))

    @model
    def b_range(*a):
        if any(is_sym(x) for x in a):
            from .seq import SymRange
            return SymRange(*a)
        return range(*a)

    @model
    def b_enumerate(it, start=0):
        if hasattr(it, '_enumerate'):
            return it._enumerate(start)
        return enumerate(interp.iterate(it), start)

    @model
    def b_zip(*its, strict=False):
        return zip(*[interp.iterate(i) for i in its])

    @model
    def b_map(f, *its):
        if len(its) == 1 and hasattr(its[0], '_lazy_map'):
            return its[0]._lazy_map(lambda x: interp.call(f, [x], {}), None)
        return (interp.call(f, list(xs), {}) for xs in zip(*[interp.iterate(i) for i in its]))

    @model
    def b_filter(f, it):
        if f is None:
            return (x for x in interp.iterate(it) if truth(x))
        return (x for x in interp.iterate(it) if truth(interp.call(f, [x], {})))

    @model
    def b_list(it=()):
        if hasattr(it, '_tolist'):
            return it._tolist()
        return core.TList(interp.iterate(it))

    @model
    def b_tuple(it=()):
        if hasattr(it, '_totuple'):
            return it._totuple()
        return tuple(interp.iterate(it))

    def _hashable_check(xs):
        for x in xs:
            if is_sym(x):
                raise Unsupported('symbolic value put in a python set/dict key')

    @model
    def b_set(it=()):
        if hasattr(it, '_toset'):
            return it._toset()
        src = getattr(it, 'tolist_of', it)
        if hasattr(src, 'shape') and len(src.shape) == 1 and is_sym(src.shape[0]):
            from .numpy_ import membership
            from .seq import SymSet
            return SymSet(membership(src))      # raises Unsupported when the array has no defining membership predicate
        xs = list(interp.iterate(it))
        _hashable_check(xs)
        return core.TSet(xs)

    @model
    def b_frozenset(it=()):
        if hasattr(it, '_toset'):
            return it._toset()
        xs = list(interp.iterate(it))
        _hashable_check(xs)
        return frozenset(xs)

    @model
    def b_dict(*a, **k):
        if a and hasattr(a[0], '_todict'):
            d = a[0]._todict()
            d.update(k)
            return d
        if a and not isinstance(a[0], dict):
            d = {}
            for kv in interp.iterate(a[0]):
                kk, vv = list(interp.iterate(kv))
                d[kk] = vv
            d.update(k)
            return core.TDict(d)
        return core.TDict(*a, **k)

    @model
    def b_sorted(it, *, key=None, reverse=False):
        if isinstance(it, core.TList) and it._coll is not None:
            # PY-SORTED over a list built by FOREACH / COLLECT loops: the key is evaluated on every generic element (it may raise),
            # the result is described, not enumerated
            chunks, prefix = core.collected_chunks(it)
            if prefix:
                raise Unsupported('sorted() of a collected list with a concrete prefix')
            keys = []
            for ch in chunks:
                for _, v in ch.leaves():
                    keys.append(interp.call(key, [v], {}) if key is not None else v)
            core.ctx().lib_used.add('PY-SORTED (a permutation of the input, ascending by key, ties in input order)')
            out = core.TList()
            out._coll = [core.SortedView(it, keys, bool(reverse), key is not None)]
            return out
        xs = list(interp.iterate(it))
        keys = [interp.call(key, [x], {}) if key is not None else x for x in xs]
        if any(is_sym(k) for k in keys):
            # stable insertion sort; every comparison branches, so each feasible order is explored on its own path
            if len(xs) > 8:
                raise Unsupported('sorted() with symbolic keys (more than 8 items)')
            order = []
            for i in range(len(xs)):
                pos = len(order)
                # stable: an item moves ahead of strictly larger (reverse: strictly smaller) keys only; reverse=True keeps ties in input order
                while pos > 0 and truth((keys[i] > keys[order[pos - 1]]) if reverse else (keys[i] < keys[order[pos - 1]])):
                    pos -= 1
                order.insert(pos, i)
            return core.TList(xs[i] for i in order)
        order = sorted(range(len(xs)), key=lambda i: keys[i], reverse=reverse)
        if reverse:
            # python's reverse sort is stable: equal keys keep original order
            order = sorted(range(len(xs)), key=lambda i: _Rev(keys[i]))
        return core.TList(xs[i] for i in order)

    class _Rev:
        def __init__(self, k):
            self.k = k

        def __lt__(self, o):
            return o.k < self.k

    @model
    def b_reversed(it):
        if hasattr(it, '_reversed'):
            return it._reversed()
        return reversed(list(interp.iterate(it)))

    @model
    def b_minmax(which):
        def f(*a, key=None, default=_MISSING):
            xs = list(interp.iterate(a[0])) if len(a) == 1 else list(a)
            if not xs:
                if default is not _MISSING:
                    return default
                raise PyRaise(ExcObj(ValueError, (f'{which}() arg is an empty sequence',)))
            best = xs[0]
            bk = interp.call(key, [best], {}) if key else best
            for x in xs[1:]:
                k = interp.call(key, [x], {}) if key else x
                c = (k < bk) if which == 'min' else (k > bk)
                if is_sym(c):
                    best = s_ite(c, x, best)
                    bk = s_ite(c, k, bk)
                elif c:
                    best, bk = x, k
            return best
        return model(f)

    _MISSING = object()

    @model
    def b_sum(it, start=0):
        if hasattr(it, '_sum'):
            return it._sum(start)
        t = start
        for x in interp.iterate(it):
            t = t + x
        return t

    @model
    def b_any(it):
        if hasattr(it, '_any'):
            return it._any()
        for x in interp.iterate(it):
            if truth(x):
                return True
        return False

    @model
    def b_all(it):
        if hasattr(it, '_all'):
            return it._all()
        for x in interp.iterate(it):
            if not truth(x):
                return False
        return True

    @model
    def b_next(it, default=_MISSING):
        if hasattr(it, '_next'):
            return it._next(default, _MISSING)
        if not hasattr(it, '__next__'):
            raise PyRaise(ExcObj(TypeError, (f'{type(it).__name__} object is not an iterator',)))
        try:
            return next(it)
        except StopIteration:
            if default is not _MISSING:
                return default
            raise PyRaise(ExcObj(StopIteration, ()))

    @model
    def b_iter(x):
        if hasattr(x, '_lazy_map') and hasattr(x, '_concrete_len') and not x._concrete_len():
            return x          # a lazy sequence of symbolic length is its own (single pass) iterator
        return interp.iterate(x)

    @model
    def b_hasattr(o, n):
        return interp.hasattr(o, n)

    @model
    def b_getattr(o, n, default=_MISSING):
        try:
            return interp.getattr(o, n)
        except PyRaise as e:
            if default is not _MISSING and is_subclass(e.exc.cls, AttributeError):
                return default
            raise

    @model
    def b_setattr(o, n, v):
        interp.setattr(o, n, v)

    @model
    def b_type(x):
        if isinstance(x, (Obj, ExcObj)):
            return x.cls
        if isinstance(x, EnumMember):
            return x.cls
        if hasattr(x, '_type'):
            return x._type()
        if isinstance(x, SInt):
            return int
        if isinstance(x, SStr):
            return str
        if isinstance(x, SBool):
            return bool
        return type(x)

    @model
    def b_abs(x):
        return abs(x)

    @model
    def b_divmod(a, b):
        if is_sym(a) or is_sym(b):
            return (a // b, a % b)
        try:
            return divmod(a, b)
        except ZeroDivisionError as e:
            raise PyRaise(ExcObj(ZeroDivisionError, e.args))

    @model
    def b_hash(x):
        c = core.ctx()
        c.event('taint', 'hash')
        if is_sym(x):
            raise Unsupported('hash() of symbolic value')
        if isinstance(x, str):
            # PY-STR-HASH: str hashes are randomised per process -- an arbitrary integer, the same for equal strings
            c.lib_used.add('PY-STR-HASH (the hash of a str is an arbitrary integer, fixed per string within a run)')
            tab = getattr(c, '_str_hashes', None)
            if tab is None:
                tab = c._str_hashes = {}
            if x not in tab:
                tab[x] = c.fresh_int('strhash')
            return tab[x]
        return hash(x)

    @model
    def b_id(x):
        core.ctx().event('taint', 'id')
        return id(x)

    @model
    def b_print(*a, **k):
        core.ctx().event('print', a)

    @model
    def b_callable(x):
        return callable(x) or isinstance(x, (Func, BoundMethod, ClassInfo))

    @model
    def b_round(x, n=None):
        if is_sym(x):
            raise Unsupported('round() of symbolic value')
        return round(x, n) if n is not None else round(x)

    @model
    def b_open(*a, **k):
        core.ctx().event('open', a, k)
        from .stdlib import FileModel
        return FileModel(a, k)

    B.update({
        'len': b_len, 'isinstance': b_isinstance, 'issubclass': b_issubclass, 'int': b_int, 'float': b_float,
        'bool': b_bool, 'str': b_str, 'repr': b_repr, 'range': b_range, 'enumerate': b_enumerate, 'zip': b_zip,
        'map': b_map, 'filter': b_filter, 'list': b_list, 'tuple': b_tuple, 'set': b_set,
        'frozenset': b_frozenset, 'dict': b_dict, 'sorted': b_sorted, 'reversed': b_reversed,
        'min': b_minmax('min'), 'max': b_minmax('max'), 'sum': b_sum, 'any': b_any, 'all': b_all,
        'next': b_next, 'iter': b_iter, 'hasattr': b_hasattr, 'getattr': b_getattr, 'setattr': b_setattr,
        'type': b_type, 'abs': b_abs, 'divmod': b_divmod, 'hash': b_hash, 'id': b_id, 'print': b_print,
        'callable': b_callable, 'round': b_round, 'open': b_open,
        'slice': slice, 'object': object, 'property': Dummy('property'), 'staticmethod': Dummy('staticmethod'),
        'classmethod': Dummy('classmethod'), 'super': Dummy('super'),
        'None': None, 'True': True, 'False': False, 'NotImplemented': NotImplemented, 'Ellipsis': Ellipsis,
        'bytes': bytes,
    })
    # make int/str/... usable as isinstance targets: the model functions stand for the types
    # (isinstance receives the *model function*; map back)
    type_alias = {b_int: int, b_str: str, b_float: float, b_bool: bool, b_list: list, b_tuple: tuple,
                  b_dict: dict, b_set: set, b_frozenset: frozenset, b_type: type}
    orig_isinstance = b_isinstance

    @model
    def b_isinstance2(x, t):
        def conv(u):
            if isinstance(u, tuple):
                return tuple(conv(v) for v in u)
            try:
                return type_alias.get(u, u)
            except TypeError:
                return u
        return orig_isinstance(x, conv(t))
    B['isinstance'] = b_isinstance2
    interp.type_alias = type_alias
    for name in dir(_bi):
        obj = getattr(_bi, name)
        if isinstance(obj, type) and issubclass(obj, BaseException):
            B[name] = obj
    return B
