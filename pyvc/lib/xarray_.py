"""Library contracts for xarray (trusted base).

Dataset = ordered map name -> Variable(dims, functional array, attrs, encoding) + set of
coordinate names + attrs.  ``ds[name]`` returns a DataArray *sharing* the variable's
attrs/encoding dictionaries (as xarray does); ``copy(deep=False)`` gives fresh variable
objects with shallow-copied attrs/encoding over the same data (XR-COPY-SHALLOW).
"""
from __future__ import annotations

import z3

from .. import core
from ..core import (ExcObj, Maybe, PyRaise, SBool, SInt, Unsupported, is_sym, mk_bool, mk_int, s_and,
                    s_eq, s_ite, s_not, s_or, truth, truthy, zint)
from ..interp import model
from . import numpy_ as np
from .numpy_ import NDArray, asarray, known_true, same, used


def raise_(cls, msg=''):
    raise PyRaise(ExcObj(cls, (msg,)))


class Variable:
    _pyvc_model_class = True

    def __init__(self, dims, arr, attrs=None, encoding=None):
        self.dims = tuple(dims)
        self.arr = arr
        self.attrs = attrs if attrs is not None else {}
        self.encoding = encoding if encoding is not None else {}

    @property
    def dtype(self):
        return self.arr.dtype

    @property
    def shape(self):
        return self.arr.shape

    @property
    def values(self):
        return self.arr

    @property
    def size(self):
        return self.arr.size

    @property
    def ndim(self):
        return len(self.dims)

    def to_numpy(self):
        return self.arr

    def copy(self, deep=False):
        return Variable(self.dims, self.arr if not deep else self.arr.copy(), dict(self.attrs), dict(self.encoding))


class DimIndex:
    """PD-INDEX-MONOTONIC: the pandas index of a dimension coordinate. is_monotonic_increasing / _decreasing are (non-strict) facts about ALL
    the values: each is a Boolean m with  m => a[j] <= a[j+1]  (resp. >=) instantiated at position 0 and at one Skolem position, and
    not m => the witness pair a[w] > a[w+1] (resp. <) exists; arrays shorter than two are both."""
    _pyvc_model_class = True

    def __init__(self, arr, name):
        self.arr, self.name = arr, name

    def _len(self):
        return self.arr.shape[0]

    def _asarray(self):
        return self.arr

    @property
    def values(self):
        return self.arr

    def to_numpy(self):
        return self.arr

    def _mono(self, increasing):
        from .floats import to_sfloat
        c = core.ctx()
        a, n = self.arr, self.arr.shape[0]
        m = c.fresh_bool(('inc_' if increasing else 'dec_') + str(self.name))
        w = c.fresh_int('mono_w')

        def le(i, j):
            x, y = a.fn((i,)), a.fn((j,))
            if hasattr(x, 'kind') or hasattr(y, 'kind'):
                x, y = to_sfloat(x), to_sfloat(y)
            r = (x <= y) if increasing else (x >= y)
            return core.zbool(r) if not isinstance(r, bool) else z3.BoolVal(r)
        c.assume(z3.Implies(zint(n) < 2, m.z))
        c.assume(z3.Implies(z3.And(m.z, zint(n) >= 2), le(0, 1)))
        c.assume(z3.Implies(z3.And(z3.Not(m.z), zint(n) >= 2), z3.And(zint(w) >= 0, zint(w) + 1 < zint(n))))
        if not (is_sym(n)) and n >= 2:
            c.assume(m.z == z3.And(*[le(j, j + 1) for j in range(n - 1)]))
        else:
            c.assume(z3.Implies(z3.And(z3.Not(m.z), zint(n) >= 2), z3.Not(le(w, w + 1))))
            self.monotone_fact = lambda j: c.assume(z3.Implies(z3.And(m.z, zint(j) >= 0, zint(j) + 1 < zint(n)), le(j, j + 1)))
        return m

    @property
    def is_monotonic_increasing(self):
        return self._mono(True)

    @property
    def is_monotonic_decreasing(self):
        return self._mono(False)


class Mapping_:
    """Read-only ordered mapping view (variables / data_vars / coords / sizes)."""
    _pyvc_model_class = True

    def __init__(self, keys_fn, get_fn, what='mapping'):
        self._keys_fn, self._get_fn, self._what = keys_fn, get_fn, what

    def keys(self):
        return list(self._keys_fn())

    def values(self):
        return [self._get_fn(k) for k in self._keys_fn()]

    def items(self):
        return [(k, self._get_fn(k)) for k in self._keys_fn()]

    def get(self, k, default=None):
        if k in self._keys_fn():
            return self._get_fn(k)
        return default

    def _getitem(self, k):
        if is_sym(k):
            raise Unsupported('symbolic key into dataset mapping')
        try:
            present = k in self._keys_fn()
        except TypeError:
            present = False
        if not present:
            raise PyRaise(ExcObj(KeyError, (k,)))
        return self._get_fn(k)

    def _contains(self, k):
        if is_sym(k):
            raise Unsupported('symbolic key membership in dataset mapping')
        try:
            return k in self._keys_fn()
        except TypeError:
            return False

    def _iterate(self):
        return iter(list(self._keys_fn()))

    def _len(self):
        return len(list(self._keys_fn()))

    def _toset(self):
        return set(self._keys_fn())

    def _todict(self):
        return dict(self.items())

    def _truthy(self):
        return len(list(self._keys_fn())) > 0

    def __repr__(self):
        return f'<{self._what} {list(self._keys_fn())}>'


class XDataArray:
    _pyvc_model_class = True

    def __init__(self, data=None, coords=None, dims=None, name=None, attrs=None, _var=None, _coords=None):
        used('XR-DATAARRAY-CTOR')
        if _var is not None:
            self.variable = _var
        else:
            arr = asarray(data)
            if dims is None:
                raise Unsupported('DataArray without dims')
            if isinstance(dims, str):
                dims = (dims,)
            dims = tuple(dims)
            if len(dims) != arr.ndim:
                raise_(ValueError, f'different number of dimensions on data and dims: {arr.ndim} vs {len(dims)}')
            if len(set(dims)) != len(dims):
                core.ctx().event('duplicate-dims', dims)
            self.variable = Variable(dims, arr, dict(attrs) if attrs else {}, {})
        self.name = name
        self._coords = dict(_coords) if _coords else {}
        if coords is not None:
            items = coords.items() if hasattr(coords, 'items') else coords
            for k, v in items:
                if isinstance(v, XDataArray):
                    self._check_coord(k, v)
                    self._coords[k] = v
                else:
                    raise Unsupported('coords given as raw data')

    def _check_coord(self, k, v):
        sizes = dict(zip(self.variable.dims, self.variable.arr.shape))
        for d, n in zip(v.dims, v.variable.arr.shape):
            if d in sizes and not (same(n, sizes[d]) or known_true(s_eq(n, sizes[d]))):
                raise_(ValueError, f'conflicting sizes for dimension {d!r} (CoordinateValidationError)')

    # --- attributes ---
    @property
    def dims(self):
        return self.variable.dims

    @property
    def shape(self):
        return self.variable.arr.shape

    @property
    def sizes(self):
        v = self.variable
        return Mapping_(lambda: v.dims, lambda d: v.arr.shape[v.dims.index(d)], 'sizes')

    @property
    def values(self):
        return self.variable.arr

    @values.setter
    def values(self, arr):
        self.variable.arr = asarray(arr)

    @property
    def data(self):
        return self.variable.arr

    @property
    def attrs(self):
        return self.variable.attrs

    @attrs.setter
    def attrs(self, v):
        self.variable.attrs = v

    @property
    def encoding(self):
        return self.variable.encoding

    @encoding.setter
    def encoding(self, v):
        self.variable.encoding = v

    @property
    def dtype(self):
        return self.variable.arr.dtype

    @property
    def size(self):
        return np.prod(self.variable.arr.shape) if self.variable.arr.shape else 1

    @property
    def ndim(self):
        return len(self.variable.dims)

    @property
    def coords(self):
        c = self._coords
        return Mapping_(lambda: list(c.keys()), lambda k: c[k], 'coords')

    def _asarray(self):
        return self.variable.arr

    def _len(self):
        return self.variable.arr._len()

    def __repr__(self):
        return f'<DataArray {self.name!r} dims={self.dims}>'

    def to_numpy(self):
        return self.variable.arr

    def copy(self, deep=True, data=None):
        used('XR-COPY-SHALLOW')
        return XDataArray(_var=self.variable.copy(deep), name=self.name, _coords=self._coords)

    def _iop(self, opname, other):
        """XR-INPLACE: `da *= x` works on the buffer of the variable (shared with every shallow copy of the dataset), as in xarray"""
        used('XR-INPLACE')
        o = other.variable.arr if isinstance(other, XDataArray) else other
        r = self.variable.arr._iop(opname, o)
        if r is NotImplemented:
            return NotImplemented
        return self

    def astype(self, dtype, **kw):
        used('XR-ASTYPE')         # element-wise numpy astype; dims, coordinates, name and attributes kept (keep_attrs defaults to True)
        if set(kw) - {'copy'}:
            raise Unsupported(f'DataArray.astype options {sorted(kw)}')
        v = self.variable
        return XDataArray(_var=Variable(v.dims, v.arr.astype(dtype), dict(v.attrs), dict(v.encoding)), name=self.name, _coords=self._coords)

    def get_axis_num(self, dim):
        """XR-GET-AXIS-NUM: the position of a dimension name (or of each of several) in .dims; ValueError for a name that is not one"""
        used('XR-GET-AXIS-NUM')
        if isinstance(dim, (list, tuple, core.TList)):
            return tuple(self.get_axis_num(d) for d in dim)
        if dim not in self.dims:
            raise_(ValueError, f'{dim!r} not found in array dimensions {self.dims!r}')
        return list(self.dims).index(dim)

    def transpose(self, *dims, **kw):
        used('XR-TRANSPOSE')
        if not dims:
            dims = tuple(reversed(self.dims))
        if Ellipsis in dims:
            raise Unsupported('transpose with ellipsis')
        if set(dims) != set(self.dims) or len(dims) != len(self.dims):
            raise_(ValueError, f'{dims} must be a permuted list of {self.dims}')
        axes = tuple(self.dims.index(d) for d in dims)
        v = Variable(dims, np.transpose(self.variable.arr, axes), self.variable.attrs, self.variable.encoding)
        return XDataArray(_var=v, name=self.name, _coords=self._coords)

    def isel(self, indexers=None, drop=False, missing_dims='raise', **kw):
        idx = dict(indexers or {})
        idx.update(kw)
        v = isel_variable(self.variable, idx, missing_dims)
        coords = {}
        for k, c in self._coords.items():
            cv = isel_variable(c.variable, idx, 'ignore')
            if drop and cv.dims == () and c.variable.dims != ():
                continue
            coords[k] = XDataArray(_var=cv, name=k)
        return XDataArray(_var=v, name=self.name, _coords=coords)

    def reset_coords(self, names=None, drop=False):
        """XR-RESET-COORDS (drop=True): the non-index coordinates are left behind; index coordinates (a 1-d coordinate named like
        its dimension) stay."""
        if not drop:
            raise Unsupported('DataArray.reset_coords(drop=False)')
        if isinstance(names, str):
            names = [names]
        keep = {}
        for k, c in self._coords.items():
            is_index = c.variable.dims == (k,)
            if is_index or (names is not None and k not in names):
                keep[k] = c
        return XDataArray(_var=self.variable, name=self.name, _coords=keep)

    def where(self, cond, other=None, drop=False):
        used('XR-WHERE')
        if drop:
            raise Unsupported('where(drop=True)')
        if other is None:
            from .floats import NANV
            other = NANV
        cv = cond.variable if isinstance(cond, XDataArray) else None
        if cv is None:
            raise Unsupported('where with non-DataArray condition')
        me = self.variable
        missing = [d for d in cv.dims if d not in me.dims]
        if missing:
            raise Unsupported('where: condition has dimensions the data lacks (broadcast)')
        pos = [me.dims.index(d) for d in cv.dims]
        for d, p in zip(cv.dims, pos):
            a, b = cv.arr.shape[cv.dims.index(d)], me.arr.shape[p]
            if not (same(a, b) or known_true(s_eq(a, b))):
                raise Unsupported('where: condition and data differ in size (alignment)')
        src = me.arr
        masked_other = other is np.MASKED
        out_dtype = src.dtype
        promote = (not masked_other and src.dtype.kind in 'ib'
                   and (getattr(other, '_is_float', False) or isinstance(other, (float, core.SReal))))
        if promote:
            # XR-WHERE-PROMOTE: an integer variable with a floating-point replacement value becomes float64 (numpy result_type)
            used('XR-WHERE-PROMOTE')
            out_dtype = np.FLOAT64
            from .floats import to_sfloat

        def fn(i):
            c = truthy(cv.arr.fn(tuple(i[p] for p in pos)))
            if masked_other:
                return src.fn(i)
            if promote:
                a, b = to_sfloat(np.to_float(src.fn(i))), to_sfloat(other)
                from .floats import SFloat
                return SFloat(s_ite(c, a.kind, b.kind), s_ite(c, a.val, b.val))
            return s_ite(c, src.fn(i), other)
        mfn = src.mask_fn
        if masked_other:
            old = src.mask_fn or (lambda i: False)
            mfn = lambda i: s_or(old(i), s_not(truthy(cv.arr.fn(tuple(i[p] for p in pos)))))
        arr = NDArray(src.shape, fn, out_dtype, mfn)
        arr.where_info = (src, cv, pos, other)
        return XDataArray(_var=Variable(me.dims, arr, dict(me.attrs), {}), name=self.name, _coords=self._coords)

    def any(self, dim=None, **kw):
        used('XR-REDUCE-ANY')
        me = self.variable
        if dim is None:
            axes = None
            keep = ()
        else:
            dl = [dim] if isinstance(dim, str) else list(dim)
            axes = tuple(me.dims.index(d) for d in dl)
            keep = tuple(d for d in me.dims if d not in dl)
        r = np.reduce_bool(me.arr, axes, 'any')
        if not isinstance(r, NDArray):
            r = NDArray((), (lambda r: lambda i: r)(r), np.BOOL)
        return XDataArray(_var=Variable(keep, r), name=self.name)

    def item(self):
        return self.variable.arr.item()

    def squeeze(self, dim=None, drop=False):
        return squeeze_da(self, dim, drop)

    def to_dataset(self, name=None, **kw):
        nm = name if name is not None else self.name
        if nm is None:
            raise_(ValueError, 'unable to convert unnamed DataArray to a Dataset without providing an explicit name')
        ds = XDataset()
        ds._vars[nm] = self.variable
        for k, c in self._coords.items():
            ds._vars[k] = c.variable
            ds._coord_names.add(k)
        return ds

    def to_netcdf(self, path=None, **kw):
        core.ctx().event('to_netcdf', 'DataArray', self, path, kw)
        _store_file(path, self.to_dataset(name=self.name))

    def _iterate(self):
        n = self.variable.arr.shape[0]
        if is_sym(n):
            raise Unsupported('iteration over DataArray of symbolic length')
        return iter([self.isel({self.dims[0]: k}) if self.ndim > 1 else self.variable.arr.fn((k,)) for k in range(n)])

    def _lazy_map(self, fn, cond):
        if self.ndim != 1:
            raise Unsupported('lazy iteration over multi-dimensional DataArray')
        return self.variable.arr._lazy_map(fn, cond)

    def _enumerate(self, start=0):
        if self.ndim != 1:
            raise Unsupported('enumerate over multi-dimensional DataArray')
        return self.variable.arr._rows()._enumerate(start)

    def _reversed(self):
        if self.ndim != 1:
            raise Unsupported('reversed over multi-dimensional DataArray')
        a = self.variable.arr
        n = a.shape[0]
        from .seq import SymSeq
        return SymSeq(n, lambda k: a.fn((n - 1 - k,)), 'gen')

    # arithmetic (same-dims only)
    def _arith(self, o, op):
        if isinstance(o, XDataArray):
            if o.dims != self.dims:
                raise Unsupported('DataArray arithmetic with different dims')
            o = o.variable.arr
        r = op(self.variable.arr, o)
        return XDataArray(_var=Variable(self.dims, r, {}, {}), name=self.name, _coords=self._coords)

    def __mul__(self, o): return self._arith(o, lambda a, b: a * b)
    def __rmul__(self, o): return self._arith(o, lambda a, b: b * a)
    def __add__(self, o): return self._arith(o, lambda a, b: a + b)
    def __radd__(self, o): return self._arith(o, lambda a, b: b + a)
    def __sub__(self, o): return self._arith(o, lambda a, b: a - b)
    def __neg__(self): return self._arith(0, lambda a, b: -a)

    def __invert__(self):
        v = self.variable
        src = v.arr.frozen()
        if src.dtype.kind != 'b':
            raise Unsupported('~ on a non-boolean DataArray')
        arr = NDArray(src.shape, lambda i: core.s_not(truthy(src.fn(i))), src.dtype)
        return XDataArray(_var=Variable(v.dims, arr, dict(v.attrs), dict(v.encoding)), name=self.name, _coords=dict(self._coords))

    def cumsum(self, dim=None, **kw):
        from . import depthlib
        return depthlib.cumsum(self, dim)

    def argmax(self, dim=None, **kw):
        from . import depthlib
        return depthlib.argmax(self, dim)

    __hash__ = None


def squeeze_da(da, dim, drop):
    used('XR-SQUEEZE')
    v = da.variable
    dl = [dim] if isinstance(dim, str) or not isinstance(dim, (list, tuple)) else list(dim)
    if dim is None:
        dl = [d for d, n in zip(v.dims, v.arr.shape) if not is_sym(n) and n == 1]
    for d in dl:
        if d in v.dims:
            n = v.arr.shape[v.dims.index(d)]
            if is_sym(n) or n != 1:
                raise_(ValueError, 'cannot select a dimension to squeeze out which has length greater than one')
    return da.isel({d: 0 for d in dl if d in v.dims})


def isel_variable(v: Variable, idx: dict, missing_dims='raise'):
    """XR-ISEL: integer -> drop dim; slice -> slice; DataArray / 1-d array of ints -> pointwise (vectorised) indexing.

    Vectorised indexing follows Variable._broadcast_indexes_vectorized: the output dimensions are the ordered union, in the
    order of the variable's own dimensions, of the kept dimensions and of each indexer's dimensions at the indexed
    dimension's position; a kept dimension that also is a dimension of an indexer is indexed pointwise
    (result[.., y, x] = v[.., idx[y, x], y, x])."""
    used('XR-ISEL')
    rel = {d: i for d, i in idx.items() if d in v.dims}
    if not rel:
        return v
    vec = {}
    for d, i in rel.items():
        if isinstance(i, XDataArray):
            if i.variable.dims == ():
                rel = dict(rel)
                rel[d] = i.variable.arr.fn(())
                continue
            vec[d] = (i.variable.dims, i.variable.arr)
        elif isinstance(i, NDArray):
            if i.ndim != 1:
                raise Unsupported('isel with multi-dimensional plain array')
            vec[d] = ((d,), i)
    if vec:
        used('XR-ISEL-POINTWISE')
    src = v.arr
    out_dims = []
    size_of = {}
    plan = []   # per source axis: ('keep', dim) | ('slice', start, step, dim) | ('int', k) | ('vec', dims, arr, n)

    def add_dim(d, n):
        if d in size_of:
            if not (same(n, size_of[d]) or known_true(s_eq(n, size_of[d]))):
                raise Unsupported(f'isel: indexer and data differ in size along {d!r} (alignment / IndexError)')
            return
        size_of[d] = n
        out_dims.append(d)
    for ax, d in enumerate(v.dims):
        n = src.shape[ax]
        if d in vec:
            vdims, varr = vec[d]
            for dd, nn in zip(vdims, varr.shape):
                add_dim(dd, nn)
            plan.append(('vec', vdims, varr.frozen(), n))
        elif d in rel:
            i = rel[d]
            if isinstance(i, Maybe):
                i = core.resolve_maybe(i)
            if isinstance(i, slice):
                st, step, ln = np.slice_params(i, n)
                add_dim(d, ln)
                plan.append(('slice', st, step, d))
            elif isinstance(i, (int, SInt)) and not isinstance(i, bool):
                plan.append(('int', src._norm_scalar_index(i, n)))
            elif hasattr(i, '_int'):
                plan.append(('int', src._norm_scalar_index(i._int(), n)))
            else:
                raise Unsupported(f'isel indexer {type(i).__name__}')
        else:
            add_dim(d, n)
            plan.append(('keep', d))
    out_dims = tuple(out_dims)
    shape = tuple(size_of[d] for d in out_dims)
    src = src.frozen()

    def remap(o):
        env = dict(zip(out_dims, o))
        out = []
        for p in plan:
            if p[0] == 'keep':
                out.append(env[p[1]])
            elif p[0] == 'slice':
                out.append(p[1] + env[p[3]] * p[2])
            elif p[0] == 'int':
                out.append(p[1])
            else:
                k = p[2].fn(tuple(env[dd] for dd in p[1]))
                out.append(np._wrapneg(k, p[3]))
        return tuple(out)
    arr = NDArray(shape, lambda o: src.fn(remap(o)), src.dtype,
                  (lambda o: src.mask_fn(remap(o))) if src.mask_fn is not None else None)
    return Variable(out_dims, arr, v.attrs, v.encoding)


class XDataset:
    _pyvc_model_class = True

    def __init__(self, data_vars=None, coords=None, attrs=None):
        used('XR-DATASET-CTOR')
        self._vars = {}
        self._coord_names = set()
        self.attrs = dict(attrs) if attrs else {}
        self.encoding = {}
        self._state = None
        self._accessors = {}
        if data_vars is not None:
            for k, v in (data_vars.items() if hasattr(data_vars, 'items') else data_vars):
                self._add(k, v, False)
        if coords is not None:
            for k, v in (coords.items() if hasattr(coords, 'items') else coords):
                self._add(k, v, True)

    def _add(self, k, v, is_coord):
        if isinstance(v, XDataArray):
            var = v.variable
            for ck, cv in v._coords.items():
                if ck not in self._vars:
                    self._vars[ck] = cv.variable
                    self._coord_names.add(ck)
                elif ck in var.dims and self._vars[ck] is not cv.variable and self._vars[ck].arr is not cv.variable.arr:
                    # XR-ASSIGN-ALIGN: a DataArray brings its own index along; xarray aligns it with the dataset's index by label
                    # (rows without a partner become missing) -- not modelled: the scenario is undecided rather than wrong
                    raise Unsupported(f'assignment of a DataArray whose index {ck!r} is not the dataset\'s own (alignment by label)')
        elif isinstance(v, Variable):
            var = v
        elif isinstance(v, tuple):
            dims = v[0]
            if isinstance(dims, str) or not isinstance(dims, (tuple, list)):
                dims = (dims,)
            arr = asarray(v[1])
            if len(dims) != arr.ndim:
                raise_(ValueError, 'dimensions do not match data')
            var = Variable(tuple(dims), arr, dict(v[2]) if len(v) > 2 and v[2] else {},
                           dict(v[3]) if len(v) > 3 and v[3] else {})
        else:
            raise Unsupported(f'dataset variable given as {type(v).__name__}')
        # size consistency
        sizes = self._sizes()
        for d, n in zip(var.dims, var.arr.shape):
            if d in sizes and not (same(n, sizes[d]) or known_true(s_eq(n, sizes[d]))):
                raise_(ValueError, f'conflicting sizes for dimension {d!r}')
        self._vars[k] = var
        if is_coord or (len(var.dims) == 1 and var.dims[0] == k):
            self._coord_names.add(k)

    def _sizes(self):
        out = {}
        for v in self._vars.values():
            for d, n in zip(v.dims, v.arr.shape):
                out.setdefault(d, n)
        return out

    def _da(self, k):
        var = self._vars[k]
        coords = {}
        for ck in self._coord_names:
            if ck != k and set(self._vars[ck].dims) <= set(var.dims):
                coords[ck] = XDataArray(_var=self._vars[ck], name=ck)
        return XDataArray(_var=var, name=k, _coords=coords)

    # mapping views -----------------------------------------------------------------
    @property
    def variables(self):
        vs = self._vars
        return Mapping_(lambda: list(vs.keys()), lambda k: vs[k], 'variables')

    @property
    def data_vars(self):
        return Mapping_(lambda: [k for k in self._vars if k not in self._coord_names], self._da, 'data_vars')

    @property
    def coords(self):
        return Mapping_(lambda: [k for k in self._vars if k in self._coord_names], self._da, 'coords')

    @property
    def sizes(self):
        return Mapping_(lambda: list(self._sizes().keys()), lambda d: self._sizes()[d], 'sizes')

    @property
    def indexes(self):
        """XR-INDEXES: one pandas index per *dimension coordinate* (a 1-d coordinate named after its dimension), keyed by that name, in
        the order of the variables; dimensions without such a coordinate have none (.get gives None)"""
        used('XR-INDEXES')
        names = lambda: [k for k in self._vars if k in self._coord_names and self._vars[k].dims == (k,)]
        return Mapping_(names, lambda k: DimIndex(self._vars[k].arr, k), 'indexes')

    xindexes = indexes

    @property
    def dims(self):
        return self.sizes

    def keys(self):
        return list(self._vars.keys())

    def get(self, k, default=None):
        try:
            ok = (not is_sym(k)) and k in self._vars
        except TypeError:
            ok = False
        return self._da(k) if ok else default

    def items(self):
        return [(k, self._da(k)) for k in self._vars if k not in self._coord_names]

    def _getitem(self, k):
        if isinstance(k, list):
            # XR-GETITEM-LIST: a new dataset with the named variables, plus every coordinate whose dimensions all occur among theirs
            # (scalar coordinates included), attributes kept
            used('XR-GETITEM-LIST')
            for name in k:
                if is_sym(name) or name not in self._vars:
                    raise PyRaise(ExcObj(KeyError, (name,)))
            ds = XDataset()
            ds.attrs = dict(self.attrs)
            dims = set()
            for name in k:
                ds._vars[name] = self._vars[name]
                dims |= set(self._vars[name].dims)
                if name in self._coord_names:
                    ds._coord_names.add(name)
            for name in self._vars:
                if name in self._coord_names and name not in ds._vars and set(self._vars[name].dims) <= dims:
                    ds._vars[name] = self._vars[name]
                    ds._coord_names.add(name)
            return ds
        if isinstance(k, tuple):
            raise Unsupported('dataset[tuple]')
        if is_sym(k):
            raise Unsupported('symbolic dataset key')
        try:
            ok = k in self._vars
        except TypeError:
            ok = False
        if not ok:
            sizes = self._sizes()
            try:
                is_dim = k in sizes
            except TypeError:
                is_dim = False
            if is_dim:
                # XR-DIM-DEFAULT-INDEX: dataset[dim] for a dimension without a coordinate variable is the default index 0 .. n - 1
                used('XR-DIM-DEFAULT-INDEX')
                n = sizes[k]
                return XDataArray(_var=Variable((k,), NDArray((n,), lambda i: i[0], np.INT64), {}, {}), name=k)
            raise PyRaise(ExcObj(KeyError, (k,)))
        return self._da(k)

    def _setitem(self, k, v):
        self._add(k, v, k in self._coord_names)

    def _contains(self, k):
        try:
            return k in self._vars
        except TypeError:
            return False

    def _iterate(self):
        return iter([k for k in self._vars if k not in self._coord_names])

    def _getattr(self, name):
        fns = getattr(core.ctx(), 'accessor_fns', None) or {}
        if name in fns:
            # XR-ACCESSOR-CACHE: one accessor object per Dataset object, built on first access and cached;
            # copies start with an empty cache
            used('XR-ACCESSOR-CACHE')
            if name not in self._accessors:
                self._accessors[name] = fns[name](self)
            return self._accessors[name]
        if name in ('ems', '_emsarray_state'):
            raise Unsupported(f'Dataset.{name}: accessors not provided by the scenario')
        try:
            return object.__getattribute__(self, name)
        except AttributeError:
            raise Unsupported(f'Dataset.{name} is not modelled')

    def __repr__(self):
        return f'<Dataset vars={list(self._vars)} coords={sorted(map(str, self._coord_names))}>'

    # operations -----------------------------------------------------------------------
    def copy(self, deep=False, data=None):
        used('XR-COPY-SHALLOW')
        ds = XDataset()
        for k, v in self._vars.items():
            ds._vars[k] = v.copy(deep)
        ds._coord_names = set(self._coord_names)
        ds.attrs = dict(self.attrs)
        ds.encoding = dict(self.encoding)
        return ds

    def _derive(self):
        ds = XDataset()
        ds._vars = dict(self._vars)
        ds._coord_names = set(self._coord_names)
        ds.attrs = dict(self.attrs)
        ds.encoding = dict(self.encoding)
        return ds

    def drop_vars(self, names, errors='raise'):
        used('XR-DROP-VARS')
        if isinstance(names, str) or not hasattr(names, '__iter__'):
            names = [names]
        names = list(names)
        for n in names:
            if n not in self._vars and errors == 'raise':
                raise_(ValueError, f'These variables cannot be found in this dataset: {n!r}')
        ds = self._derive()
        for n in names:
            ds._vars.pop(n, None)
            ds._coord_names.discard(n)
        return ds

    def drop_dims(self, dims, errors='raise'):
        used('XR-DROP-DIMS')
        if isinstance(dims, str):
            dims = [dims]
        dims = list(dims)
        sizes = self._sizes()
        for d in dims:
            if d not in sizes and errors == 'raise':
                raise_(ValueError, f'Dimension {d!r} not found')
        ds = self._derive()
        for k, v in list(ds._vars.items()):
            if set(v.dims) & set(dims):
                del ds._vars[k]
                ds._coord_names.discard(k)
        return ds

    def set_coords(self, names):
        if isinstance(names, str):
            names = [names]
        ds = self._derive()
        for n in names:
            if n not in ds._vars:
                raise_(ValueError, f'{n!r} not found')
            ds._coord_names.add(n)
        return ds

    def reset_coords(self, names=None, drop=False):
        ds = self._derive()
        if isinstance(names, str):
            names = [names]
        for n in (names or list(ds._coord_names)):
            ds._coord_names.discard(n)
        return ds

    def isel(self, indexers=None, drop=False, missing_dims='raise', **kw):
        if isinstance(indexers, XDataset):
            idx = {k: indexers._da(k) for k in indexers._vars}
        else:
            idx = dict(indexers or {})
        idx.update(kw)
        core.ctx().event('Dataset.isel', self, dict(idx))
        sizes = self._sizes()
        for d in idx:
            if d not in sizes:
                if missing_dims == 'raise':
                    raise_(ValueError, f'Dimensions {d!r} do not exist')
        ds = XDataset()
        ds.attrs = dict(self.attrs)
        ds.encoding = dict(self.encoding)
        for k, v in self._vars.items():
            nv = isel_variable(v, idx, 'ignore')
            if drop and k in self._coord_names and nv.dims == () and v.dims != ():
                continue
            if nv is v:
                nv = v
            ds._vars[k] = nv
            if k in self._coord_names:
                ds._coord_names.add(k)
        return ds

    def squeeze(self, dim=None, drop=False):
        used('XR-SQUEEZE')
        dl = [dim] if not isinstance(dim, (list, tuple)) else list(dim)
        sizes = self._sizes()
        for d in dl:
            n = sizes.get(d)
            if n is None:
                raise_(KeyError, d)
            if is_sym(n) or n != 1:
                raise_(ValueError, 'cannot select a dimension to squeeze out which has length greater than one')
        return self.isel({d: 0 for d in dl}, drop=drop)

    def assign(self, variables=None, **kw):
        used('XR-ASSIGN')
        ds = self._derive()
        items = dict(variables or {})
        items.update(kw)
        for k, v in items.items():
            ds._add(k, v, k in ds._coord_names)
        return ds

    def assign_coords(self, coords=None, **kw):
        used('XR-ASSIGN-COORDS')
        ds = self._derive()
        items = dict(coords or {})
        items.update(kw)
        for k, v in items.items():
            if isinstance(v, tuple) and len(v) >= 2 and isinstance(v[0], (list, tuple, str)):
                dims_ = (v[0],) if isinstance(v[0], str) else tuple(v[0])
                arr = asarray(v[1])
                if arr.ndim != len(dims_):
                    raise_(ValueError, 'dimensions do not match data')
                sizes = ds._sizes()
                for d, n in zip(dims_, arr.shape):
                    if d in sizes and not (same(n, sizes[d]) or known_true(s_eq(n, sizes[d]))):
                        raise_(ValueError, f'conflicting sizes for dimension {d!r}')
                ds._vars[k] = Variable(dims_, arr, dict(v[2]) if len(v) > 2 and v[2] else {}, {})
                ds._coord_names.add(k)
                continue
            if isinstance(v, (NDArray, list)):
                # raw values for an existing dimension coordinate: new variable, *attrs dropped*
                arr = asarray(v)
                if k in ds._sizes():
                    if arr.ndim != 1:
                        raise_(ValueError, 'dimension coordinate must be 1-D')
                    ds._vars[k] = Variable((k,), arr, {}, {})
                    ds._coord_names.add(k)
                    continue
                raise Unsupported('assign_coords of raw values for a non-dimension name')
            ds._add(k, v, True)
        return ds

    def merge(self, other, compat='no_conflicts', join='outer', fill_value=None, **kw):
        used('XR-MERGE')
        if compat == 'no_conflicts':
            if kw:
                raise Unsupported(f'merge options {sorted(kw)}')
            return _merge_aligned(self, other, join, _Dtypes.NA if fill_value is None else fill_value)
        if compat != 'override':
            raise Unsupported(f'merge compat={compat!r}')
        ds = self._derive()
        for k, v in other._vars.items():
            if k not in ds._vars:
                ds._vars[k] = v
                if k in other._coord_names:
                    ds._coord_names.add(k)
        # attrs: combine_attrs='override' keeps self's
        return ds

    def to_netcdf(self, path=None, **kw):
        core.ctx().event('to_netcdf', 'Dataset', self, path, kw)
        _store_file(path, self)

    __hash__ = None


def _concrete_labels(ds, d):
    v = ds._vars.get(d)
    if v is None or v.dims != (d,) or not isinstance(v.arr.shape[0], int):
        return None
    labs = [v.arr.fn((q,)) for q in range(v.arr.shape[0])]
    if not all(isinstance(x, int) and not isinstance(x, bool) for x in labs):
        return None
    if any(a >= b for a, b in zip(labs, labs[1:])):
        return None
    return labs


def _reindex(var, d, positions, fill_value):
    """the variable with dimension d rearranged: entry q along d is old entry positions[q], or the fill value where positions[q] < 0"""
    ax = var.dims.index(d)
    old = var.arr.frozen()
    missing = any(p < 0 for p in positions)
    dtype, fill = old.dtype, None
    if missing:
        if isinstance(fill_value, _NA):
            dtype, fill = _Dtypes.maybe_promote(old.dtype)
        else:
            fill = fill_value
    shape = old.shape[:ax] + (len(positions),) + old.shape[ax + 1:]

    def at(i, q):
        p = positions[q]
        if p < 0:
            return fill
        v = old.fn(i[:ax] + (p,) + i[ax + 1:])
        if missing and dtype is not old.dtype and old.dtype.kind == 'i' and dtype.kind == 'f':
            from .numpy_ import to_float
            return to_float(v)
        return v

    def fn(i):
        q = i[ax]
        if not positions:
            return None         # an empty axis has no entries
        if not is_sym(q):
            return at(i, q)
        out = at(i, len(positions) - 1)
        for j in range(len(positions) - 2, -1, -1):
            out = s_ite(mk_bool(zint(q) == j), at(i, j), out)
        return out
    if old.mask_fn is not None:
        raise Unsupported('alignment of a masked array')
    return Variable(var.dims, NDArray(shape, fn, dtype), dict(var.attrs), dict(var.encoding))


def _merge_aligned(left, right, join, fill_value):
    """XR-MERGE-ALIGN: Dataset.merge(other, join=inner|outer, fill_value=...) for two datasets whose shared dimensions carry integer index
    coordinates in strictly increasing order.  inner: the labels present in both; outer: the labels present in either; both in increasing
    order.  Every variable that uses the dimension is rearranged to the new labels; entries whose label the variable's own dataset lacks
    hold the fill value (NA: NaN after promotion of the dtype).  Variables of the left come first; a name defined in both must be the
    shared index coordinate.  Attributes of the left dataset are kept (combine_attrs='override')."""
    used('XR-MERGE-ALIGN')
    if join not in ('inner', 'outer'):
        raise Unsupported(f'merge join={join!r}')
    ls, rs = left._sizes(), right._sizes()
    shared = [d for d in ls if d in rs]
    for name in left._vars:
        if name in right._vars and name not in shared:
            raise Unsupported(f'merge: variable {name!r} defined in both datasets (conflict check not modelled)')
    new_labels, pos_l, pos_r = {}, {}, {}
    for d in shared:
        L, R = _concrete_labels(left, d), _concrete_labels(right, d)
        if L is None or R is None:
            if d not in left._vars and d not in right._vars and (same(ls[d], rs[d]) or known_true(s_eq(ls[d], rs[d]))):
                continue        # no index on either side: positions pair up
            raise Unsupported(f'merge: dimension {d!r} without concrete increasing integer labels on both sides')
        labs = [x for x in L if x in R] if join == 'inner' else sorted(set(L) | set(R))
        new_labels[d] = labs
        pos_l[d] = [L.index(x) if x in L else -1 for x in labs]
        pos_r[d] = [R.index(x) if x in R else -1 for x in labs]
    out = XDataset()
    out.attrs = dict(left.attrs)
    out.encoding = dict(left.encoding)
    for src, pos in ((left, pos_l), (right, pos_r)):
        for name, v in src._vars.items():
            if name in out._vars:
                continue
            nv = v
            for d in v.dims:
                if d in new_labels:
                    if name == d:
                        nv = Variable((d,), asarray(list(new_labels[d])), dict(v.attrs), dict(v.encoding))
                    else:
                        nv = _reindex(nv, d, pos[d], fill_value)
            out._vars[name] = nv
            if name in src._coord_names:
                out._coord_names.add(name)
    return out


def _path_key(path):
    return repr(path)


def _store_file(path, ds):
    """XR-NETCDF-ROUNDTRIP (stated): a dataset written to a file is read back with the same variables, dimensions, values and
    attributes (snapshot at the time of writing).  What decoding does to fill values / dtypes is NOT modelled -- the bounded native
    stand-ins exercise the real files."""
    c = core.ctx()
    files = getattr(c, 'files', None)
    if files is None:
        files = c.files = {}
    snap = XDataset()
    snap.attrs = dict(ds.attrs)
    for k, v in ds._vars.items():
        snap._vars[k] = Variable(v.dims, v.arr.frozen(), dict(v.attrs), dict(v.encoding))
    snap._coord_names = set(ds._coord_names)
    files[_path_key(path)] = snap


@model
def open_mfdataset(paths, **k):
    """XR-OPEN-MFDATASET (stated): the union of the variables of the given files (no two files here define the same data
    variable; shared coordinates are identical copies), global attributes of the first file."""
    used('XR-NETCDF-ROUNDTRIP')
    used('XR-OPEN-MFDATASET')
    c = core.ctx()
    files = getattr(c, 'files', {})
    out = XDataset()
    first = True
    for p in paths:
        key = _path_key(p)
        if key not in files:
            raise_(FileNotFoundError, f'no such file: {p!r}')
        f = files[key]
        if first:
            out.attrs = dict(f.attrs)
            first = False
        for name, v in f._vars.items():
            if name in out._vars:
                continue
            attrs, enc = dict(v.attrs), dict(v.encoding)
            # XR-DECODE-MOVES-ATTRS: on opening, xarray moves the attributes it decodes (fill values, packing, time units, the CF
            # `coordinates` list ...) from .attrs to .encoding; which ones depends on the file and the decoding options -- either outcome is
            # explored for every attribute of these names (time units / calendar only on time variables)
            for k_ in list(attrs):
                if k_ in DECODABLE_ATTRIBUTES and (k_ not in ('units', 'calendar') or v.arr.dtype.kind in 'Mm'):
                    from .stdlib import choice
                    if choice(f'decoding moves {k_!r} of {name!r} into the encoding'):
                        enc[k_] = attrs.pop(k_)
            out._vars[name] = Variable(v.dims, v.arr, attrs, enc)
            if name in f._coord_names:
                out._coord_names.add(name)
    c.event('open_mfdataset', list(paths), k)
    return out


DECODABLE_ATTRIBUTES = ('_FillValue', 'missing_value', 'scale_factor', 'add_offset', '_Unsigned', 'units', 'calendar', 'coordinates',
                        'grid_mapping', 'dtype')


@model
def open_dataset(*a, **k):
    raise Unsupported('xarray.open_dataset')


@model
def register_dataset_accessor(name):
    return model(lambda f: f)


class _NA:
    _pyvc_model_class = True

    def __repr__(self):
        return '<NA>'


class _Dtypes:
    _pyvc_model_class = True
    NA = _NA()

    @staticmethod
    @model
    def maybe_promote(dtype):
        used('XR-MAYBE-PROMOTE')
        from .floats import NANV
        d = np.as_dtype(dtype)
        if d.kind == 'f':
            return d, NANV
        if d.kind in 'Mm':
            from .stdlib import OpaqueValue
            return d, OpaqueValue('NaT')
        if d.kind == 'O':
            return d, NANV
        if d.kind == 'i':
            return np.FLOAT64, NANV
        if d.kind == 'b':
            return np.OBJECT, NANV
        if d.kind == 'V':
            p = getattr(d, 'promotes_to_self', None)
            if p is None:
                # a variable of arbitrary (unknown) dtype: both outcomes are explored
                from .stdlib import choice
                p = choice('dtype_promotes_to_itself')
            return (d if p else np.OBJECT), getattr(d, 'na', NANV)
        raise Unsupported(f'maybe_promote({d.name})')


class _Core:
    _pyvc_model_class = True
    dtypes = _Dtypes

    class dataset:
        DatasetCoordinates = object


class XarrayModule:
    _pyvc_model_class = True
    Dataset = XDataset
    DataArray = XDataArray
    Variable = Variable
    open_mfdataset = staticmethod(open_mfdataset)
    open_dataset = staticmethod(open_dataset)
    register_dataset_accessor = staticmethod(register_dataset_accessor)
    core = _Core
