"""Library contracts of the geometry writers used by emsarray.operations.geometry: geojson, pyshp (shapefile) and
shapely's WKT / WKB serialisers.  The models only *record* what the real code hands to the library; the obligations of
C15 are stated over those records together with the stated loss-free conditions of each library call:

  GEOJSON-POLYGON     geojson.Polygon(coords, precision=p) rounds every coordinate to p decimal places (default 6); the binary64
                      value survives for every coordinate of magnitude >= 1e-23 only when p >= 40 (validated natively by
                      harness/native/C15.py on awkward doubles and on coordinates of small magnitude).
  PYSHP-FIELD-TRUNCATE  Writer.field(name) keeps name[:10] (dbf field names are 10 bytes); Writer.record(*values) stores
                      values by field position, Writer.record(**kw) stores kw[field name] for each *stored* field name, '' when absent.
  SHAPELY-TO-WKT      shapely.to_wkt(g, rounding_precision=r): the default 6 rounds; -1 writes 16 significant digits (one double in ten
                      comes back one unit in the last place off); r >= 20 writes the shortest exact representation (GEOS 3.13, validated natively).
  SHAPELY-TO-WKB      shapely.to_wkb(g) stores binary64 coordinates unchanged.
"""
from __future__ import annotations

from .. import core
from ..core import PyRaise, ExcObj, Unsupported
from ..interp import model
from .stdlib import NullCM


class GeoObj:
    _pyvc_model_class = True

    def __init__(self, kind, args, kwargs):
        self.kind, self.args, self.kwargs = kind, args, kwargs

    def __repr__(self):
        return f'<geojson.{self.kind}>'


class GeoJsonModule:
    _pyvc_model_class = True

    @staticmethod
    @model
    def Feature(*a, **kw):
        core.ctx().lib_used.add('GEOJSON-OBJECTS (Feature / Polygon / FeatureCollection keep what they are given; Polygon rounds to `precision`)')
        return GeoObj('Feature', a, kw)

    @staticmethod
    @model
    def Polygon(*a, **kw):
        return GeoObj('Polygon', a, kw)

    @staticmethod
    @model
    def FeatureCollection(*a, **kw):
        return GeoObj('FeatureCollection', a, kw)

    @staticmethod
    @model
    def load(f, **kw):
        # GEOJSON-LOAD: geojson.load / loads build geojson objects, whose constructors round every coordinate to the library precision
        # (6 decimals by default): NOT the document as written
        from .stdlib import OpaqueValue, choice
        core.ctx().event('geojson.load', f, kw)
        if choice('geojson_load_ok'):
            return OpaqueValue('geojson-object', source=f, rounded=True)
        raise PyRaise(ExcObj(ValueError, ('invalid geojson',)))

    loads = load


class ShpWriter(NullCM):
    _pyvc_model_class = True

    def __init__(self, a, kw):
        self.a, self.kw = a, kw
        self.fields = []

    def field(self, name, field_type='C', size=50, decimal=0):
        core.ctx().lib_used.add('PYSHP-FIELD-TRUNCATE (dbf field names keep 10 characters; record(**kw) matches the stored names)')
        if not isinstance(name, str):
            raise Unsupported('symbolic shapefile field name')
        self.fields.append(name[:10])
        self.sizes = getattr(self, 'sizes', {})
        self.sizes[name[:10]] = (field_type, size, decimal)        # PYSHP-FIELD-SIZE: a value wider than `size` characters is cut silently
        core.ctx().event('shp.field', self, name[:10], field_type)

    def record(self, *values, **named):
        if values:
            stored = list(values[:len(self.fields)])
            while len(stored) < len(self.fields):
                stored.append('')
        else:
            stored = []
            for f in self.fields:
                v = named.get(f, '')
                stored.append('' if v is None else v)
        core.ctx().event('shp.record', self, dict(zip(self.fields, stored)))

    def shape(self, geo):
        core.ctx().event('shp.shape', self, geo)


class ShapefileModule:
    _pyvc_model_class = True

    @staticmethod
    @model
    def Writer(*a, **kw):
        w = ShpWriter(a, kw)
        core.ctx().event('shp.Writer', w, a, kw)
        return w


class MultiPoly:
    _pyvc_model_class = True

    def __init__(self, members):
        self.members = members


class Serialised:
    """text / bytes produced by a shapely serialiser: (format, geometry, keyword arguments)"""
    _pyvc_model_class = True

    def __init__(self, fmt, geom, a, kw):
        self.fmt, self.geom, self.a, self.kw = fmt, geom, a, kw


@model
def MultiPolygon(polys=None):
    core.ctx().lib_used.add('SHAPELY-MULTIPOLYGON (members are kept in the order given)')
    return MultiPoly(polys)


@model
def to_wkt(geom, *a, **kw):
    core.ctx().lib_used.add('SHAPELY-TO-WKT (loss free only for rounding_precision=-1; default 6 decimals)')
    from .numpy_ import INT64, NDArray
    from .seq import SymSeq
    if isinstance(geom, (list, tuple, core.TList, NDArray, SymSeq)):
        # SH-TO-WKT-ARRAY: element-wise texts, here as integer keys that are order-isomorphic to the texts (equal text <=> equal key). The text
        # is a function of the geometry and of the call options only; with the default rounding it is NOT injective (two geometries that
        # agree to 6 decimals have one text), so nothing relates the keys of different geometries.
        import z3
        from .numpy_ import asarray, used
        from .shapely_ import GeomSort, _fn, _term_of
        used('SH-TO-WKT-ARRAY')
        if a or set(kw) - {'rounding_precision', 'trim', 'output_dimension'}:
            raise core.Unsupported('to_wkt options')
        arr = asarray(list(geom) if isinstance(geom, (tuple, core.TList)) else geom).frozen()
        key = _fn('wkt_text_key_' + repr(sorted((k, repr(v)) for k, v in kw.items())), GeomSort, z3.IntSort())

        def at(i):
            g = arr.fn(i)
            t = g.z if isinstance(g, core.SVal) and not hasattr(g, 'term') else _term_of(g)
            return core.mk_int(key(t))
        r = NDArray(arr.shape, at, INT64)
        r.text_keys = True
        return r
    s = Serialised('wkt', geom, a, kw)
    core.ctx().event('shapely.to_wkt', s)
    return s


@model
def to_wkb(geom, *a, **kw):
    core.ctx().lib_used.add('SHAPELY-TO-WKB (binary64 coordinates unchanged)')
    s = Serialised('wkb', geom, a, kw)
    core.ctx().event('shapely.to_wkb', s)
    return s
