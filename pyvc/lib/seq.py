"""Symbolic-length sequences and boolean selections (DESIGN II.2)."""
from __future__ import annotations

import z3

from .. import core
from ..core import (ExcObj, PyRaise, SBool, SInt, Unsupported, is_sym, mk_bool, mk_int, s_and,
                    s_ite, truthy, zbool, zint)


class SymSeq:
    """Sequence with symbolic length: ``length`` (int|SInt) and ``at(k)`` for 0 <= k < length."""
    _pyvc_model_class = True

    def __init__(self, length, at, kind='list'):
        self.length = length
        self.at = at
        self.kind = kind

    def _len(self):
        return self.length

    def _getitem(self, idx):
        if isinstance(idx, slice):
            if idx.step not in (None, 1) or idx.stop is not None or not isinstance(idx.start, int) or idx.start < 0:
                raise Unsupported('slice of a symbolic sequence other than seq[a:] with a constant a >= 0')
            a = idx.start
            n = self.length
            c = core.ctx()
            if isinstance(n, int):
                m = max(n - a, 0)
            elif c.branch(zint(n) >= a):
                m = mk_int(zint(n) - a)
            else:
                m = 0
            out = SymSeq(m, lambda k: self.at(mk_int(zint(k) + a)) if is_sym(k) else self.at(k + a), self.kind)
            out.slice_of = (self, a)
            return out
        n = self.length
        c = core.ctx()
        if c.branch(z3.Or(zint(idx) >= zint(n), zint(idx) < -zint(n))):
            raise PyRaise(ExcObj(IndexError, ('index out of range',)))
        k = mk_int(z3.If(zint(idx) < 0, zint(idx) + zint(n), zint(idx)))
        return self.at(k)

    def _iterate(self):
        if isinstance(self.length, int):
            return iter([self.at(k) for k in range(self.length)])
        raise Unsupported('iteration over a sequence of symbolic length (needs an invariant or a lazy rule)')

    def _lazy_map(self, fn, cond):
        if cond is None:
            return SymSeq(self.length, lambda k: fn(self.at(k)), 'gen')
        sel = Selection(self.length, lambda n: truthy(cond(self.at(n))))
        out = SymSeq(sel.count, lambda k: fn(self.at(sel.sel(k))), 'gen')
        out.selection, out.source = sel, self
        return out

    def _concrete_len(self):
        return isinstance(self.length, int)

    def _reversed(self):
        n = self.length
        return SymSeq(n, lambda k: self.at(mk_int(zint(n) - 1 - zint(k))), 'gen')

    def _enumerate(self, start=0):
        return SymSeq(self.length, lambda k: (k + start, self.at(k)), 'gen')

    def _tolist(self):
        if isinstance(self.length, int):
            return [self.at(k) for k in range(self.length)]
        return SymSeq(self.length, self.at, 'list')

    def _totuple(self):
        if isinstance(self.length, int):
            return tuple(self.at(k) for k in range(self.length))
        return SymSeq(self.length, self.at, 'tuple')

    def _truthy(self):
        n = self.length
        return n != 0 if isinstance(n, int) else mk_bool(n.z != 0)

    def _next(self, default, missing):
        """next() on a lazy generator: its first element (least witness)."""
        c = core.ctx()
        sel = getattr(self, 'selection', None)
        if sel is not None and not isinstance(self.length, int):
            # instantiate "a witness of an enclosing exists makes the selection non-empty" before deciding emptiness (sound: only
            # instances of the selection / quantifier axioms are added)
            terms = []
            for quant, o in list(getattr(c, 'quantifiers', [])):
                if quant.which == 'any' and len(o) == 0:          # witnesses of a global exists
                    terms.extend(mk_int(f()) for f in quant.wit)
            terms = terms[-6:]
            n_before = len(getattr(c, 'quantifiers', []))
            for w in terms:
                for cand in (w, mk_int(zint(sel.total) - 1 - zint(w))):
                    sel.nonempty_iff(cand)
            import itertools as _it
            for quant, o in list(getattr(c, 'quantifiers', []))[n_before:]:
                for r in _it.product(terms, repeat=len(quant.axes)):
                    quant.instantiate(o, r)
        if c.branch(zint(self.length) > 0):
            return self.at(0)
        if default is not missing:
            return default
        raise PyRaise(ExcObj(StopIteration, ()))


class SymRange(SymSeq):
    def __init__(self, *a):
        if len(a) == 1:
            start, stop, step = 0, a[0], 1
        elif len(a) == 2:
            start, stop, step = a[0], a[1], 1
        else:
            start, stop, step = a
        if is_sym(step) or step != 1:
            raise Unsupported('symbolic range with a step')
        n = mk_int(z3.If(zint(stop) - zint(start) > 0, zint(stop) - zint(start), 0))
        super().__init__(n, lambda k: k + start, 'range')


_sel_counter = [0]


class Selection:
    """The increasing enumeration of {n in [0,N) | keep(n)}.

    ``count`` is a fresh non-negative integer, ``sel`` an uninterpreted function.  Facts are
    *instantiated* where used (the queries stay quantifier free):
      sel(k):   0 <= k < count  =>  0 <= sel(k) < N  and keep(sel(k)) and rank(sel(k)) = k
      rank(n):  0 <= n < N and keep(n)  =>  0 <= rank(n) < count and sel(rank(n)) = n
      order(k1,k2): k1 < k2 => sel(k1) < sel(k2);  order on ranks likewise.
    Two selections over pointwise-equal predicates can be unified with ``same_as``.
    """

    def __init__(self, total, keep, name=None):
        c = core.ctx()
        self.total = total
        self.keep = keep
        base = name or 'sel'
        self.count = c.fresh_int(base + '_count')
        self.f_sel = c.fresh_fn(base + '_at', z3.IntSort(), z3.IntSort())
        self.f_rank = c.fresh_fn(base + '_rank', z3.IntSort(), z3.IntSort())
        c.assume(self.count.z >= 0)
        c.assume(self.count.z <= zint(total))
        self._seen_k = []
        self._seen_n = []
        c.lib_used.add('SELECTION-THEORY')
        reg = getattr(c, 'selections', None)
        if reg is None:
            reg = c.selections = []
        reg.append(self)
        if isinstance(total, int) and total <= 8:
            # a selection out of a few concrete positions is defined completely: count = number of kept positions, and the position kept
            # after i' kept ones is the i'-th of the enumeration
            seen = z3.IntVal(0)
            for i in range(total):
                k_i = zbool(keep(i))
                c.assume(z3.Implies(k_i, z3.And(self.f_sel(seen) == i, self.f_rank(i) == seen)))
                seen = seen + z3.If(k_i, 1, 0)
            c.assume(self.count.z == seen)
            return
        # lemma (proved on the spot with a fresh index): keep everywhere => count == total;
        # keep nowhere => count == 0
        if c.check_feasible:
            probe = z3.Int(c._name(base + '_probe'))
            inr = z3.And(probe >= 0, probe < zint(total))
            kp = zbool(keep(mk_int(probe)))
            if not c.feasible(z3.And(inr, z3.Not(kp))):
                c.assume(self.count.z == zint(total))
            elif not c.feasible(z3.And(inr, kp)):
                c.assume(self.count.z == 0)

    def sel(self, k):
        c = core.ctx()
        kz = zint(k)
        s = self.f_sel(kz)
        inr = z3.And(kz >= 0, kz < self.count.z)
        c.assume(z3.Implies(inr, z3.And(s >= 0, s < zint(self.total), zbool(self.keep(mk_int(s))),
                                        self.f_rank(s) == kz)))
        for k2 in self._seen_k:
            c.assume(z3.Implies(z3.And(inr, k2 >= 0, k2 < self.count.z),
                                z3.And(z3.Implies(kz < k2, s < self.f_sel(k2)),
                                       z3.Implies(k2 < kz, self.f_sel(k2) < s),
                                       z3.Implies(kz == k2, s == self.f_sel(k2)))))
        self._seen_k.append(kz)
        return mk_int(s)

    def rank(self, n):
        """Position of n in the enumeration (meaningful when keep(n))."""
        c = core.ctx()
        nz = zint(n)
        r = self.f_rank(nz)
        ok = z3.And(nz >= 0, nz < zint(self.total), zbool(self.keep(n)))
        c.assume(z3.Implies(ok, z3.And(r >= 0, r < self.count.z, self.f_sel(r) == nz)))
        for n2 in self._seen_n:
            ok2 = z3.And(n2 >= 0, n2 < zint(self.total), zbool(self.keep(mk_int(n2))))
            c.assume(z3.Implies(z3.And(ok, ok2),
                                z3.And(z3.Implies(nz < n2, r < self.f_rank(n2)),
                                       z3.Implies(n2 < nz, self.f_rank(n2) < r))))
        self._seen_n.append(nz)
        return mk_int(r)

    def nonempty_iff(self, witness_n):
        """count > 0 follows from a witness."""
        c = core.ctx()
        nz = zint(witness_n)
        ok = z3.And(nz >= 0, nz < zint(self.total), zbool(self.keep(witness_n)))
        c.assume(z3.Implies(ok, self.count.z > 0))


class SymSet:
    """A set of integers given by its membership predicate (set(array) of an index array of symbolic length)."""
    _pyvc_model_class = True

    def __init__(self, member):
        self.member = member

    def _contains(self, x):
        return self.member(x)

    def intersection(self, other):
        """PY-SET-INTERSECTION with an array of at most a concrete number of items: only its emptiness is modelled"""
        comp = getattr(other, 'compressed_of', None)
        if comp is not None:
            _, flat, keep = comp
            n = flat.shape[0]
            if isinstance(n, int):
                hits = [s_and(truthy(keep.fn((j,))), self.member(flat.fn((j,)))) for j in range(n)]
                return _Emptiness(core.s_or(*hits) if hits else False)
        n = getattr(other, 'shape', (None,))[0] if hasattr(other, 'shape') else None
        if isinstance(n, int):
            return _Emptiness(core.s_or(*[self.member(other.fn((j,))) for j in range(n)]) if n else False)
        raise Unsupported('intersection of a symbolic set with a sequence of symbolic length')

    def _len(self):
        raise Unsupported('len of a symbolic set')

    def _iterate(self):
        raise Unsupported('iteration over a symbolic set')


class _Emptiness:
    _pyvc_model_class = True

    def __init__(self, nonempty):
        self.nonempty = nonempty

    def _truthy(self):
        return self.nonempty
