"""String formatting of (possibly symbolic) values.

Concrete values use Python's own ``format``.  Symbolic integers formatted with the
specs emsarray uses (``d``, ``+d``, ``02d`` ...) become *fresh string variables*
carrying the facts the format spec guarantees (language, length, decode function):
see DESIGN II.2 -- ``int.to.str`` encodings leave proofs undecided.
Anything else symbolic becomes an opaque message fragment (only ever used in
error/log messages).
"""
from __future__ import annotations

import re

import z3

from .. import core
from ..core import (ExcObj, PyRaise, SBool, SInt, SReal, SStr, Sym, Unsupported, is_sym, mk_bool,
                    mk_int, mk_str)


class OpaqueStr(str):
    """A message whose text the executor does not track."""
    _opaque = True

    def __new__(cls, s='<msg>'):
        return str.__new__(cls, s)


DIGIT = z3.Range('0', '9')
NZDIGIT = z3.Range('1', '9')
NAT_RE = z3.Union(z3.Re('0'), z3.Concat(NZDIGIT, z3.Star(DIGIT)))


# registry of decode facts: string term id -> (int term)
def _decode_fn():
    c = core.ctx()
    if not hasattr(c, '_str2int'):
        c._str2int = z3.Function('str2int', z3.StringSort(), z3.IntSort())
    return c._str2int


def format_int(v: SInt, spec: str):
    """Language-fact encoding of format(v, spec) for spec in {'', 'd', '+d', '0Nd', '+0Nd'}."""
    m = re.fullmatch(r'(\+?)(0?)(\d*)d?', spec)
    if not m:
        raise Unsupported(f'format spec {spec!r} for symbolic integer')
    plus, zero, width = m.group(1) == '+', m.group(2) == '0', int(m.group(3) or 0)
    c = core.ctx()
    s = c.fresh_str('fmt')
    z = v.z
    absz = z3.If(z >= 0, z, -z)
    digits = c.fresh_str('digits')       # decimal digits of |v| without padding
    digits = digits.z
    ndig = z3.Length(digits)
    c.assume(z3.InRe(digits, NAT_RE))
    # length of the digit string is determined by the magnitude (for |v| < 10^6: enough for the uses here)
    lens = z3.If(absz < 10, 1, z3.If(absz < 100, 2, z3.If(absz < 1000, 3, z3.If(absz < 10000, 4,
           z3.If(absz < 100000, 5, z3.If(absz < 1000000, 6, ndig))))))
    c.assume(ndig == lens)
    c.assume(z3.Implies(absz >= 1000000, ndig >= 7))
    dec = _decode_fn()
    c.assume(dec(digits) == absz)
    # single digit strings decode literally (lets the solver relate '0'..'9')
    c.assume(z3.Implies(absz < 10, digits == z3.SubString(z3.StringVal('0123456789'), absz, 1)))
    sign = z3.If(z < 0, z3.StringVal('-'), z3.StringVal('+' if plus else ''))
    if zero and width:
        padlen = z3.If(width - z3.Length(sign) - ndig > 0, width - z3.Length(sign) - ndig, 0)
        pad = c.fresh_str('pad').z
        c.assume(z3.InRe(pad, z3.Star(z3.Re('0'))))
        c.assume(z3.Length(pad) == padlen)
        body = z3.Concat(sign, pad, digits)
    elif width:
        padlen = z3.If(width - z3.Length(sign) - ndig > 0, width - z3.Length(sign) - ndig, 0)
        pad = c.fresh_str('pad').z
        c.assume(z3.InRe(pad, z3.Star(z3.Re(' '))))
        c.assume(z3.Length(pad) == padlen)
        body = z3.Concat(pad, sign, digits)
    else:
        body = z3.Concat(sign, digits)
    c.assume(s.z == body)
    c.assumptions_used.add('A-FMT-INT: integer formatting modelled by language/length/decode facts')
    return s


def format_value(interp, val, spec, conversion=-1):
    from ..interp import EnumMember
    if isinstance(val, core.Maybe):
        val = core.resolve_maybe(val)
    if isinstance(spec, SStr):
        raise Unsupported('symbolic format spec')
    if conversion == ord('r'):
        if isinstance(val, str) and not isinstance(val, OpaqueStr):
            return repr(val)
        if isinstance(val, SStr):
            return OpaqueStr('<repr of symbolic str>')
        if is_sym(val):
            return OpaqueStr('<repr>')
        try:
            if isinstance(val, (int, float, tuple, list, dict, set, frozenset, type(None), bool)):
                if _all_concrete(val):
                    return repr(val)
        except Exception:
            pass
        return OpaqueStr('<repr>')
    if isinstance(val, SInt) :
        return format_int(val, spec)
    if isinstance(val, SStr):
        if spec:
            raise Unsupported('format spec on symbolic string')
        return val
    if is_sym(val):
        return OpaqueStr('<sym>')
    if hasattr(val, '_format'):
        return val._format(spec)
    if isinstance(val, EnumMember):
        return format(val.value, spec) if val._mixin() is not None and spec else str(val)
    if isinstance(val, (int, float, str, bool, type(None))):
        try:
            return format(val, spec)
        except (ValueError, TypeError) as e:
            raise PyRaise(ExcObj(type(e), e.args))
    if isinstance(val, (tuple, list, dict, set, frozenset)) and _all_concrete(val):
        return format(val, spec)
    return OpaqueStr('<str>')


def _all_concrete(v):
    if isinstance(v, (tuple, list, set, frozenset)):
        return all(_all_concrete(x) for x in v)
    if isinstance(v, dict):
        return all(_all_concrete(k) and _all_concrete(x) for k, x in v.items())
    return isinstance(v, (int, float, str, bool, type(None))) and not isinstance(v, OpaqueStr)


def concat(parts):
    if any(isinstance(p, OpaqueStr) for p in parts):
        return OpaqueStr('<msg>')
    if all(isinstance(p, str) for p in parts):
        return ''.join(parts)
    z = [core.zstr(p) for p in parts]
    return mk_str(z3.Concat(*z)) if len(z) > 1 else mk_str(z[0])


def percent_format(fmt, args):
    if isinstance(fmt, str) and not is_sym(args) and _all_concrete(args):
        try:
            return fmt % args
        except (TypeError, ValueError) as e:
            raise PyRaise(ExcObj(type(e), e.args))
    return OpaqueStr('<msg>')


def int_of_sstr(s: SStr):
    """int(s) for a symbolic string: defined through the decode function on the digit language."""
    c = core.ctx()
    ok = z3.InRe(s.z, NAT_RE)
    if not c.branch(ok):
        raise Unsupported('int() of symbolic string outside the plain digit language')
    return mk_int(_decode_fn()(s.z))


_FLOAT_RE = [None]


def py_float_re():
    """PY-FLOAT-GRAMMAR: the strings float() accepts (finite literals; inf/nan spelled out)."""
    if _FLOAT_RE[0] is None:
        from .regex import class_ranges, ranges_re
        d = ranges_re(class_ranges('digit'))
        ws = z3.Star(ranges_re(class_ranges('space')))
        digitpart = z3.Concat(d, z3.Star(z3.Concat(z3.Option(z3.Re('_')), d)))
        sign = z3.Option(z3.Union(z3.Re('+'), z3.Re('-')))
        mant = z3.Union(z3.Concat(digitpart, z3.Option(z3.Concat(z3.Re('.'), z3.Option(digitpart)))),
                        z3.Concat(z3.Re('.'), digitpart))
        exp = z3.Option(z3.Concat(z3.Union(z3.Re('e'), z3.Re('E')), sign, digitpart))

        def ci(word):
            return z3.Concat(*[z3.Union(z3.Re(ch.lower()), z3.Re(ch.upper())) for ch in word])
        special = z3.Union(ci('inf'), ci('infinity'), ci('nan'))
        _FLOAT_RE[0] = z3.Concat(ws, sign, z3.Union(z3.Concat(mant, exp), special), ws)
    return _FLOAT_RE[0]


def str2float_fn():
    c = core.ctx()
    f = getattr(c, '_str2float', None)
    if f is None:
        f = c._str2float = z3.Function('str2float', z3.StringSort(), z3.RealSort())
    return f


def float_of_sstr(s: SStr):
    c = core.ctx()
    c.lib_used.add('PY-FLOAT-GRAMMAR')
    if not c.branch(z3.InRe(s.z, py_float_re())):
        raise PyRaise(ExcObj(ValueError, ('could not convert string to float',)))
    c.event('float()', s)
    return core.mk_real(str2float_fn()(s.z))


def sstr_method(s: SStr, name):
    from ..interp import model

    if name == 'strip':
        @model
        def strip(chars=None):
            raise Unsupported('strip() of symbolic string')
        return strip
    if name == 'lower':
        @model
        def lower():
            raise Unsupported('lower() of symbolic string')
        return lower
    if name == 'startswith':
        @model
        def startswith(p):
            return mk_bool(z3.PrefixOf(core.zstr(p), s.z))
        return startswith
    if name == 'endswith':
        @model
        def endswith(p):
            return mk_bool(z3.SuffixOf(core.zstr(p), s.z))
        return endswith
    if name == 'encode':
        @model
        def encode(enc='utf-8'):
            return s
        return encode
    raise Unsupported(f'str.{name} on symbolic string')
