"""String formatting of (possibly symbolic) values.

Concrete values use Python's own ``format``.  Symbolic integers formatted with the
specs emsarray uses (``d``, ``+d``, ``02d`` ...) become *fresh string variables*
carrying the facts the format spec guarantees (language, length, decode function):
see DESIGN II.2 -- ``int.to.str`` encodings leave proofs undecided.
Anything else symbolic becomes an opaque message fragment (only ever used in
error/log messages).
"""
from __future__ import annotations

import re

import z3

from .. import core
from ..core import (ExcObj, PyRaise, SBool, SInt, SReal, SStr, Sym, Unsupported, is_sym, mk_bool,
                    mk_int, mk_str)


class OpaqueStr(str):
    """A message whose text the executor does not track."""
    _opaque = True

    def __new__(cls, s='<msg>'):
        return str.__new__(cls, s)


class FStr(SStr):
    """A symbolic string that remembers how it was built: parts = [('lit', str) | ('int', value, spec) | ('str', SStr)]"""

    def __init__(self, z, parts):
        super().__init__(z)
        self.parts = parts

    def __add__(self, o):
        if isinstance(o, (str, SStr)):
            return concat([self, o])
        return NotImplemented

    def __radd__(self, o):
        if isinstance(o, (str, SStr)):
            return concat([o, self])
        return NotImplemented


def parts_of(x):
    if isinstance(x, FStr):
        return list(x.parts)
    if isinstance(x, SStr):
        return [('str', x)]
    if isinstance(x, str):
        return [('lit', x)] if x else []
    raise Unsupported(f'string part of type {type(x).__name__}')


def concat_parts(parts):
    parts = _merge(parts)
    if all(p[0] == 'lit' for p in parts):
        return ''.join(p[1] for p in parts)
    zs = []
    for p in parts:
        if p[0] == 'lit':
            zs.append(z3.StringVal(p[1]))
        elif p[0] == 'int':
            zs.append(p[3])
        else:
            zs.append(p[1].z)
    z = z3.Concat(*zs) if len(zs) > 1 else zs[0]
    return FStr(z3.simplify(z), parts)


def _merge(parts):
    out = []
    for p in parts:
        if p[0] == 'lit' and out and out[-1][0] == 'lit':
            out[-1] = ('lit', out[-1][1] + p[1])
        elif p[0] == 'lit' and not p[1]:
            continue
        else:
            out.append(p)
    return out


DIGIT = z3.Range('0', '9')
NZDIGIT = z3.Range('1', '9')
NAT_RE = z3.Union(z3.Re('0'), z3.Concat(NZDIGIT, z3.Star(DIGIT)))


# registry of decode facts: string term id -> (int term)
def _decode_fn():
    c = core.ctx()
    if not hasattr(c, '_str2int'):
        c._str2int = z3.Function('str2int', z3.StringSort(), z3.IntSort())
    return c._str2int


def format_int(v: SInt, spec: str):
    """Language-fact encoding of format(v, spec) for spec in {'', 'd', '+d', '0Nd', '+0Nd'}."""
    m = re.fullmatch(r'(\+?)(0?)(\d*)d?', spec)
    if not m:
        raise Unsupported(f'format spec {spec!r} for symbolic integer')
    plus, zero, width = m.group(1) == '+', m.group(2) == '0', int(m.group(3) or 0)
    c = core.ctx()
    s = c.fresh_str('fmt')
    # The z3 term is an unconstrained fresh string: everything the properties need about a formatted integer
    # (sign character, number of digits, value) is carried by ``parts`` and decided on the *skeleton* of the
    # string (lib/timelib.skeleton) -- character-level facts in z3 made every query a slow sequence query.
    c.assumptions_used.add('A-FMT-INT: formatted integers are tracked structurally (sign, digit count, value), not as z3 strings')
    return FStr(s.z, [('int', v, spec, s.z)])


def format_value(interp, val, spec, conversion=-1):
    from ..interp import EnumMember
    if isinstance(val, core.Maybe):
        val = core.resolve_maybe(val)
    if isinstance(spec, SStr):
        raise Unsupported('symbolic format spec')
    if conversion == ord('r'):
        if isinstance(val, str) and not isinstance(val, OpaqueStr):
            return repr(val)
        if isinstance(val, SStr):
            return OpaqueStr('<repr of symbolic str>')
        if is_sym(val):
            return OpaqueStr('<repr>')
        try:
            if isinstance(val, (int, float, tuple, list, dict, set, frozenset, type(None), bool)):
                if _all_concrete(val):
                    return repr(val)
        except Exception:
            pass
        return OpaqueStr('<repr>')
    if isinstance(val, SInt) :
        return format_int(val, spec)
    if isinstance(val, SStr):
        if spec:
            raise Unsupported('format spec on symbolic string')
        return val
    if is_sym(val):
        return OpaqueStr('<sym>')
    if hasattr(val, '_format'):
        return val._format(spec)
    if isinstance(val, EnumMember):
        return format(val.value, spec) if val._mixin() is not None and spec else str(val)
    if isinstance(val, (int, float, str, bool, type(None))):
        try:
            return format(val, spec)
        except (ValueError, TypeError) as e:
            raise PyRaise(ExcObj(type(e), e.args))
    if isinstance(val, (tuple, list, dict, set, frozenset)) and _all_concrete(val):
        return format(val, spec)
    return OpaqueStr('<str>')


def _all_concrete(v):
    if isinstance(v, (tuple, list, set, frozenset)):
        return all(_all_concrete(x) for x in v)
    if isinstance(v, dict):
        return all(_all_concrete(k) and _all_concrete(x) for k, x in v.items())
    return isinstance(v, (int, float, str, bool, type(None))) and not isinstance(v, OpaqueStr)


def concat(parts):
    if any(isinstance(p, OpaqueStr) for p in parts):
        return OpaqueStr('<msg>')
    if all(isinstance(p, str) for p in parts):
        return ''.join(parts)
    flat = []
    for p in parts:
        flat.extend(parts_of(p))
    return concat_parts(flat)


def percent_format(fmt, args):
    if isinstance(fmt, str) and not is_sym(args) and _all_concrete(args):
        try:
            return fmt % args
        except (TypeError, ValueError) as e:
            raise PyRaise(ExcObj(type(e), e.args))
    return OpaqueStr('<msg>')


def int_of_sstr(s: SStr):
    """int(s) for a symbolic string: defined through the decode function on the digit language."""
    c = core.ctx()
    ok = z3.InRe(s.z, NAT_RE)
    if not c.branch(ok):
        raise Unsupported('int() of symbolic string outside the plain digit language')
    return mk_int(_decode_fn()(s.z))


_FLOAT_RE = [None]


def py_float_re():
    """PY-FLOAT-GRAMMAR: the strings float() accepts (finite literals; inf/nan spelled out)."""
    if _FLOAT_RE[0] is None:
        from .regex import class_ranges, ranges_re
        d = ranges_re(class_ranges('digit'))
        ws = z3.Star(ranges_re(class_ranges('space')))
        digitpart = z3.Concat(d, z3.Star(z3.Concat(z3.Option(z3.Re('_')), d)))
        sign = z3.Option(z3.Union(z3.Re('+'), z3.Re('-')))
        mant = z3.Union(z3.Concat(digitpart, z3.Option(z3.Concat(z3.Re('.'), z3.Option(digitpart)))),
                        z3.Concat(z3.Re('.'), digitpart))
        exp = z3.Option(z3.Concat(z3.Union(z3.Re('e'), z3.Re('E')), sign, digitpart))

        def ci(word):
            return z3.Concat(*[z3.Union(z3.Re(ch.lower()), z3.Re(ch.upper())) for ch in word])
        special = z3.Union(ci('inf'), ci('infinity'), ci('nan'))
        _FLOAT_RE[0] = z3.Concat(ws, sign, z3.Union(z3.Concat(mant, exp), special), ws)
    return _FLOAT_RE[0]


def str2float_fn():
    c = core.ctx()
    f = getattr(c, '_str2float', None)
    if f is None:
        f = c._str2float = z3.Function('str2float', z3.StringSort(), z3.RealSort())
    return f


def float_of_sstr(s: SStr):
    c = core.ctx()
    c.lib_used.add('PY-FLOAT-GRAMMAR')
    if not c.branch(z3.InRe(s.z, py_float_re())):
        raise PyRaise(ExcObj(ValueError, ('could not convert string to float',)))
    c.event('float()', s)
    return core.mk_real(str2float_fn()(s.z))


def sstr_method(s: SStr, name):
    from ..interp import model

    if name == 'strip':
        @model
        def strip(chars=None):
            raise Unsupported('strip() of symbolic string')
        return strip
    if name == 'lower':
        @model
        def lower():
            raise Unsupported('lower() of symbolic string')
        return lower
    if name == 'startswith':
        @model
        def startswith(p):
            return mk_bool(z3.PrefixOf(core.zstr(p), s.z))
        return startswith
    if name == 'endswith':
        @model
        def endswith(p):
            return mk_bool(z3.SuffixOf(core.zstr(p), s.z))
        return endswith
    if name == 'encode':
        @model
        def encode(enc='utf-8'):
            return s
        return encode
    raise Unsupported(f'str.{name} on symbolic string')
