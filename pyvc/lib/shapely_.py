"""Library contracts for shapely (trusted base): geometries are uninterpreted terms."""
from __future__ import annotations

import z3

from .. import core
from ..core import (ExcObj, GeomSort, Maybe, PyRaise, SBool, SVal, Unsupported, is_sym, mk_bool, mk_int,
                    s_and, s_ite, s_not, s_or, truthy, zbool, zint)
from ..interp import model
from . import numpy_ as np
from .numpy_ import NDArray, asarray, used


class Geom(SVal):
    """A geometry term of sort Geom."""
    __slots__ = ()


def _fn(name, *sorts):
    c = core.ctx()
    cache = getattr(c, '_shp_fns', None)
    if cache is None:
        cache = c._shp_fns = {}
    if name not in cache:
        cache[name] = z3.Function(name, *sorts)
    return cache[name]


def poly_of_points(pts_fn, nverts, key):
    """Polygon term determined by its vertex list: Polygon(id) with vertex facts on demand.

    ``key`` is a tuple of z3 Int terms identifying the polygon inside its source array;
    the term is  mkpoly_<site>(key...)  and ``vertex(g, k)`` facts tie it to coordinates."""
    raise NotImplementedError


class PolyArrayInfo:
    """Record attached to an object array produced by shapely.polygons: where each slot's
    polygon came from (``coords`` array row) -- lets postconditions talk about vertices."""

    def __init__(self, coords, indices, nverts):
        self.coords, self.indices, self.nverts = coords, indices, nverts


@model
def polygons(coords, indices=None, out=None, **kw):
    """SH-POLYGONS-OUT: out[indices[k]] = Polygon(coords[k]); other slots untouched."""
    used('SH-POLYGONS-OUT')
    coords = asarray(coords)
    if coords.ndim != 3:
        raise Unsupported('shapely.polygons with coords of rank != 3')
    if indices is None and out is None:
        # SH-POLYGONS: a new array, element k = Polygon(coords[k])
        used('SH-POLYGONS')
        c = core.ctx()
        mk0 = _fn('Polygon_' + c._name('polysite'), z3.IntSort(), GeomSort)
        nverts0 = coords.shape[1]
        src = coords.frozen()
        return NDArray((coords.shape[0],), lambda i: PolyRef(mk0, i[0], src, i[0], nverts0), np.OBJECT)
    if indices is None or out is None:
        raise Unsupported('shapely.polygons with only one of indices / out')
    indices = asarray(indices)
    member = np.membership(indices)
    pos = np.position_in(indices)
    c = core.ctx()
    site = c._name('polysite')
    nverts = coords.shape[1]
    mk = _fn('Polygon_' + site, z3.IntSort(), GeomSort)
    old_fn = out.fn
    # the polygon written at slot n is a function of coords row pos(n); record for vertex queries
    reg = getattr(c, '_poly_sites', None)
    if reg is None:
        reg = c._poly_sites = []
    reg.append({'mk': mk, 'coords': coords, 'pos': pos, 'member': member, 'nverts': nverts, 'out': out})

    def new_fn(i):
        n = i[0]
        m = member(n)
        if m is False:
            return old_fn(i)
        g = PolyRef(mk, n, coords, pos(n), nverts)
        if m is True:
            return g
        cc = core.ctx()
        if not cc.feasible(z3.Not(zbool(m))):
            return g
        if not cc.feasible(zbool(m)):
            return old_fn(i)
        old = old_fn(i)
        if _maybe_like(old):
            return Maybe.ite(m, g, old)
        raise Unsupported('slot written by several shapely.polygons calls whose conditions are not decided on this path')
    out.fn = new_fn
    out._propagate()
    return out


def _maybe_like(v):
    return v is None or isinstance(v, Maybe)


class PolyRef:
    """Polygon stored at linear slot ``n``; built from row ``row`` of ``coords`` (nverts vertices)."""
    _pyvc_model_class = True

    def __init__(self, mk, n, coords, row, nverts):
        self.mk, self.n, self.coords, self.row, self.nverts = mk, n, coords, row, nverts

    @property
    def term(self):
        return self.mk(zint(self.n))

    def vertex(self, k):
        return (self.coords.fn((self.row, k, 0)), self.coords.fn((self.row, k, 1)))

    def _is(self, other):
        if other is None:
            return False
        return self is other

    def _eq(self, other):
        if other is None:
            return False
        if isinstance(other, PolyRef):
            return mk_bool(self.term == other.term)
        return False

    def __repr__(self):
        return f'<Polygon slot={self.n}>'


@model
def is_valid(geoms):
    used('SH-IS-VALID')
    a = asarray(geoms).frozen()
    f = _fn('is_valid', GeomSort, z3.BoolSort())

    def fn(i):
        g = core.resolve_maybe(a.fn(i)) if False else a.fn(i)
        if g is None:
            return False
        if isinstance(g, Maybe):
            inner = g.val
            v = mk_bool(f(inner.term)) if isinstance(inner, PolyRef) else False
            return s_and(s_not(g.none), v)
        if isinstance(g, PolyRef):
            return mk_bool(f(g.term))
        raise Unsupported('is_valid of unknown geometry value')
    return NDArray(a.shape, fn, np.BOOL)


class STRtreeModel:
    """SH-STRTREE-QUERY: query(q, predicate=p) returns, in unspecified order and without repeats,
    exactly the indices n of the array as given with geoms[n] not None and p(q, geoms[n])."""
    _pyvc_model_class = True

    def __init__(self, geoms, *a, **k):
        used('SH-STRTREE-QUERY')
        self.geoms = asarray(geoms)
        core.ctx().event('STRtree', self.geoms)

    def query(self, geometry, predicate=None, distance=None):
        if distance is not None and predicate != 'dwithin':
            raise Unsupported('STRtree.query with a distance but not the dwithin predicate')
        c = core.ctx()
        c.event('STRtree.query', self.geoms, geometry, predicate)
        # without a predicate the query is on bounding boxes only (SH-STRTREE-BBOX): every geometry that intersects the query geometry
        # has an overlapping box, the converse does not hold
        pred = _fn('pred_' + ('bbox' if predicate is None else str(predicate)), GeomSort, GeomSort, z3.BoolSort())
        inter = _fn('pred_intersects', GeomSort, GeomSort, z3.BoolSort())
        q = geom_term(geometry)
        geoms = self.geoms

        def holds(t):
            if predicate is None:
                core.ctx().assume(z3.Implies(inter(q, t), pred(q, t)))
            return mk_bool(pred(q, t))

        def keep(n):
            g = geoms.fn((n,))
            if g is None:
                return False
            if isinstance(g, Maybe):
                return s_and(s_not(g.none), holds(g.val.term))
            return holds(g.term)
        arr = np.index_set(geoms.shape[0], keep, 'hits')
        arr.query = (self, geometry, predicate)
        reg = getattr(c, 'strtree_results', None)
        if reg is None:
            reg = c.strtree_results = []
        reg.append(arr)
        return arr

    def nearest(self, *a, **k):
        core.ctx().event('STRtree.nearest')
        raise Unsupported('STRtree.nearest')


def geom_term(g):
    if isinstance(g, PolyRef):
        return g.term
    if isinstance(g, SVal):
        return g.z
    if z3.is_expr(getattr(g, 'z', None)) and g.z.sort() == GeomSort:
        return g.z
    raise Unsupported(f'not a geometry: {g!r}')


@model
class UnionOf:
    """shapely.unary_union(array of geometries): the union, as a token that remembers its operands; ``.bounds`` is its bounding box (a
    token as well).  What the union / the box are numerically is carried by the bounded stand-in."""
    _pyvc_model_class = True

    def __init__(self, geoms):
        self.geoms = geoms

    @property
    def bounds(self):
        return BoundsOf(self)


class BoundsOf:
    _pyvc_model_class = True

    def __init__(self, geom):
        self.geom = geom


@model
def unary_union(geoms):
    used('SH-UNARY-UNION')
    core.ctx().event('unary_union', geoms)
    return UnionOf(geoms)


class CoverageUnionOf:
    """shapely.coverage_union_all: NOT the union in general -- it only dissolves edges shared vertex for vertex and assumes, without checking,
    that the inputs form a valid polygonal coverage"""
    _pyvc_model_class = True

    def __init__(self, geoms):
        self.geoms = geoms

    @property
    def bounds(self):
        return BoundsOf(self)


@model
def coverage_union_all(geoms, **kw):
    used('SH-COVERAGE-UNION')
    core.ctx().event('coverage_union_all', geoms)
    return CoverageUnionOf(geoms)


@model
def box(*a, **k):
    used('SH-BOX')
    c = core.ctx()
    c.event('box', a)
    f = _fn('box', *([z3.RealSort()] * 4 + [GeomSort]))
    try:
        return Geom(f(*[core.zreal(x) if not hasattr(x, 'val') else core.zreal(x.val) for x in a]))
    except Unsupported:
        return Geom(z3.FreshConst(GeomSort, 'box'))


@model
def shape(obj):
    """shapely.geometry.shape: either a geometry determined by the JSON value, or an exception."""
    used('SH-SHAPE')
    c = core.ctx()
    c.event('shape', obj)
    from .stdlib import choice
    if choice('shape_ok'):
        g = Geom(z3.FreshConst(GeomSort, 'shape'))
        g_src = obj
        reg = getattr(c, '_shape_results', None)
        if reg is None:
            reg = c._shape_results = []
        reg.append((obj, g))
        return g
    raise PyRaise(ExcObj(ValueError, ('not a geometry',)))


# -- abstract results of set operations (SH-INTERSECTION) -----------------------------------------------------------------------------
# polygon.intersection(line) is a geometry term g = inter(polygon, line) of one of the classes below (kind(g)); it is empty iff
# not intersects(line, polygon); a MultiLineString / GeometryCollection has parts part(g, j), j < nparts(g), none of them a collection
# and none empty; a non-empty LineString has >= 2 coordinates coord(g, j), each a position usable as Point(...).
KINDS = ('LineString', 'MultiLineString', 'GeometryCollection', 'Point', 'MultiPoint', 'Polygon', 'MultiPolygon')
COLLECTIONS = ('MultiLineString', 'GeometryCollection', 'MultiPoint', 'MultiPolygon')


class CoordTok:
    """one entry of geometry.coords: a position, as a term of sort Geom (the point at that position)"""
    _pyvc_model_class = True

    def __init__(self, term, owner=None, where=None):
        self.term, self.owner, self.where = term, owner, where


class AbsGeom:
    _pyvc_model_class = True

    def __init__(self, term, part_of=None, fixed_kind=None):
        self.z = term
        self.part_of = part_of
        self.fixed_kind = fixed_kind
        c = core.ctx()
        k = self._kind()
        if fixed_kind is None:
            c.assume(z3.And(k >= 0, k < len(KINDS)))
        if part_of is not None:
            c.assume(z3.And(*[k != KINDS.index(n) for n in COLLECTIONS]))
            c.assume(z3.Not(_fn('geom_empty', GeomSort, z3.BoolSort())(term)))

    def _kind(self):
        if self.fixed_kind is not None:
            return z3.IntVal(KINDS.index(self.fixed_kind))
        return _fn('geom_kind', GeomSort, z3.IntSort())(self.z)

    def _geom_kind(self, name):
        if name == 'BaseGeometry':
            return True
        if name not in KINDS:
            return False
        return mk_bool(self._kind() == KINDS.index(name))

    @property
    def is_empty(self):
        return mk_bool(_fn('geom_empty', GeomSort, z3.BoolSort())(self.z))

    @property
    def geoms(self):
        from .seq import SymSeq
        used('SH-INTERSECTION')
        c = core.ctx()
        if c.branch(z3.Not(z3.Or(*[self._kind() == KINDS.index(n) for n in COLLECTIONS]))):
            raise PyRaise(ExcObj(AttributeError, ("'geoms' of a single-part geometry",)))
        n = _fn('geom_nparts', GeomSort, z3.IntSort())(self.z)
        c.assume(n >= 0)
        part = _fn('geom_part', GeomSort, z3.IntSort(), GeomSort)
        seq = SymSeq(mk_int(n), lambda j: AbsGeom(part(self.z, zint(j)), part_of=(self, j)), 'list')
        seq.parts_of = self
        return seq

    @property
    def coords(self):
        from .seq import SymSeq
        used('SH-INTERSECTION')
        c = core.ctx()
        if c.branch(z3.Not(z3.Or(self._kind() == KINDS.index('LineString'), self._kind() == KINDS.index('Point')))):
            raise Unsupported('coords of a multi-part geometry / polygon')
        n = _fn('geom_ncoords', GeomSort, z3.IntSort())(self.z)
        empty = _fn('geom_empty', GeomSort, z3.BoolSort())(self.z)
        c.assume(z3.If(empty, n == 0, z3.If(self._kind() == KINDS.index('LineString'), n >= 2, n == 1)))
        coord = _fn('geom_coord', GeomSort, z3.IntSort(), GeomSort)
        seq = SymSeq(mk_int(n), lambda j: CoordTok(coord(self.z, zint(j)), self, j), 'list')
        seq.coords_of = self
        return seq

    def _is(self, other):
        return False if other is None else self is other

    def _eq(self, other):
        if isinstance(other, AbsGeom):
            return mk_bool(self.z == other.z)
        return False

    def __repr__(self):
        return f'<geometry {self.z}>'


def intersection_of(poly_term, other):
    """SH-INTERSECTION: polygon.intersection(other)"""
    used('SH-INTERSECTION')
    c = core.ctx()
    q = geom_term(other) if not hasattr(other, 'z') else other.z
    g = AbsGeom(_fn('geom_inter', GeomSort, GeomSort, GeomSort)(poly_term, q))
    pred = _fn('pred_intersects', GeomSort, GeomSort, z3.BoolSort())
    c.assume(_fn('geom_empty', GeomSort, z3.BoolSort())(g.z) == z3.Not(pred(q, poly_term)))
    c.event('intersection', poly_term, q, g)
    return g


def _term_of(g):
    t = getattr(g, 'term', None)
    if t is None:
        t = getattr(g, 'z', None)
    if t is None:
        raise Unsupported(f'not a geometry: {g!r}')
    return t


@model
def get_num_coordinates(geoms):
    """SH-NUM-COORDINATES: element-wise number of coordinates; 0 for None; a polygon's closed ring counts its first vertex twice
    (>= 4 for a polygon)"""
    used('SH-NUM-COORDINATES')
    a = asarray(geoms).frozen()
    f = _fn('num_coordinates', GeomSort, z3.IntSort())

    def count(g):
        c = core.ctx()
        t = _term_of(g)
        c.assume(f(t) >= (4 if getattr(g, '_geom_kind', lambda n: False)('Polygon') is True else 0))
        return mk_int(f(t))

    def at(i):
        g = a.fn(i)
        if g is None:
            return 0
        if isinstance(g, Maybe):
            return s_ite(g.none, 0, count(g.val))
        return count(g)
    return NDArray(a.shape, at, np.INT64)


@model
def convex_hull(geoms):
    """SH-CONVEX-HULL: element-wise convex hull (a geometry term hull(g)); None stays None"""
    used('SH-CONVEX-HULL')
    a = asarray(geoms).frozen()
    f = _fn('convex_hull', GeomSort, GeomSort)

    def hull(g):
        h = AbsGeom(f(_term_of(g)))
        h.hull_of = g
        return h

    def at(i):
        g = a.fn(i)
        if g is None:
            return None
        if isinstance(g, Maybe):
            return Maybe.ite(g.none, None, hull(g.val))
        return hull(g)
    return NDArray(a.shape, at, np.OBJECT)


def _rewriting(name):
    """SH-REWRITE: element-wise functions that return ANOTHER geometry than they were given (simplify, remove_repeated_points, normalize,
    make_valid, segmentize, set_precision, reverse, buffer, ...): the result is the term name#site(g) - nothing is known about it except
    that it is a function of g and of the call (the other arguments are part of the call site token), in particular it is not known to equal g,
    to have the same coordinates, or the same number of them. None stays None."""
    def f(geoms, *a, **kw):
        used('SH-REWRITE')
        c = core.ctx()
        site = getattr(c, '_rewrite_sites', 0)
        c._rewrite_sites = site + 1
        fz = _fn(f'{name}#{site}', GeomSort, GeomSort)

        def one(g):
            r = AbsGeom(fz(_term_of(g)))
            r.rewritten_from = (name, g)
            return r
        if geoms is None or isinstance(geoms, (AbsGeom, PolyRef)) or hasattr(geoms, 'term') or (hasattr(geoms, 'z') and not hasattr(geoms, 'fn')):
            return None if geoms is None else one(geoms)
        arr = asarray(geoms).frozen()

        def at(i):
            g = arr.fn(i)
            if g is None:
                return None
            if isinstance(g, Maybe):
                return Maybe.ite(g.none, None, one(g.val))
            return one(g)
        return NDArray(arr.shape, at, np.OBJECT)
    f.__name__ = name
    return model(f)


@model
def get_coordinates(geoms, **kw):
    """SH-GET-COORDINATES (opaque here): all coordinates of all geometries as an (M, 2) array"""
    used('SH-GET-COORDINATES')
    from ..api import sym_array, sym_size
    c = core.ctx()
    m = sym_size(c, 'ncoords', 0)
    out = sym_array(c, 'allcoords', (m, 2), 'real')
    out.coordinates_of = geoms
    return out


class TransformedGeom:
    """shapely.transform(geometry, function): another geometry (its coordinates are the function's business, not modelled)"""
    _pyvc_model_class = True

    def __init__(self, source, fn):
        self.source, self.fn = source, fn
        self.z = z3.FreshConst(GeomSort, 'transformed')

    @property
    def term(self):
        return self.z

    @property
    def __geo_interface__(self):
        return {'type': 'Polygon', 'coordinates': TransformedCoords(self)}


class TransformedCoords:
    _pyvc_model_class = True

    def __init__(self, geom):
        self.geom = geom


@model
def transform(geometry, transformation, **kw):
    used('SH-TRANSFORM')
    core.ctx().event('shapely.transform', geometry)
    return TransformedGeom(geometry, transformation)


@model
def points(coords, y=None, **kw):
    """SH-POINTS: shapely.points(array of shape (n, 2)) = n point geometries, row p at (x_p, y_p); the point is a function of its two
    coordinates (point_xy)."""
    used('SH-POINTS')
    if y is not None:
        raise Unsupported('shapely.points(x, y)')
    a = asarray(coords)
    if a.ndim != 2 or not isinstance(a.shape[0], int) or a.shape[1] != 2:
        raise Unsupported('shapely.points of something that is not a concrete number of (x, y) rows')
    f = _fn('point_xy', z3.RealSort(), z3.RealSort(), GeomSort)

    def num(v):
        return core.zreal(v.val if hasattr(v, 'val') else v)
    pts = [Geom(f(num(a.fn((p, 0))), num(a.fn((p, 1))))) for p in range(a.shape[0])]
    out = NDArray((len(pts),), lambda i: pts[i[0]] if not is_sym(i[0]) else (_ for _ in ()).throw(Unsupported('symbolic index into a point array')), np.OBJECT)
    out.point_list = pts
    return out


def _geom_class(name, construct=None):
    def _isinstance(x):
        f = getattr(x, '_geom_kind', None)
        return f(name) if f is not None else False
    ns = {'_isinstance': staticmethod(_isinstance), '_pyvc_model_class': True, '__doc__': f'shapely.{name}'}
    if construct is not None:
        ns['__new__'] = staticmethod(construct)
    return type(name, (), ns)


def _new_point(cls, *a, **k):
    if len(a) == 1 and isinstance(a[0], CoordTok):
        g = AbsGeom(a[0].term, fixed_kind='Point')
        g.at_coord = a[0]
        return g
    raise Unsupported('shapely.Point(...) of something that is not an entry of geometry.coords')


def _new_linestring(cls, *a, **k):
    c = core.ctx()
    c.event('LineString', a)
    g = AbsGeom(z3.FreshConst(GeomSort, 'newline'), fixed_kind='LineString')
    g.built_from = a
    return g


class _GeometryMod:
    _pyvc_model_class = True
    box = staticmethod(box)
    shape = staticmethod(shape)
    Polygon = _geom_class('Polygon')
    MultiPolygon = _geom_class('MultiPolygon')
    Point = _geom_class('Point', _new_point)
    LineString = _geom_class('LineString', _new_linestring)
    MultiLineString = _geom_class('MultiLineString')
    GeometryCollection = _geom_class('GeometryCollection')
    MultiPoint = _geom_class('MultiPoint')

    class base:
        BaseGeometry = type('BaseGeometry', (), {})


class _StrtreeMod:
    _pyvc_model_class = True
    STRtree = STRtreeModel


class ShapelyModule:
    _pyvc_model_class = True
    polygons = staticmethod(polygons)
    points = staticmethod(points)
    transform = staticmethod(transform)
    get_num_coordinates = staticmethod(get_num_coordinates)
    convex_hull = staticmethod(convex_hull)
    get_coordinates = staticmethod(get_coordinates)
    is_valid = staticmethod(is_valid)
    simplify = staticmethod(_rewriting('simplify'))
    remove_repeated_points = staticmethod(_rewriting('remove_repeated_points'))
    normalize = staticmethod(_rewriting('normalize'))
    make_valid = staticmethod(_rewriting('make_valid'))
    segmentize = staticmethod(_rewriting('segmentize'))
    set_precision = staticmethod(_rewriting('set_precision'))
    reverse = staticmethod(_rewriting('reverse'))
    orient_polygons = staticmethod(_rewriting('orient_polygons'))
    unary_union = staticmethod(unary_union)
    union_all = staticmethod(unary_union)
    coverage_union_all = staticmethod(coverage_union_all)
    box = staticmethod(box)
    geometry = _GeometryMod
    strtree = _StrtreeMod
    STRtree = STRtreeModel
    Polygon = _GeometryMod.Polygon
    Point = _GeometryMod.Point
    LineString = _GeometryMod.LineString
    MultiLineString = _GeometryMod.MultiLineString
    GeometryCollection = _GeometryMod.GeometryCollection
    MultiPoint = _GeometryMod.MultiPoint
    MultiPolygon = staticmethod(__import__('pyvc.lib.exportlibs', fromlist=['x']).MultiPolygon)
    to_wkt = staticmethod(__import__('pyvc.lib.exportlibs', fromlist=['x']).to_wkt)
    to_wkb = staticmethod(__import__('pyvc.lib.exportlibs', fromlist=['x']).to_wkb)
