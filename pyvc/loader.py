"""Locate and parse the *real* emsarray source on every run.

Nothing is imported: modules are parsed with ``ast`` from the working tree
(``EMSARRAY_SRC`` or /repo/src).  The loader builds, per module, a table of
top-level definitions; the interpreter evaluates them lazily.
"""
from __future__ import annotations

import ast
import hashlib
import os
from dataclasses import dataclass, field
from typing import Any

from .core import Unsupported

SRC_ROOT = os.environ.get('EMSARRAY_SRC', '/repo/src')


@dataclass(eq=False)
class ModuleInfo:
    name: str
    path: str
    source: str
    tree: ast.Module
    defs: dict = field(default_factory=dict)      # name -> ast node (FunctionDef/ClassDef/Assign value/Import)
    env: dict = field(default_factory=dict)       # evaluated globals
    is_package: bool = False

    def segment(self, node) -> str:
        return ast.get_source_segment(self.source, node) or ''


@dataclass(eq=False)
class ClassInfo:
    name: str
    module: ModuleInfo
    node: ast.ClassDef
    bases: list = field(default_factory=list)          # ClassInfo | python type | other
    members: dict = field(default_factory=dict)        # name -> ast node or evaluated value
    evaluated: dict = field(default_factory=dict)
    is_enum: bool = False
    enum_members: list = field(default_factory=list)
    is_dataclass: bool = False
    qualname: str = ''

    def __repr__(self):
        return f'<class {self.module.name}.{self.name}>'

    @property
    def __name__(self):
        return self.name

    def mro(self):
        # C3 linearisation over ClassInfo bases; python types contribute their own mro
        def lin(c):
            if isinstance(c, ClassInfo):
                seqs = [lin(b) for b in c.bases] + [list(c.bases)]
                out = [c]
                seqs = [list(s) for s in seqs if s]
                while seqs:
                    for s in seqs:
                        h = s[0]
                        if not any(h in t[1:] for t in seqs):
                            break
                    else:
                        raise Unsupported(f'inconsistent MRO for {c.name}')
                    out.append(h)
                    for t in seqs:
                        if t and t[0] is h:
                            del t[0]
                    seqs = [t for t in seqs if t]
                return out
            if isinstance(c, type):
                return list(c.__mro__)
            return [c]
        return lin(self)


class Loader:
    def __init__(self, root=None):
        self.root = root or SRC_ROOT
        self.modules: dict[str, ModuleInfo] = {}

    def module_path(self, name: str):
        rel = name.replace('.', '/')
        p = os.path.join(self.root, rel + '.py')
        if os.path.isfile(p):
            return p, False
        p = os.path.join(self.root, rel, '__init__.py')
        if os.path.isfile(p):
            return p, True
        return None, False

    def load(self, name: str) -> ModuleInfo:
        if name in self.modules:
            return self.modules[name]
        path, is_pkg = self.module_path(name)
        if path is None:
            raise Unsupported(f'module {name} not found under {self.root}')
        src = open(path, encoding='utf-8').read()
        tree = ast.parse(src, filename=path)
        mod = ModuleInfo(name, path, src, tree, is_package=is_pkg)
        self.modules[name] = mod
        self._index(mod, tree.body)
        return mod

    def _index(self, mod: ModuleInfo, body):
        for node in body:
            if isinstance(node, (ast.FunctionDef, ast.ClassDef)):
                mod.defs[node.name] = node
            elif isinstance(node, ast.Assign):
                for t in node.targets:
                    if isinstance(t, ast.Name):
                        mod.defs[t.id] = node
                    elif isinstance(t, ast.Tuple):
                        for e in t.elts:
                            if isinstance(e, ast.Name):
                                mod.defs[e.id] = node
            elif isinstance(node, ast.AnnAssign):
                if isinstance(node.target, ast.Name) and node.value is not None:
                    mod.defs[node.target.id] = node
            elif isinstance(node, (ast.Import, ast.ImportFrom)):
                for a in node.names:
                    nm = a.asname or a.name.split('.')[0]
                    mod.defs[nm] = (node, a)
            elif isinstance(node, ast.If):
                # TYPE_CHECKING blocks are erased; other top-level ifs: index both arms
                test = ast.unparse(node.test)
                if 'TYPE_CHECKING' in test:
                    continue
                self._index(mod, node.body)
                self._index(mod, node.orelse)
            elif isinstance(node, ast.Try):
                self._index(mod, node.body)
                for h in node.handlers:
                    self._index(mod, h.body)
                self._index(mod, node.orelse)

    def resolve_relative(self, mod: ModuleInfo, node: ast.ImportFrom) -> str:
        if node.level == 0:
            return node.module or ''
        parts = mod.name.split('.')
        if not mod.is_package:
            parts = parts[:-1]
        if node.level > 1:
            parts = parts[:-(node.level - 1)]
        if node.module:
            parts = parts + node.module.split('.')
        return '.'.join(parts)

    # -- lookup helpers used for evidence -------------------------------------
    def find_function(self, modname: str, qualname: str):
        mod = self.load(modname)
        parts = qualname.split('.')
        body = mod.tree.body
        node = None
        for i, p in enumerate(parts):
            node = None
            for n in _walk_defs(body):
                if isinstance(n, (ast.FunctionDef, ast.ClassDef)) and n.name == p:
                    node = n
                    break
            if node is None:
                raise Unsupported(f'{modname}:{qualname} not found')
            body = node.body
        return mod, node

    def describe(self, modname: str, qualname: str) -> dict:
        mod, node = self.find_function(modname, qualname)
        seg = mod.segment(node)
        return {
            'file': os.path.relpath(mod.path, os.path.dirname(self.root.rstrip('/'))),
            'qualname': qualname,
            'lines': [node.lineno, node.end_lineno],
            'sha256': hashlib.sha256(seg.encode()).hexdigest()[:16],
        }


def _walk_defs(body):
    for n in body:
        if isinstance(n, (ast.FunctionDef, ast.ClassDef)):
            yield n
        elif isinstance(n, ast.If):
            yield from _walk_defs(n.body)
            yield from _walk_defs(n.orelse)
        elif isinstance(n, ast.Try):
            yield from _walk_defs(n.body)
            yield from _walk_defs(n.orelse)
