"""Sidecar contracts on emsarray functions (kept in /verif/contracts, never in /repo).

A contract in mode ``contract`` replaces the callee's body at call sites: the
precondition becomes an obligation of the caller, the postcondition an assumption
(modular verification).  The contract itself is verified against the real body by
the property scenario that owns it (``verified_by``).  Mode ``inline`` means the
body is executed symbolically at the call site (the default for every function
without an entry).
"""
from __future__ import annotations

from dataclasses import dataclass, field
from typing import Any, Callable

from . import core
from .core import PyRaise, Unsupported


@dataclass
class Contract:
    module: str
    qualname: str
    mode: str = 'contract'                    # 'contract' | 'inline'
    requires: Callable | None = None          # (it, argdict) -> bool|SBool
    post: Callable | None = None              # (it, argdict) -> result value (assumptions added to ctx)
    raises: Callable | None = None            # (it, argdict) -> list[(cond, exc_class)]
    verified_by: str = ''                     # property obligation(s) that verify this contract
    doc: str = ''
    _verifying: bool = False

    @property
    def key(self):
        return (self.module, self.qualname)

    def apply(self, interp, f, args, kwargs):
        from .interp import Env
        env = Env(f.module)
        interp.bind_args(f, f.node.args, args, kwargs, env)
        a = dict(env.vars)
        c = core.ctx()
        c.lib_used.add(f'CONTRACT {self.module}:{self.qualname} (verified by {self.verified_by or "?"})')
        if self.requires is not None:
            pre = self.requires(interp, a)
            c.check(f'pre:{self.qualname}', pre, kind='pre', note=f'precondition of {self.qualname} at a call site')
        if self.raises is not None:
            for cond, exc in self.raises(interp, a):
                if core.truth(cond):
                    raise PyRaise(core.ExcObj(exc, ('contract',)))
        if self.post is None:
            raise Unsupported(f'contract {self.qualname} has no postcondition')
        return self.post(interp, a)
