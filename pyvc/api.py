"""Helpers for writing property scenarios (props/Cxx.py) and sidecar contracts."""
from __future__ import annotations

import z3

from . import core
from .core import (Ctx, ExcObj, Maybe, PathAbort, PyRaise, SBool, SInt, SReal, SStr, SVal, Unsupported,
                   is_sym, mk_bool, mk_int, mk_real, s_and, s_eq, s_implies, s_ite, s_not, s_or, truth,
                   truthy, zbool, zint, zreal)
from .interp import Interp, exc_matches, is_subclass
from .lib import stdlib
from .lib.floats import FIN, NAN, SFloat
from .lib.numpy_ import BOOL, FLOAT64, INT32, INT64, OPAQUE, NDArray
from .lib.xarray_ import Variable, XDataArray, XDataset


PathEnd = core.PathEnd


def new_interp(use=()) -> Interp:
    """``use``: keys (module, qualname) of sidecar contracts to apply at call sites (modular verification);
    every other emsarray callee is executed symbolically (inlined)."""
    it = Interp(libs=stdlib.make_libs())
    if use:
        from .contracts_registry import install
        install(it, only=set(use))
    return it


def cls(it: Interp, module: str, name: str):
    return it.get_global(it.module(module), name)


def fn(it: Interp, module: str, name: str):
    return it.get_global(it.module(module), name)


def call(it: Interp, f, *args, **kwargs):
    return it.call(f, list(args), kwargs)


def method(it: Interp, obj, name, *args, **kwargs):
    return it.call(it.getattr(obj, name), list(args), kwargs)


def attr(it: Interp, obj, name):
    return it.getattr(obj, name)


def expect_ok(c: Ctx, name, thunk, kind='post'):
    """Run thunk; an exception of the interpreted program refutes obligation ``name`` on this path."""
    try:
        return thunk()
    except PyRaise as e:
        c.fail(name, note=f'raised {e.exc!r}', kind=kind)
        raise PathEnd()


def expect_raise(c: Ctx, name, thunk, exc_type=None, kind='post'):
    """Obligation: thunk raises (an exception matching exc_type); a normal return refutes it."""
    try:
        v = thunk()
    except PyRaise as e:
        if exc_type is not None and not exc_matches(e.exc, exc_type):
            c.fail(name, note=f'raised {e.exc!r}, expected {exc_type}', kind=kind)
        else:
            c.check(name, True, kind=kind)
        return e.exc
    c.fail(name, note=f'returned normally: {v!r}', kind=kind)
    raise PathEnd()


class LoopSpec:
    """A loop invariant supplied by the sidecar: see Interp._loop_with_invariant."""

    def __init__(self, init, havoc, step, final):
        self.init, self.havoc, self.step, self.final = init, havoc, step, final


def loop_invariant(it, func, pattern, spec, occurrence=1):
    """Attach ``spec`` to the ``occurrence``-th ``for`` statement of ``func`` whose source text starts with ``pattern`` (found in the real source on
    every run)."""
    import ast as _ast
    found = sorted((n for n in _ast.walk(func.node) if isinstance(n, _ast.For) and _ast.unparse(n).startswith(pattern)),
                   key=lambda n: (n.lineno, n.col_offset))
    if len(found) < occurrence:
        raise Unsupported(f'loop {pattern!r} (occurrence {occurrence}) not found in {func.qualname}')
    node = found[occurrence - 1]
    it.loop_specs[id(node)] = (node, spec)
    return node


def run_until(it, func, pattern, thunk, occurrence=1, stop_at=()):
    """Run ``thunk()`` until execution is about to execute the ``occurrence``-th statement of function ``func`` (a Func) whose source text
    starts with ``pattern`` (intermediate assertion point).  -> the environment of that frame (``env.lookup(name)``), or None when the
    statement was not reached on this path.  The statement is found in the real source on every run."""
    import ast as _ast
    from .interp import CutPoint
    found = []
    for node in _ast.walk(func.node):
        if isinstance(node, _ast.stmt) and _ast.unparse(node).startswith(pattern):
            found.append(node)
    found.sort(key=lambda n: (n.lineno, n.col_offset))
    if len(found) < occurrence:
        raise Unsupported(f'cut point {pattern!r} (occurrence {occurrence}) not found in {func.qualname}')
    target = found[occurrence - 1]
    stops = []
    for pat in stop_at:      # statements after which nothing of interest happens on this path: stop there, the target was not reached
        hits = [n for n in _ast.walk(func.node) if isinstance(n, _ast.stmt) and _ast.unparse(n).startswith(pat)]
        if not hits:
            raise Unsupported(f'stop point {pat!r} not found in {func.qualname}')
        stops.append(min(hits, key=lambda n: (n.lineno, n.col_offset)))
    it.cut_points.extend([target] + stops)
    try:
        thunk()
    except CutPoint as cp:
        if cp.st is target:
            return cp.env
        if any(cp.st is s_ for s_ in stops):
            return None
        raise
    finally:
        for n in [target] + stops:
            it.cut_points.remove(n)
    return None


def outcome(thunk):
    """-> ('return', value) | ('raise', ExcObj)"""
    try:
        return 'return', thunk()
    except PyRaise as e:
        return 'raise', e.exc


# ---------------------------------------------------------------------------
# symbolic data


def sym_array(c: Ctx, name, shape, kind='V', dtype=None):
    """Array with arbitrary contents: element = uninterpreted function of the index (memory layout unknown)."""
    r = _sym_array(c, name, shape, kind, dtype)
    r.order = None
    return r


def _sym_array(c: Ctx, name, shape, kind='V', dtype=None):
    nd = len(shape)
    if kind == 'V':
        f = c.fresh_fn(name, *([z3.IntSort()] * nd + [core.VSort]))
        return NDArray(shape, lambda i: SVal(f(*[zint(x) for x in i])), dtype or OPAQUE)
    if kind == 'real':
        f = c.fresh_fn(name, *([z3.IntSort()] * nd + [z3.RealSort()]))
        return NDArray(shape, lambda i: SFloat(FIN, mk_real(f(*[zint(x) for x in i]))), dtype or FLOAT64)
    if kind == 'float':
        f = c.fresh_fn(name, *([z3.IntSort()] * nd + [z3.RealSort()]))
        k = c.fresh_fn(name + '_kind', *([z3.IntSort()] * nd + [z3.IntSort()]))

        def at(i):
            zi = [zint(x) for x in i]
            kk = k(*zi)
            core.ctx().assume(z3.And(kk >= 0, kk <= 3))
            return SFloat(mk_int(kk), mk_real(f(*zi)))
        return NDArray(shape, at, dtype or FLOAT64)
    if kind == 'floatnan':
        # finite or NaN only
        f = c.fresh_fn(name, *([z3.IntSort()] * nd + [z3.RealSort()]))
        k = c.fresh_fn(name + '_nan', *([z3.IntSort()] * nd + [z3.BoolSort()]))

        def at2(i):
            zi = [zint(x) for x in i]
            return SFloat(s_ite(mk_bool(k(*zi)), NAN, FIN), mk_real(f(*zi)))
        return NDArray(shape, at2, dtype or FLOAT64)
    if kind == 'bool':
        f = c.fresh_fn(name, *([z3.IntSort()] * nd + [z3.BoolSort()]))
        return NDArray(shape, lambda i: mk_bool(f(*[zint(x) for x in i])), dtype or BOOL)
    if kind == 'int':
        f = c.fresh_fn(name, *([z3.IntSort()] * nd + [z3.IntSort()]))
        return NDArray(shape, lambda i: mk_int(f(*[zint(x) for x in i])), dtype or INT64)
    raise ValueError(kind)


def sym_size(c: Ctx, name, lo=0):
    """an extent: any integer from ``lo`` up to 2**31 - 2 (A-INT32-EXTENTS: emsarray stores element indexes as int32 by design --
    Mesh2DTopology.sensible_dtype -- so extents, and one-based indexes up to the extent, are taken to fit; stated, not checked)"""
    n = c.fresh_int(name)
    c.assume(n >= lo)
    c.assume(n <= 2 ** 31 - 2)
    c.assumptions_used.add('A-INT32-EXTENTS (every extent is below 2**31 - 1, so that element indexes fit the int32 type the code stores them in)')
    return n


def add_var(ds: XDataset, name, dims, arr, attrs=None, encoding=None, coord=False):
    ds._vars[name] = Variable(tuple(dims), arr, dict(attrs or {}), dict(encoding or {}))
    if coord:
        ds._coord_names.add(name)
    return ds


# ---------------------------------------------------------------------------
# frame conditions


def snapshot(ds: XDataset):
    """Remember a dataset as it is now (variable objects, element functions, attributes, encodings, order) for `check_unmodified`."""
    return {'vars': {k: (v, v.dims, v.arr, v.arr.fn, v.arr.mask_fn, dict(v.attrs), dict(v.encoding)) for k, v in ds._vars.items()},
            'order': list(ds._vars), 'coords': set(ds._coord_names), 'attrs': dict(ds.attrs)}


def check_unmodified(c: Ctx, ds: XDataset, snap, what='the input dataset'):
    """Frame obligation: an operation that returns a new dataset leaves its argument as it was -- same variables in the same order, same
    dimensions, attributes and encodings, and (at a Skolem index per variable) the same values."""
    c.check(f'{what} keeps its variables, their order, its coordinates and global attributes',
            list(ds._vars) == snap['order'] and set(ds._coord_names) == snap['coords'] and ds.attrs == snap['attrs'])
    for k, (v0, dims, arr, f, mf, attrs, enc) in snap['vars'].items():
        v = ds._vars.get(k)
        if v is None:
            continue
        ok = v.dims == dims and v.attrs == attrs and v.encoding == enc
        idx = []
        for d, n in enumerate(arr.shape):
            q = c.fresh_int(f'frame_{k}_{d}')
            c.assume(q >= 0)
            c.assume(q < n)
            idx.append(q)
        idx = tuple(idx)
        now, was = v.arr.fn(idx), f(idx)
        same = now.same_bits(was) if isinstance(now, SFloat) else s_eq(now, was)
        if mf is not None and v.arr.mask_fn is not None:
            same = s_and(same, s_eq(truthy(v.arr.mask_fn(idx)), truthy(mf(idx))))
        c.check(f'{what}: variable {k!r} is not modified (dimensions, attributes, encoding, values)', s_and(ok, same))
