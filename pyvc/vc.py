"""Discharge obligations: z3 (python API, rlimit) first, then cvc5 / z3-4.8 CLIs on the SMT-LIB text."""
from __future__ import annotations

import os
import subprocess
import tempfile
import time
from dataclasses import dataclass, field

import z3

from .core import Obligation

RLIMIT = int(os.environ.get('PYVC_RLIMIT', 30_000_000))
CLI_TIMEOUT = int(os.environ.get('PYVC_CLI_TIMEOUT', 60))
Z3_TIMEOUT_MS = int(os.environ.get('PYVC_Z3_TIMEOUT_MS', 60000))


@dataclass
class Verdict:
    name: str
    status: str                # discharged | refuted | undecided
    backend: str = ''
    ms: float = 0.0
    instances: int = 0
    model: dict | None = None
    smt2: str | None = None
    note: str = ''
    kind: str = 'post'
    cover: bool = True
    reason: str = ''


def _smt2(pc, goal):
    s = z3.Solver()
    for p in pc:
        s.add(p)
    s.add(z3.Not(goal))
    return s.to_smt2()


def _model_dict(m: z3.ModelRef):
    out = {}
    for d in m.decls():
        try:
            v = m[d]
            if d.arity() == 0:
                out[d.name()] = str(v)
            else:
                out[d.name()] = str(v)[:400]
        except Exception:
            pass
    return out


def _cli(smt2: str, strings: bool):
    """Try external solvers; returns (status, backend)."""
    import re as _re
    # z3 prints characters as (_ Char N); cvc5 wants (_ char #xH)
    smt2_cvc5 = _re.sub(r'\(_ Char (\d+)\)', lambda m: '(_ char #x%X)' % int(m.group(1)), smt2)
    with tempfile.NamedTemporaryFile('w', suffix='.smt2', delete=False, dir=os.environ.get('PYVC_TMP', None)) as f:
        f.write(smt2)
        path = f.name
    with tempfile.NamedTemporaryFile('w', suffix='.smt2', delete=False, dir=os.environ.get('PYVC_TMP', None)) as f:
        f.write('(set-logic ALL)\n' + smt2_cvc5)
        path5 = f.name
    try:
        cmds = []
        cv = ['/usr/bin/cvc5', '--tlimit=%d' % (CLI_TIMEOUT * 1000)]
        if strings:
            cv.append('--strings-exp')
        cmds.append(('cvc5-1.0.3', cv + [path5]))
        cmds.append(('z3-4.8.12', ['/usr/bin/z3', '-T:%d' % CLI_TIMEOUT, path]))
        for name, cmd in cmds:
            try:
                r = subprocess.run(cmd, capture_output=True, text=True, timeout=CLI_TIMEOUT + 10)
            except (subprocess.TimeoutExpired, FileNotFoundError):
                continue
            out = r.stdout.strip().splitlines()
            if out and out[0].strip() == 'unsat':
                return 'unsat', name
            if out and out[0].strip() == 'sat':
                return 'sat', name
        return 'unknown', ''
    finally:
        for pth in (path, path5):
            try:
                os.unlink(pth)
            except OSError:
                pass


def discharge_one(ob: Obligation, want_model=True):
    t0 = time.time()
    s = z3.Solver()
    s.set('rlimit', RLIMIT)
    s.set('timeout', Z3_TIMEOUT_MS)
    for p in ob.pc:
        s.add(p)
    s.add(z3.Not(ob.goal))
    r = s.check()
    ms = (time.time() - t0) * 1000
    if r == z3.unsat:
        return 'unsat', 'z3-5.1.0', ms, None
    if r == z3.sat:
        return 'sat', 'z3-5.1.0', ms, (_model_dict(s.model()) if want_model else None)
    smt2 = s.to_smt2()
    strings = 'String' in smt2 or 'str.' in smt2
    st, be = _cli(smt2, strings)
    ms = (time.time() - t0) * 1000
    return (st, be or 'z3-5.1.0', ms, None)


def cover_ok(ob: Obligation):
    s = z3.Solver()
    s.set('rlimit', RLIMIT)
    s.set('timeout', Z3_TIMEOUT_MS)
    for p in ob.pc:
        s.add(p)
    return s.check() != z3.unsat


def _second_opinion(smt2: str, strings: bool):
    """Ask the two external solvers independently (cvc5 1.0 and z3 4.8 CLIs) about a query z3 5.1 answered unsat.
    -> {'cvc5-1.0.3': 'unsat'|'sat'|'unknown', 'z3-4.8.12': ...}"""
    import re as _re
    out = {}
    smt2_cvc5 = '(set-logic ALL)\n' + _re.sub(r'\(_ Char (\d+)\)', lambda m: '(_ char #x%X)' % int(m.group(1)), smt2)
    for name, text, cmd in (('cvc5-1.0.3', smt2_cvc5, ['/usr/bin/cvc5', '--tlimit=20000'] + (['--strings-exp'] if strings else [])),
                            ('z3-4.8.12', smt2, ['/usr/bin/z3', '-T:20'])):
        with tempfile.NamedTemporaryFile('w', suffix='.smt2', delete=False, dir=os.environ.get('PYVC_TMP', None)) as f:
            f.write(text)
            path = f.name
        try:
            r = subprocess.run(cmd + [path], capture_output=True, text=True, timeout=30)
            first = (r.stdout.strip().splitlines() or ['unknown'])[0].strip()
            out[name] = first if first in ('sat', 'unsat') else 'unknown'
        except (subprocess.TimeoutExpired, FileNotFoundError):
            out[name] = 'unknown'
        finally:
            try:
                os.unlink(path)
            except OSError:
                pass
    return out


CROSSCHECK = {'asked': 0, 'agree': 0, 'unknown': 0, 'disagree': []}


def discharge(obligations: list[Obligation], sample_smt2=2):
    """Group per name; an obligation is discharged iff every path instance is unsat.
    PYVC_CROSSCHECK=N (thorough tier): the first instance of up to N discharged obligations per scenario is put to cvc5 and z3 4.8 as
    well; a 'sat' from either turns the verdict into *undecided* (solvers disagree) -- never into a violation."""
    budget = int(os.environ.get('PYVC_CROSSCHECK', '0') or 0)
    by_name: dict[str, list[Obligation]] = {}
    for ob in obligations:
        by_name.setdefault(ob.name, []).append(ob)
    verdicts = []
    samples = []
    for name, obs0 in by_name.items():
        # instances on infeasible paths (explored because a feasibility check came back unknown) say nothing
        obs = [ob for ob in obs0 if cover_ok(ob)]
        if not obs:
            continue
        status = 'discharged'
        backend = set()
        total_ms = 0.0
        model = None
        note = ''
        smt = None
        covered = False
        for ob in obs:
            if not covered and cover_ok(ob):
                covered = True
            st, be, ms, mdl = discharge_one(ob)
            total_ms += ms
            backend.add(be)
            if st == 'sat':
                status = 'refuted'
                model = mdl
                note = ob.note
                smt = _smt2(ob.pc, ob.goal)
                break
            if st != 'unsat':
                status = 'undecided'
                note = ob.note or 'solver returned unknown'
                smt = _smt2(ob.pc, ob.goal)
        v = Verdict(name, status, '+'.join(sorted(backend)), round(total_ms, 2), len(obs), model, smt, note,
                    obs[0].kind, covered)
        if status == 'discharged' and not covered:
            v.status = 'undecided'
            v.reason = 'vacuous: no path instance has a satisfiable path condition'
        if v.status == 'discharged' and budget > 0:
            budget -= 1
            text = _smt2(obs[0].pc, obs[0].goal)
            ans = _second_opinion(text, 'String' in text or 'str.' in text)
            CROSSCHECK['asked'] += 1
            if 'sat' in ans.values():
                CROSSCHECK['disagree'].append(name)
                v.status = 'undecided'
                v.reason = f'solvers disagree: z3-5.1.0 unsat, {ans}'
                v.smt2 = text
            elif 'unsat' in ans.values():
                CROSSCHECK['agree'] += 1
                v.backend += '+confirmed:' + '/'.join(k for k, a in ans.items() if a == 'unsat')
            else:
                CROSSCHECK['unknown'] += 1
        verdicts.append(v)
        if len(samples) < sample_smt2 and status == 'discharged':
            samples.append({'obligation': name, 'smt2_head': _smt2(obs[0].pc, obs[0].goal)[:1500]})
    return verdicts, samples
