"""Load sidecar contracts from /verif/contracts/*.py into an interpreter."""
from __future__ import annotations

import importlib
import os
import pkgutil


def all_contracts():
    import contracts
    out = []
    for m in pkgutil.iter_modules(contracts.__path__):
        mod = importlib.import_module('contracts.' + m.name)
        out.extend(getattr(mod, 'CONTRACTS', []))
    return out


def install(interp, only=None):
    for c in all_contracts():
        if c.mode == 'contract' and (only is None or c.key in only):
            interp.contracts[c.key] = c
