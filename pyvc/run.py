"""Check runner:  python3-vt -m pyvc.run Cxx --tier quick|thorough

1. deductive part: every scenario of props/Cxx.py is explored (real source re-read from /repo/src),
   its obligations discharged (z3, then cvc5 / z3-4.8 on unknown);
2. bounded stand-ins + replay: harness/native/Cxx.py under /venv/bin/python;
3. known findings, evidence, VIOLATION / KNOWN-FINDING / UNDECIDED lines, exit status
   (0 held, 1 violation, 3 checker error).
"""
from __future__ import annotations

import argparse
import hashlib
import importlib
import json
import multiprocessing as mp
import os
import subprocess
import sys
import time
import traceback

ROOT = os.path.dirname(os.path.dirname(os.path.abspath(__file__)))
if ROOT not in sys.path:
    sys.path.insert(0, ROOT)

VENV_PY = '/venv/bin/python'


def _worker(job):
    prop, sc, tier = job
    t0 = time.time()
    out = {'scenario': sc['name'], 'verdicts': [], 'unsupported': [], 'lib': [], 'assumptions': [], 'fuc': [],
           'paths': 0, 'samples': [], 'error': None}
    try:
        from pyvc import core, vc
        mod = importlib.import_module('props.' + prop)
        fn = getattr(mod, sc['fn'])
        kwargs = sc.get('kwargs', {})
        res = core.explore(lambda c: fn(c, **kwargs), max_paths=sc.get('max_paths', 20000))
        out['paths'] = len(res.paths)
        out['unsupported'] = sorted(set(res.unsupported))
        out['lib'] = sorted(res.lib_used)
        out['assumptions'] = sorted(res.assumptions_used)
        out['fuc'] = sorted(res.fuc.values())
        verdicts, samples = vc.discharge(res.obligations)
        for v in verdicts:
            out['verdicts'].append({'name': v.name, 'status': v.status, 'backend': v.backend, 'ms': v.ms,
                                    'instances': v.instances, 'model': v.model, 'note': v.note, 'kind': v.kind,
                                    'smt2': (v.smt2 or '')[:20000] if v.status != 'discharged' else None,
                                    'reason': v.reason})
        out['samples'] = samples
        out['crosscheck'] = dict(vc.CROSSCHECK)
        out['events_sample'] = []
        expected = sc.get('expect_obligations')
        if not res.obligations and not res.unsupported:
            out['error'] = 'scenario produced no obligations (vacuous)'
    except Exception as e:   # checker crash
        out['error'] = f'{type(e).__name__}: {e}\n{traceback.format_exc()[-1500:]}'
    out['wall'] = round(time.time() - t0, 3)
    return out


def _child(job, q):
    q.put(_worker(job))


def run_jobs(jobs, nproc, timeout_s, verbose=False):
    """One process per scenario (at most nproc at a time) with a wall-clock limit: a solver call that ignores its
    resource limit cannot hang the check -- the scenario becomes *undecided*."""
    ctx = mp.get_context('fork')
    pending = list(enumerate(jobs))
    running = {}
    results = [None] * len(jobs)
    while pending or running:
        while pending and len(running) < max(1, nproc):
            i, job = pending.pop(0)
            q = ctx.Queue()
            p = ctx.Process(target=_child, args=(job, q))
            p.start()
            running[i] = (p, q, time.time(), job)
        done = []
        for i, (p, q, t0, job) in running.items():
            try:
                r = q.get(timeout=0.02)
                results[i] = r
                p.join(1)
                done.append(i)
                continue
            except Exception:
                pass
            if not p.is_alive():
                try:
                    results[i] = q.get(timeout=0.5)
                except Exception:
                    results[i] = {'scenario': job[1]['name'], 'verdicts': [], 'unsupported': [], 'lib': [], 'assumptions': [],
                                  'fuc': [], 'paths': 0, 'samples': [], 'error': f'worker died (exit code {p.exitcode})', 'wall': 0}
                done.append(i)
            elif time.time() - t0 > timeout_s:
                p.terminate()
                p.join(2)
                if p.is_alive():
                    p.kill()
                results[i] = {'scenario': job[1]['name'], 'verdicts': [], 'lib': [], 'assumptions': [], 'fuc': [], 'paths': 0,
                              'samples': [], 'error': None, 'wall': timeout_s,
                              'unsupported': [f'Timeout: scenario exceeded {timeout_s}s (solver did not return)']}
                done.append(i)
        for i in done:
            if verbose:
                print(f'  .. {results[i]["scenario"]} ({results[i].get("wall")}s)', flush=True)
            del running[i]
    return results


def load_known(prop):
    path = os.path.join(ROOT, 'known_findings.json')
    if not os.path.exists(path):
        return []
    data = json.load(open(path))
    return [e for e in data.get('findings', []) if e.get('property') == prop]


def run_native(prop, tier, seed, extra=None):
    """Run the bounded stand-in module under the repo's interpreter; returns its JSON report."""
    mod_path = os.path.join(ROOT, 'harness', 'native', prop + '.py')
    if not os.path.exists(mod_path):
        return None
    evdir = os.environ.get('PYVC_EVIDENCE_DIR') or os.path.join(ROOT, 'evidence')
    os.makedirs(evdir, exist_ok=True)          # a scratch evidence directory may not exist yet (the native part runs before the evidence is written)
    out_path = os.path.join(evdir, f'.native_{prop}.json')
    cmd = [VENV_PY, os.path.join(ROOT, 'harness', 'run_native.py'), prop, '--tier', tier, '--seed', str(seed),
           '--out', out_path]
    if extra:
        cmd += extra
    env = dict(os.environ)
    env['PYTHONWARNINGS'] = 'ignore'
    env.pop('PYTHONPATH', None)
    if os.environ.get('EMSARRAY_SRC'):
        env['PYTHONPATH'] = os.environ['EMSARRAY_SRC']      # development runs on a scratch tree: the native part uses the same tree
    for attempt in range(3):
        try:
            r = subprocess.run(cmd, capture_output=True, text=True, timeout=int(os.environ.get('NATIVE_TIMEOUT', 3000)),
                               env=env, cwd=ROOT)
        except subprocess.TimeoutExpired:
            return {'error': 'native harness timed out'}
        if r.returncode >= 0 or os.path.exists(out_path):
            break
        # killed by a signal (a crash inside a native library, e.g. HDF5): not a verdict about the property -- run it again
        print(f'NOTE native harness died with signal {-r.returncode}, attempt {attempt + 1}/3', file=sys.stderr)
    if not os.path.exists(out_path):
        return {'error': f'native harness failed: rc={r.returncode}\n{r.stdout[-2000:]}\n{r.stderr[-3000:]}'}
    rep = json.load(open(out_path))
    os.unlink(out_path)
    return rep


def main(argv=None):
    ap = argparse.ArgumentParser()
    ap.add_argument('prop')
    ap.add_argument('--tier', default=os.environ.get('VERIF_TIER', 'quick'))
    ap.add_argument('--jobs', type=int, default=int(os.environ.get('VERIF_JOBS', 16)))
    ap.add_argument('--only', default=None, help='substring filter on scenario names (debugging)')
    ap.add_argument('--no-native', action='store_true')
    ap.add_argument('--verbose', '-v', action='store_true')
    args = ap.parse_args(argv)
    prop, tier = args.prop, args.tier
    if tier == 'thorough' and 'PYVC_CROSSCHECK' not in os.environ:
        os.environ['PYVC_CROSSCHECK'] = '12'          # thorough: up to 12 discharged obligations per scenario get a second and third opinion
    seed = int(os.environ.get('VERIF_SEED', '0') or 0)
    t0 = time.time()
    os.makedirs(os.path.join(ROOT, 'evidence'), exist_ok=True)
    os.makedirs(os.path.join(ROOT, 'replays'), exist_ok=True)

    mod = importlib.import_module('props.' + prop)
    scs = mod.scenarios(tier)
    if args.only:
        scs = [s for s in scs if args.only in s['name']]
    jobs = [(prop, s, tier) for s in scs]
    results = run_jobs(jobs, args.jobs, int(os.environ.get('PYVC_SCENARIO_TIMEOUT', 240 if tier == 'quick' else 900)),
                       verbose=args.verbose)

    checker_errors = [f"{r['scenario']}: {r['error']}" for r in results if r['error']]
    obligations = []
    for r in results:
        for v in r['verdicts']:
            v = dict(v)
            v['id'] = f"{r['scenario']} :: {v['name']}"
            v['scenario'] = r['scenario']
            obligations.append(v)
        for u in r['unsupported']:
            obligations.append({'id': f"{r['scenario']} :: <executor>", 'scenario': r['scenario'], 'name': '<executor>',
                                'status': 'undecided', 'backend': '', 'ms': 0, 'instances': 0, 'model': None,
                                'note': u, 'kind': 'exec', 'smt2': None, 'reason': u})
    n_ob = len(obligations)
    discharged = [o for o in obligations if o['status'] == 'discharged']
    refuted = [o for o in obligations if o['status'] == 'refuted']
    undecided = [o for o in obligations if o['status'] == 'undecided']

    # native part -----------------------------------------------------------------
    native = None
    if not args.no_native:
        native = run_native(prop, tier, seed)
        if native and native.get('error'):
            checker_errors.append('native: ' + native['error'])

    known = load_known(prop)
    lines = []
    violations = 0
    known_matched = []

    def match_known(kind, key):
        for e in known:
            if e.get('status', 'known') != 'known':
                continue
            if e.get('kind') == kind and (e.get('key') == key or (e.get('key_prefix') and key.startswith(e['key_prefix']))
                                          or (e.get('key_contains') and all(part in key for part in e['key_contains']))):
                return e
        return None

    native_failures = (native or {}).get('failures', []) if native and not native.get('error') else []
    # a refuted *library contract* invalidates the trusted base: checker error, not a property violation
    for f in [f for f in native_failures if str(f.get('key', '')).startswith('LIBCONTRACT:')]:
        checker_errors.append(f"trusted base invalid: {f['key']}: {f['detail'][:300]}")
    native_failures = [f for f in native_failures if not str(f.get('key', '')).startswith('LIBCONTRACT:')]
    # refuted obligations: confirm natively where the property module links a native check
    link = getattr(mod, 'NATIVE', {})
    groups = {}
    known_refuted = 0
    for o in refuted:
        e = match_known('obligation', o['id'])
        if e is not None:
            known_refuted += 1
            if e not in known_matched:
                known_matched.append(e)
                ln = f"KNOWN-FINDING: property={prop} {e['what']}"
                if ln not in lines:
                    lines.append(ln)
            continue
        violations += 1
        groups.setdefault(o['name'], []).append(o)
    for name, obs in groups.items():
        o = dict(obs[0])
        o['also_refuted_in'] = [x['id'] for x in obs[1:]]
        chk = None
        for pref, nm in link.items():
            if pref == '' or pref in o['id']:
                chk = nm
                break
        witness = next((f for f in native_failures if chk and f.get('check') == chk), None)
        if witness is not None:
            witness['_claimed'] = True
        rp = write_replay(prop, o, witness, tier)
        tail = '' if witness else ' no-failing-input-found'
        lines.append(f"VIOLATION property={prop} replay={rp}{tail}")
    used_native = set()
    for f in native_failures:
        e = match_known('native', f.get('key', ''))
        if e is not None:
            if e not in known_matched:
                known_matched.append(e)
                lines.append(f"KNOWN-FINDING: property={prop} {e['what']}")
            continue
        k = (f.get('check'), f.get('key'))
        if f.get('_claimed'):
            used_native.add(k)
            continue
        if k in used_native:
            continue
        used_native.add(k)
        violations += 1
        rp = write_replay(prop, None, f, tier)
        lines.append(f"VIOLATION property={prop} replay={rp}")
    for o in undecided:
        lines.append(f"UNDECIDED obligation={o['id']} reason={(o.get('reason') or o.get('note') or '')[:200]}")

    # evidence -------------------------------------------------------------------------
    from pyvc.loader import Loader
    ld = Loader()
    fuc_keys = sorted({tuple(k) for r in results for k in r['fuc']})
    fuc = []
    for m, q in fuc_keys:
        try:
            d = ld.describe(m, q)
            d['mode'] = 'inline'
            fuc.append(d)
        except Exception:
            pass
    libs = sorted({x for r in results for x in r['lib']})
    assumptions = sorted({x for r in results for x in r['assumptions']})
    samples = []
    for r in results:
        samples.extend(r.get('samples', []))
    samples = samples[:3]
    backends = {}
    for o in discharged:
        backends[o['backend']] = backends.get(o['backend'], 0) + 1
    level = getattr(mod, 'LEVEL', 'proof')
    ev = {
        'property_id': prop, 'tier': tier, 'seed': seed, 'level': level,
        'coverage': {
            'obligations': n_ob - known_refuted, 'discharged': len(discharged),
            'obligations_total': n_ob, 'refuted_listed_as_known_findings': known_refuted,
            'refuted': len(refuted), 'undecided': len(undecided),
            'checker_cmd': f'./check {prop} --tier {tier}   (python3-vt -m pyvc.run; z3-solver 5.1.0 python API with '
                           f'rlimit, unknowns re-tried with /usr/bin/cvc5 and /usr/bin/z3)',
            'trusted_base': libs + ['CPython semantics of the executed subset as implemented by pyvc/interp.py',
                                    'z3 / cvc5 soundness'],
            'backends': backends,
            'solver_ms_total': round(sum(o['ms'] for o in obligations), 1),
            'second_opinion': {'asked': sum((r.get('crosscheck') or {}).get('asked', 0) for r in results),
                               'confirmed_unsat_by_cvc5_or_z3_4_8': sum((r.get('crosscheck') or {}).get('agree', 0) for r in results),
                               'no_answer': sum((r.get('crosscheck') or {}).get('unknown', 0) for r in results),
                               'disagreements': [x for r in results for x in (r.get('crosscheck') or {}).get('disagree', [])],
                               'note': 'thorough tier only: a sample of the obligations z3 5.1 discharged is put to cvc5 1.0 and z3 4.8 independently'},
            'scenarios': len(results), 'paths_explored': sum(r['paths'] for r in results),
            'functions_under_contract': fuc,
            'obligation_list': _summarise(obligations),
            'samples': samples or [{'obligation': o['id']} for o in obligations[:3]],
            'bounded': (native or {}).get('bounded', []) if native else [],
            'bounded_note': 'bounded stand-ins are labelled bounded and are never counted in discharged',
            'known_findings_matched': [e['what'] for e in known_matched],
            'undecided_list': [o['id'] for o in undecided],
            'explanation': getattr(mod, 'EXPLANATION', mod.__doc__ or ''),
        },
        'assumptions': assumptions + list(getattr(mod, 'ASSUMPTIONS', [])),
        'wall_s': round(time.time() - t0, 2),
        'violations': violations,
    }
    if native and not native.get('error'):
        ev['coverage']['evaluations'] = native.get('evaluations', 0)
        ev['coverage']['distinct_nontrivial'] = native.get('distinct', 0)
        ev['coverage']['rule'] = native.get('rule', '')
    if checker_errors:
        ev['coverage']['checker_errors'] = checker_errors
    # PYVC_EVIDENCE_DIR: development runs on a deliberately changed tree (tools/run_all_mutants.py) must not overwrite the evidence
    evdir = os.environ.get('PYVC_EVIDENCE_DIR') or os.path.join(ROOT, 'evidence')
    os.makedirs(evdir, exist_ok=True)
    json.dump(ev, open(os.path.join(evdir, prop + '.json'), 'w'), indent=1, default=str)

    for ln in lines:
        print(ln)
    print(f"SUMMARY property={prop} tier={tier} obligations={n_ob} discharged={len(discharged)} "
          f"refuted={len(refuted)} undecided={len(undecided)} native_cases={(native or {}).get('evaluations', 0)} "
          f"native_failures={len(native_failures)} violations={violations} wall={ev['wall_s']}s")
    if args.verbose:
        for o in obligations:
            print(f"  [{o['status']:10}] {o['id']}  ({o['backend']}, {o['ms']} ms, {o['instances']} paths) {o.get('note') or ''}")
    if checker_errors:
        for e in checker_errors:
            print('CHECKER-ERROR', e)
        if violations:
            return 1
        return 3
    if n_ob == 0 and not (native and native.get('evaluations')):
        print('CHECKER-ERROR no obligations generated')
        return 3
    return 1 if violations else 0


def _summarise(obligations, cap=400):
    """Per obligation text: how many scenario instances, how many discharged, solver time (the full per-instance
    list would make the evidence file tens of MB for the larger properties)."""
    agg = {}
    for o in obligations:
        a = agg.setdefault(o['name'], {'obligation': o['name'], 'kind': o['kind'], 'instances': 0, 'discharged': 0,
                                       'refuted': 0, 'undecided': 0, 'ms': 0.0, 'backends': set(), 'example_scenario': o['scenario']})
        a['instances'] += 1
        a[o['status']] += 1
        a['ms'] = round(a['ms'] + o['ms'], 2)
        if o['backend']:
            a['backends'].add(o['backend'])
    out = []
    for a in agg.values():
        a['backends'] = sorted(a['backends'])
        out.append(a)
    out.sort(key=lambda a: (-(a['refuted'] + a['undecided']), a['obligation']))
    return out[:cap]


def write_replay(prop, ob, witness, tier):
    key = (ob['id'] if ob else '') + '|' + (json.dumps(witness, sort_keys=True, default=str) if witness else '')
    h = hashlib.sha256(key.encode()).hexdigest()[:10]
    rel = f'replays/{prop}-{h}.json'
    data = {
        'property': prop,
        'failed_obligation': ob['id'] if ob else None,
        'obligation_note': ob.get('note') if ob else None,
        'also_refuted_in': ob.get('also_refuted_in') if ob else None,
        'solver_backend': ob.get('backend') if ob else None,
        'solver_model': ob.get('model') if ob else None,
        'solver_output_smt2_query': ob.get('smt2') if ob else None,
        'native_check': witness.get('check') if witness else None,
        'native_key': witness.get('key') if witness else None,
        'concrete_input': witness.get('input') if witness else None,
        'native_detail': witness.get('detail') if witness else None,
        'replay_cmd': f'{VENV_PY} harness/replay.py {rel}',
    }
    json.dump(data, open(os.path.join(ROOT, rel), 'w'), indent=1, default=str)
    return rel


if __name__ == '__main__':
    sys.exit(main())
