"""pyvc core: path exploration by re-execution, symbolic scalars, obligations.

Everything symbolic is a z3 term wrapped in a small Python class with operator
overloading.  Truth-testing a symbolic boolean (``SBool.__bool__``) asks the
current context for a *decision*; the explorer re-executes the scenario once per
feasible sequence of decisions (stateless DFS), so interpreter and library
models may use arbitrary Python state.
"""
from __future__ import annotations

import itertools
import os
import time
from dataclasses import dataclass, field
from typing import Any, Callable

import z3


class Unsupported(Exception):
    """The executor met something it does not model: the obligation is *undecided*."""


class PathAbort(Exception):
    """Current path is infeasible (an assumption is false on it)."""


class PyRaise(Exception):
    """The interpreted program raised ``exc`` (an ExcObj)."""

    def __init__(self, exc):
        super().__init__(repr(exc))
        self.exc = exc


class TooManyPaths(Unsupported):
    pass


class PathEnd(Exception):
    """End this path normally (its obligations are kept)."""


# --------------------------------------------------------------------------
# sorts

VSort = z3.DeclareSort('V')          # values that are only moved (bit exact by construction)
GeomSort = z3.DeclareSort('Geom')    # shapely geometries (uninterpreted)

CTX: 'Ctx | None' = None


def ctx() -> 'Ctx':
    if CTX is None:
        raise RuntimeError("no active pyvc context")
    return CTX


def _simp(e):
    return z3.simplify(e)


# --------------------------------------------------------------------------
# symbolic scalars


class Sym:
    __slots__ = ('z',)

    def __init__(self, z):
        self.z = z

    def __repr__(self):
        return f'{type(self).__name__}({self.z})'

    def __hash__(self):
        return hash(('sym', self.z.get_id()))


def is_sym(x) -> bool:
    return isinstance(x, Sym)


def mk_int(e):
    """Wrap a z3 Int term; concrete numerals become Python ints."""
    e = _simp(e)
    if z3.is_int_value(e):
        return e.as_long()
    return SInt(e)


def mk_bool(e):
    e = _simp(e)
    if z3.is_true(e):
        return True
    if z3.is_false(e):
        return False
    return SBool(e)


def mk_real(e):
    e = _simp(e)
    return SReal(e)


def mk_str(e):
    e = _simp(e)
    if z3.is_string_value(e):
        return e.as_string()
    return SStr(e)


def zint(x):
    """Python/S value -> z3 Int term."""
    if isinstance(x, SInt):
        return x.z
    if isinstance(x, SBool):
        return z3.If(x.z, z3.IntVal(1), z3.IntVal(0))
    if isinstance(x, bool):
        return z3.IntVal(1 if x else 0)
    if isinstance(x, int):
        return z3.IntVal(x)
    if z3.is_expr(x) and z3.is_int(x):
        return x
    raise Unsupported(f'not an integer: {x!r}')


def zbool(x):
    if isinstance(x, SBool):
        return x.z
    if isinstance(x, bool):
        return z3.BoolVal(x)
    if isinstance(x, SInt):
        return x.z != 0
    if isinstance(x, int):
        return z3.BoolVal(x != 0)
    if x is None:
        return z3.BoolVal(False)
    if z3.is_expr(x) and z3.is_bool(x):
        return x
    raise Unsupported(f'not a boolean: {x!r}')


def zreal(x):
    if isinstance(x, SReal):
        return x.z
    if isinstance(x, SInt):
        return z3.ToReal(x.z)
    if isinstance(x, bool):
        return z3.RealVal(1 if x else 0)
    if isinstance(x, int):
        return z3.RealVal(x)
    if isinstance(x, float):
        if x != x or x in (float('inf'), float('-inf')):
            raise Unsupported('non-finite float constant in real arithmetic')
        from fractions import Fraction
        fr = Fraction(x)
        return z3.RealVal(str(fr.numerator)) / z3.RealVal(str(fr.denominator))
    if z3.is_expr(x) and z3.is_real(x):
        return x
    if z3.is_expr(x) and z3.is_int(x):
        return z3.ToReal(x)
    raise Unsupported(f'not a real: {x!r}')


def zstr(x):
    if isinstance(x, SStr):
        return x.z
    if isinstance(x, str):
        return z3.StringVal(x)
    raise Unsupported(f'not a string: {x!r}')


def zany(x):
    """Best effort conversion to a z3 term (for equality / ite)."""
    if isinstance(x, Sym):
        return x.z
    if isinstance(x, bool):
        return z3.BoolVal(x)
    if isinstance(x, int):
        return z3.IntVal(x)
    if isinstance(x, str):
        return z3.StringVal(x)
    if isinstance(x, float):
        return zreal(x)
    if z3.is_expr(x):
        return x
    raise Unsupported(f'no z3 term for {x!r}')


def py_floordiv(a, d):
    """Python floor division on z3 ints (z3 div is Euclidean)."""
    if z3.is_int_value(d):
        if d.as_long() > 0:
            return a / d
        if d.as_long() < 0:
            return (-a) / (-d)
    return z3.If(d > 0, a / d, (-a) / (-d))


def py_mod(a, d):
    if z3.is_int_value(d) and d.as_long() > 0:
        return a % d
    return a - d * py_floordiv(a, d)


class SInt(Sym):
    __slots__ = ()

    def _bin(self, other, op, rev=False):
        if isinstance(other, (SReal, float)):
            a, b = zreal(self), zreal(other)
            if rev:
                a, b = b, a
            return mk_real(op(a, b))
        if not isinstance(other, (int, SInt, SBool)):
            return NotImplemented
        a, b = self.z, zint(other)
        if rev:
            a, b = b, a
        return mk_int(op(a, b))

    def __add__(self, o): return self._bin(o, lambda a, b: a + b)
    def __radd__(self, o): return self._bin(o, lambda a, b: a + b, True)
    def __sub__(self, o): return self._bin(o, lambda a, b: a - b)
    def __rsub__(self, o): return self._bin(o, lambda a, b: a - b, True)
    def __mul__(self, o): return self._bin(o, lambda a, b: a * b)
    def __rmul__(self, o): return self._bin(o, lambda a, b: a * b, True)

    def _divguard(self, d):
        dz = zint(d)
        if ctx().branch(dz == 0):
            raise PyRaise(ExcObj(ZeroDivisionError, ('integer division or modulo by zero',)))
        return dz

    def __floordiv__(self, o):
        if not isinstance(o, (int, SInt)):
            return NotImplemented
        return mk_int(py_floordiv(self.z, self._divguard(o)))

    def __rfloordiv__(self, o):
        if not isinstance(o, (int, SInt)):
            return NotImplemented
        return mk_int(py_floordiv(zint(o), self._divguard(self)))

    def __mod__(self, o):
        if not isinstance(o, (int, SInt)):
            return NotImplemented
        return mk_int(py_mod(self.z, self._divguard(o)))

    def __rmod__(self, o):
        if not isinstance(o, (int, SInt)):
            return NotImplemented
        return mk_int(py_mod(zint(o), self._divguard(self)))

    def __divmod__(self, o):
        return (self // o, self % o)

    def __rdivmod__(self, o):
        return (o // self, o % self)

    def __truediv__(self, o):
        return mk_real(zreal(self) / zreal(o))

    def __rtruediv__(self, o):
        return mk_real(zreal(o) / zreal(self))

    def __neg__(self): return mk_int(-self.z)
    def __pos__(self): return self
    def __abs__(self): return mk_int(z3.If(self.z >= 0, self.z, -self.z))
    def __int__(self): raise Unsupported('int() of symbolic integer outside the interpreter')

    def _cmp(self, o, op):
        if isinstance(o, (SReal, float)):
            return mk_bool(op(zreal(self), zreal(o)))
        if not isinstance(o, (int, SInt, SBool)):
            return NotImplemented
        return mk_bool(op(self.z, zint(o)))

    def __lt__(self, o): return self._cmp(o, lambda a, b: a < b)
    def __le__(self, o): return self._cmp(o, lambda a, b: a <= b)
    def __gt__(self, o): return self._cmp(o, lambda a, b: a > b)
    def __ge__(self, o): return self._cmp(o, lambda a, b: a >= b)

    def __eq__(self, o):
        if o is None or isinstance(o, (str, tuple, list)):
            return False
        r = self._cmp(o, lambda a, b: a == b)
        return False if r is NotImplemented else r

    def __ne__(self, o):
        if o is None or isinstance(o, (str, tuple, list)):
            return True
        r = self._cmp(o, lambda a, b: a != b)
        return True if r is NotImplemented else r

    __hash__ = Sym.__hash__

    def __bool__(self):
        return ctx().branch(self.z != 0)

    def __index__(self):
        raise Unsupported('symbolic integer used as a concrete index')


class SBool(Sym):
    __slots__ = ()

    def __bool__(self):
        return ctx().branch(self.z)

    def __and__(self, o):
        if not isinstance(o, (bool, SBool)):
            return NotImplemented
        return mk_bool(z3.And(self.z, zbool(o)))
    __rand__ = __and__

    def __or__(self, o):
        if not isinstance(o, (bool, SBool)):
            return NotImplemented
        return mk_bool(z3.Or(self.z, zbool(o)))
    __ror__ = __or__

    def __xor__(self, o):
        return mk_bool(z3.Xor(self.z, zbool(o)))
    __rxor__ = __xor__

    def __invert__(self):
        return mk_bool(z3.Not(self.z))

    def __eq__(self, o):
        if isinstance(o, (bool, SBool)):
            return mk_bool(self.z == zbool(o))
        if isinstance(o, (int, SInt)):
            return mk_bool(zint(self) == zint(o))
        return False

    def __ne__(self, o):
        r = self.__eq__(o)
        return s_not(r)

    __hash__ = Sym.__hash__

    # arithmetic on booleans behaves like ints
    def __add__(self, o): return mk_int(zint(self) + zint(o))
    __radd__ = __add__
    def __mul__(self, o): return mk_int(zint(self) * zint(o))
    __rmul__ = __mul__


class SReal(Sym):
    __slots__ = ()

    def _bin(self, o, op, rev=False):
        if not isinstance(o, (int, float, SInt, SReal, SBool)):
            return NotImplemented
        a, b = self.z, zreal(o)
        if rev:
            a, b = b, a
        return mk_real(op(a, b))

    def __add__(self, o): return self._bin(o, lambda a, b: a + b)
    def __radd__(self, o): return self._bin(o, lambda a, b: a + b, True)
    def __sub__(self, o): return self._bin(o, lambda a, b: a - b)
    def __rsub__(self, o): return self._bin(o, lambda a, b: a - b, True)
    def __mul__(self, o): return self._bin(o, lambda a, b: a * b)
    def __rmul__(self, o): return self._bin(o, lambda a, b: a * b, True)
    def __truediv__(self, o): return self._bin(o, lambda a, b: a / b)
    def __rtruediv__(self, o): return self._bin(o, lambda a, b: a / b, True)
    def __neg__(self): return mk_real(-self.z)
    def __pos__(self): return self
    def __abs__(self): return mk_real(z3.If(self.z >= 0, self.z, -self.z))

    def _cmp(self, o, op):
        if not isinstance(o, (int, float, SInt, SReal, SBool)):
            return NotImplemented
        return mk_bool(op(self.z, zreal(o)))

    def __lt__(self, o): return self._cmp(o, lambda a, b: a < b)
    def __le__(self, o): return self._cmp(o, lambda a, b: a <= b)
    def __gt__(self, o): return self._cmp(o, lambda a, b: a > b)
    def __ge__(self, o): return self._cmp(o, lambda a, b: a >= b)

    def __eq__(self, o):
        r = self._cmp(o, lambda a, b: a == b)
        return False if r is NotImplemented else r

    def __ne__(self, o):
        r = self._cmp(o, lambda a, b: a != b)
        return True if r is NotImplemented else r

    __hash__ = Sym.__hash__


class SStr(Sym):
    __slots__ = ()

    def __add__(self, o):
        if not isinstance(o, (str, SStr)):
            return NotImplemented
        return mk_str(z3.Concat(self.z, zstr(o)))

    def __radd__(self, o):
        if not isinstance(o, (str, SStr)):
            return NotImplemented
        return mk_str(z3.Concat(zstr(o), self.z))

    def __eq__(self, o):
        if isinstance(o, (str, SStr)):
            return mk_bool(self.z == zstr(o))
        return False

    def __ne__(self, o):
        return s_not(self.__eq__(o))

    __hash__ = Sym.__hash__

    def _len(self):
        return mk_int(z3.Length(self.z))


class SVal(Sym):
    """Opaque value of sort V (or any other uninterpreted sort): only equality."""
    __slots__ = ()

    def __eq__(self, o):
        if isinstance(o, SVal) and o.z.sort() == self.z.sort():
            return mk_bool(self.z == o.z)
        return False

    def __ne__(self, o):
        return s_not(self.__eq__(o))

    __hash__ = Sym.__hash__


def s_not(x):
    if isinstance(x, bool):
        return not x
    if isinstance(x, SBool):
        return mk_bool(z3.Not(x.z))
    return not x


def s_and(*xs):
    return mk_bool(z3.And(*[zbool(x) for x in xs])) if xs else True


def s_or(*xs):
    return mk_bool(z3.Or(*[zbool(x) for x in xs])) if xs else False


def s_implies(a, b):
    return mk_bool(z3.Implies(zbool(a), zbool(b)))


def same_kind(a, b):
    return type(zany(a).sort()) == type(zany(b).sort()) and zany(a).sort() == zany(b).sort()


def wrap(e):
    """z3 term -> wrapped value."""
    s = e.sort()
    if s == z3.IntSort():
        return mk_int(e)
    if s == z3.BoolSort():
        return mk_bool(e)
    if s == z3.RealSort():
        return mk_real(e)
    if s == z3.StringSort():
        return mk_str(e)
    return SVal(_simp(e))


def s_ite(c, a, b):
    """if-then-else over arbitrary values; c may be bool or SBool."""
    if isinstance(c, bool):
        return a if c else b
    if not isinstance(c, SBool):
        c = truthy(c)
        if isinstance(c, bool):
            return a if c else b
    if a is b:
        return a
    try:
        if not is_sym(a) and not is_sym(b) and type(a) == type(b) and a == b:
            return a
    except Exception:
        pass
    if isinstance(a, tuple) and isinstance(b, tuple) and len(a) == len(b):
        return tuple(s_ite(c, x, y) for x, y in zip(a, b))
    if isinstance(a, Maybe) or isinstance(b, Maybe) or a is None or b is None:
        return Maybe.ite(c, a, b)
    if getattr(a, '_is_float', False) or getattr(b, '_is_float', False):
        from .lib.floats import sfloat_ite
        return sfloat_ite(c, a, b)
    if hasattr(a, '_ite_with'):
        return a._ite_with(c, b, True)
    if hasattr(b, '_ite_with'):
        return b._ite_with(c, a, False)
    za, zb = zany(a), zany(b)
    if za.sort() != zb.sort():
        if za.sort() == z3.RealSort() and zb.sort() == z3.IntSort():
            zb = z3.ToReal(zb)
        elif zb.sort() == z3.RealSort() and za.sort() == z3.IntSort():
            za = z3.ToReal(za)
        elif za.sort() == z3.BoolSort() and zb.sort() == z3.IntSort():
            za = z3.If(za, z3.IntVal(1), z3.IntVal(0))
        elif zb.sort() == z3.BoolSort() and za.sort() == z3.IntSort():
            zb = z3.If(zb, z3.IntVal(1), z3.IntVal(0))
        else:
            raise Unsupported(f'ite over different sorts: {za.sort()} / {zb.sort()}')
    return wrap(z3.If(c.z, za, zb))


class Maybe:
    """A value that is None under condition ``none`` and ``val`` otherwise."""
    __slots__ = ('none', 'val')

    def __init__(self, none, val):
        self.none = none   # bool | SBool
        self.val = val

    @staticmethod
    def ite(c, a, b):
        def parts(x):
            if x is None:
                return True, None
            if isinstance(x, Maybe):
                return x.none, x.val
            return False, x
        na, va = parts(a)
        nb, vb = parts(b)
        none = s_ite(c, na, nb)
        if va is None:
            val = vb
        elif vb is None:
            val = va
        else:
            val = s_ite(c, va, vb)
        if none is True:
            return None
        if none is False:
            return val
        return Maybe(none, val)

    def __repr__(self):
        return f'Maybe(none={self.none}, val={self.val})'


def resolve_maybe(x):
    """Branch on a Maybe: returns None or the value."""
    if isinstance(x, Maybe):
        if truth(x.none):
            return None
        return x.val
    return x


def s_eq(a, b):
    """Python ``==`` on possibly symbolic values, returns bool | SBool."""
    if isinstance(a, Maybe) and b is None:
        return a.none
    if isinstance(b, Maybe) and a is None:
        return b.none
    if isinstance(a, Maybe) or isinstance(b, Maybe):
        a, b = resolve_maybe(a), resolve_maybe(b)
    if hasattr(a, '_eq') and not isinstance(a, type):
        return a._eq(b)
    if hasattr(b, '_eq') and not isinstance(b, type):
        return b._eq(a)
    if is_sym(a):
        return a.__eq__(b)
    if is_sym(b):
        return b.__eq__(a)
    if isinstance(a, (tuple, list)) and isinstance(b, (tuple, list)) and type(a) == type(b):
        if len(a) != len(b):
            return False
        return s_and(*[s_eq(x, y) for x, y in zip(a, b)]) if len(a) else True
    r = a == b
    if isinstance(r, (bool, SBool)):
        return r
    return bool(r)


def truthy(x):
    """Python truth value as bool | SBool (no branching)."""
    if isinstance(x, (bool, SBool)):
        return x
    if isinstance(x, SInt):
        return mk_bool(x.z != 0)
    if isinstance(x, SStr):
        return mk_bool(z3.Length(x.z) > 0)
    if isinstance(x, Maybe):
        x = resolve_maybe(x)
        return truthy(x)
    if hasattr(x, '_truthy'):
        return x._truthy()
    if hasattr(x, '_len') and not isinstance(x, type):
        n = x._len()
        return (n != 0) if not isinstance(n, int) else n != 0
    return bool(x)


def truth(x) -> bool:
    """Python truth value, branching when symbolic."""
    t = truthy(x)
    if isinstance(t, SBool):
        return ctx().branch(t.z)
    return bool(t)


# --------------------------------------------------------------------------
# exceptions of the interpreted program


class ExcObj:
    """Instance of an exception class of the interpreted program.

    ``cls`` is either a real Python exception type (builtins) or a loader ClassInfo.
    """

    def __init__(self, cls, args=(), attrs=None):
        self.cls = cls
        self.args = tuple(args)
        self.attrs = attrs or {}
        self.cause = None

    def __repr__(self):
        n = getattr(self.cls, '__name__', None) or getattr(self.cls, 'name', '?')
        return f'{n}{self.args!r}'

    @property
    def clsname(self):
        return getattr(self.cls, '__name__', None) or getattr(self.cls, 'name', '?')


# --------------------------------------------------------------------------
# context


@dataclass
class Obligation:
    name: str
    pc: list
    goal: Any            # z3 Bool
    kind: str = 'post'   # post | pre | assert | cover
    note: str = ''
    path: tuple = ()


_STR_CACHE = {}


def has_strings(e):
    """Does the z3 term mention sequence / regex sorts?"""
    k = e.get_id()
    r = _STR_CACHE.get(k)
    if r is not None:
        return r
    todo = [e]
    seen = set()
    r = False
    while todo:
        x = todo.pop()
        i = x.get_id()
        if i in seen:
            continue
        seen.add(i)
        sk = x.sort_kind()
        if sk in (z3.Z3_SEQ_SORT, z3.Z3_RE_SORT):
            r = True
            break
        if z3.is_app(x):
            todo.extend(x.children())
            d = x.decl()
            try:
                for j in range(d.arity()):
                    if d.domain(j).kind() in (z3.Z3_SEQ_SORT, z3.Z3_RE_SORT):
                        r = True
            except Exception:
                pass
            if r:
                break
    if len(_STR_CACHE) > 200000:
        _STR_CACHE.clear()
    _STR_CACHE[k] = r
    return r


class Collected:
    """What one FOREACH loop appended to a list that existed before the loop (the COLLECT rule): for the arbitrary iteration ``k`` of
    ``seq`` (on this path), ``items`` in order -- values, or nested ``Collected`` chunks appended by inner loops.  The list is the
    concatenation of these items over k = 0 .. len(seq) - 1."""
    _pyvc_model_class = True

    def __init__(self, seq, k, items, learnt=()):
        self.seq, self.k, self.items = seq, k, items
        self.learnt = list(learnt)          # path-condition conjuncts about iteration k (re-assumed by `reassume` before stating obligations about it)

    def reassume(self):
        c = ctx()
        for z in self.learnt:
            c.assume(z)
        for x in self.items:
            if isinstance(x, Collected):
                x.reassume()

    def leaves(self):
        """[(frames, value)] with frames = ((seq, k), ...) outermost first"""
        out = []
        for x in self.items:
            if isinstance(x, Collected):
                out += [(((self.seq, self.k),) + fr, v) for fr, v in x.leaves()]
            else:
                out.append((((self.seq, self.k),), x))
        return out


class SortedView:
    """sorted(collected list, key=..., reverse=...): a permutation of the collected elements, ascending (descending) by key, ties in
    the original order (PY-SORTED).  ``keys`` = the key of every generic element, parallel to ``collected_leaves(source)``."""
    _pyvc_model_class = True

    def __init__(self, source, keys, reverse, has_key):
        self.source, self.keys, self.reverse, self.has_key = source, keys, reverse, has_key


class ForeachFrame:
    def __init__(self, start_clock):
        self.start_clock = start_clock
        self.collected = {}         # id(list) -> (list, [items])

    def collect(self, lst, item):
        if lst._coll is None:
            lst._coll = []
        self.collected.setdefault(id(lst), (lst, []))[1].append(item)


def _clock():
    return CTX.clock if CTX is not None else 0


def foreach_guard(born, what):
    """FOREACH frame condition: the body of a loop decided at one arbitrary iteration must not modify state that outlives the iteration."""
    c = CTX
    if c is not None and c.foreach_stack and born < c.foreach_stack[-1].start_clock:
        raise Unsupported(f'{what} inside a loop over a sequence of symbolic length (state from outside the loop: needs an invariant)')


class TList(list):
    """python list created by the code under contract: knows when it was created and whether a FOREACH loop appended to it"""
    __slots__ = ('_born', '_coll')

    def __init__(self, *a):
        list.__init__(self, *a)
        self._born = _clock()
        self._coll = None

    def _r(self):
        if self._coll is not None:
            raise Unsupported('use of a list that a loop over a symbolic sequence appended to (only sorted() is modelled)')

    def _w(self, op):
        self._r()
        foreach_guard(self._born, f'list.{op}')

    def append(self, x):
        c = CTX
        if c is not None and c.foreach_stack and self._born < c.foreach_stack[-1].start_clock:
            c.foreach_stack[-1].collect(self, x)
            return
        self._r()
        list.append(self, x)

    def __iter__(self):
        self._r()
        return list.__iter__(self)

    def __len__(self):
        self._r()
        return list.__len__(self)

    def __getitem__(self, i):
        self._r()
        r = list.__getitem__(self, i)
        return TList(r) if isinstance(i, slice) else r

    def __contains__(self, x):
        self._r()
        return list.__contains__(self, x)

    def __eq__(self, o):
        self._r()
        return list.__eq__(self, o)

    def __ne__(self, o):
        self._r()
        return list.__ne__(self, o)

    __hash__ = None

    def __add__(self, o):
        self._r()
        if isinstance(o, TList):
            o._r()
        r = list.__add__(self, o)
        return TList(r) if r is not NotImplemented else r

    def __radd__(self, o):
        self._r()
        return TList(list(o) + list.__getitem__(self, slice(None)))

    def __mul__(self, n):
        self._r()
        return TList(list.__mul__(self, n))

    __rmul__ = __mul__

    def __reversed__(self):
        self._r()
        return list.__reversed__(self)

    def index(self, *a):
        self._r()
        return list.index(self, *a)

    def count(self, x):
        self._r()
        return list.count(self, x)

    def copy(self):
        self._r()
        return TList(list.copy(self))

    def extend(self, it):
        self._w('extend')
        list.extend(self, it)

    def insert(self, i, x):
        self._w('insert')
        list.insert(self, i, x)

    def pop(self, *a):
        self._w('pop')
        return list.pop(self, *a)

    def remove(self, x):
        self._w('remove')
        list.remove(self, x)

    def clear(self):
        self._w('clear')
        list.clear(self)

    def sort(self, **kw):
        self._w('sort')
        list.sort(self, **kw)

    def reverse(self):
        self._w('reverse')
        list.reverse(self)

    def __setitem__(self, i, v):
        self._w('__setitem__')
        list.__setitem__(self, i, v)

    def __delitem__(self, i):
        self._w('__delitem__')
        list.__delitem__(self, i)

    def __iadd__(self, o):
        self._w('+=')
        list.extend(self, o)
        return self

    def __imul__(self, n):
        self._w('*=')
        return list.__imul__(self, n)


class TDict(dict):
    """python dict created by the code under contract (creation time for the FOREACH frame condition)"""
    __slots__ = ('_born',)

    def __init__(self, *a, **kw):
        dict.__init__(self, *a, **kw)
        self._born = _clock()

    def _w(self, op):
        foreach_guard(self._born, f'dict.{op}')

    def __setitem__(self, k, v):
        self._w('__setitem__')
        dict.__setitem__(self, k, v)

    def __delitem__(self, k):
        self._w('__delitem__')
        dict.__delitem__(self, k)

    def update(self, *a, **kw):
        self._w('update')
        dict.update(self, *a, **kw)

    def pop(self, *a):
        self._w('pop')
        return dict.pop(self, *a)

    def popitem(self):
        self._w('popitem')
        return dict.popitem(self)

    def setdefault(self, k, d=None):
        if k not in self:
            self._w('setdefault')
        return dict.setdefault(self, k, d)

    def clear(self):
        self._w('clear')
        dict.clear(self)

    def copy(self):
        return TDict(dict.copy(self))

    def __ior__(self, o):
        self._w('|=')
        dict.update(self, o)
        return self


class TSet(set):
    """python set created by the code under contract (creation time for the FOREACH frame condition)"""
    __slots__ = ('_born',)

    def __init__(self, *a):
        set.__init__(self, *a)
        self._born = _clock()

    def _w(self, op):
        foreach_guard(self._born, f'set.{op}')

    def add(self, x):
        self._w('add')
        set.add(self, x)

    def update(self, *a):
        self._w('update')
        set.update(self, *a)

    def discard(self, x):
        self._w('discard')
        set.discard(self, x)

    def remove(self, x):
        self._w('remove')
        set.remove(self, x)

    def pop(self):
        self._w('pop')
        return set.pop(self)

    def clear(self):
        self._w('clear')
        set.clear(self)

    def __ior__(self, o):
        self._w('|=')
        set.update(self, o)
        return self

    def __iand__(self, o):
        self._w('&=')
        set.intersection_update(self, o)
        return self

    def __isub__(self, o):
        self._w('-=')
        set.difference_update(self, o)
        return self

    def __ixor__(self, o):
        self._w('^=')
        set.symmetric_difference_update(self, o)
        return self

    def intersection_update(self, *a):
        self._w('intersection_update')
        set.intersection_update(self, *a)

    def difference_update(self, *a):
        self._w('difference_update')
        set.difference_update(self, *a)

    def symmetric_difference_update(self, o):
        self._w('symmetric_difference_update')
        set.symmetric_difference_update(self, o)

    def copy(self):
        return TSet(set.copy(self))


def collected_chunks(lst):
    """the chunks FOREACH loops appended to ``lst`` ([] for an ordinary list), and its concrete prefix"""
    if isinstance(lst, TList) and lst._coll is not None:
        return list(lst._coll), list.__getitem__(lst, slice(None))
    return [], list(lst)


class Ctx:
    def __init__(self, prefix=(), check_feasible=True, rlimit=20_000_000):
        self.clock = 0                   # allocation clock: advanced at every FOREACH frame
        self.foreach_stack = []
        self.prefix = list(prefix)
        self.trail: list[bool] = []
        self.free: list[bool] = []       # was decision i a free choice?
        self.pc: list = []
        self.events: list = []
        self.obligations: list[Obligation] = []
        self.counter = itertools.count()
        self.solver = z3.Solver()
        self.solver.set('rlimit', rlimit)
        # a wall-clock bound as well: some feasibility queries ignore the resource limit for minutes. "unknown" counts as feasible
        # (both branches are explored; instances on infeasible paths are dropped again before discharging), so this is sound.
        self.solver.set('timeout', int(os.environ.get('PYVC_FEASIBLE_TIMEOUT_MS', '10000')))
        self.check_feasible = check_feasible
        self.names: dict[str, int] = {}
        self.notes: list[str] = []
        self.assumptions_used: set[str] = set()
        self.lib_used: set[str] = set()
        self.fuc: dict = {}              # functions under contract touched: key -> info
        self.uses_strings = False
        self.string_timeout_ms = 8000

    # fresh symbols ---------------------------------------------------------
    def _name(self, base):
        n = self.names.get(base, 0)
        self.names[base] = n + 1
        return base if n == 0 else f'{base}!{n}'

    def fresh_int(self, base='i'):
        return SInt(z3.Int(self._name(base)))

    def fresh_bool(self, base='b'):
        return SBool(z3.Bool(self._name(base)))

    def fresh_real(self, base='r'):
        return SReal(z3.Real(self._name(base)))

    def fresh_str(self, base='s'):
        self.uses_strings = True
        return SStr(z3.String(self._name(base)))

    def fresh_val(self, base='v', sort=VSort):
        return SVal(z3.Const(self._name(base), sort))

    def fresh_fn(self, base, *sorts):
        return z3.Function(self._name(base), *sorts)

    # path condition ---------------------------------------------------------
    def assume(self, cond, why=''):
        z = zbool(cond)
        z = _simp(z)
        if z3.is_true(z):
            return
        self.pc.append(z)
        self._solver_add(z)
        if z3.is_false(z):
            raise PathAbort()

    def _solver_add(self, z):
        if has_strings(z):
            self.uses_strings = True
            return
        self.solver.add(z)

    def feasible(self, extra=None):
        if self.uses_strings and extra is not None and not has_strings(extra):
            # arithmetic condition: decide it against the arithmetic part of the path condition only
            # (dropping conjuncts can only make more paths look feasible -- sound; obligations use the full pc)
            self.solver.push()
            try:
                self.solver.add(extra)
                r = self.solver.check()
            finally:
                self.solver.pop()
            return r != z3.unsat
        if self.uses_strings:
            # the incremental core of z3 is unreliable on sequence constraints: fresh solver, wall-clock bound
            s = z3.Solver()
            s.set('timeout', self.string_timeout_ms)
            for p in self.pc:
                s.add(p)
            if extra is not None:
                s.add(extra)
            import os
            if os.environ.get('PYVC_TRACE'):
                t0 = time.time()
                r = s.check()
                print('feasible?', r, round(time.time() - t0, 2), str(extra)[:80].replace('\n', ' '), flush=True)
                return r != z3.unsat
            return s.check() != z3.unsat
        self.solver.push()
        try:
            if extra is not None:
                self.solver.add(extra)
            r = self.solver.check()
        finally:
            self.solver.pop()
        return r != z3.unsat

    def branch(self, cond) -> bool:
        cond = _simp(cond)
        if z3.is_true(cond):
            return True
        if z3.is_false(cond):
            return False
        i = len(self.trail)
        if i < len(self.prefix):
            choice = self.prefix[i]
            free = True
            # replayed decision; feasibility was established when first taken
            can_t = can_f = True
        else:
            if self.check_feasible:
                can_t = self.feasible(cond)
                can_f = self.feasible(z3.Not(cond))
            else:
                can_t = can_f = True
            if not can_t and not can_f:
                raise PathAbort()
            if can_t and can_f:
                choice, free = True, True
            else:
                # forced: not a decision point -- but recorded in the trail (free=False), so that a replay, which cannot tell forced
                # from free branches without asking the solver again, consumes the same sequence of branch outcomes
                c = can_t
                self.trail.append(c)
                self.free.append(False)
                if len(self.trail) > 200000:
                    raise TooManyPaths('more than 200000 branches on one path')
                self.pc.append(cond if c else z3.Not(cond))
                self._solver_add(self.pc[-1])
                return c
        self.trail.append(choice)
        self.free.append(free)
        if len(self.trail) > 200000:
            raise TooManyPaths('more than 200000 branches on one path')
        z = cond if choice else z3.Not(cond)
        self.pc.append(z)
        self._solver_add(z)
        return choice

    # obligations ------------------------------------------------------------
    def check(self, name, goal, kind='post', note=''):
        """Record the obligation  pc => goal  for this path."""
        z = zbool(goal) if not z3.is_expr(goal) else goal
        self.obligations.append(Obligation(name, list(self.pc), z, kind, note, tuple(self.trail)))

    def fail(self, name, note='', kind='post'):
        self.check(name, z3.BoolVal(False), kind=kind, note=note)

    def event(self, *ev):
        self.events.append(ev)


@dataclass
class PathResult:
    decisions: tuple
    pc: list
    outcome: str           # 'return' | 'raise' | 'abort'
    value: Any
    events: list
    obligations: list


@dataclass
class ExploreResult:
    paths: list = field(default_factory=list)
    obligations: list = field(default_factory=list)
    unsupported: list = field(default_factory=list)
    lib_used: set = field(default_factory=set)
    assumptions_used: set = field(default_factory=set)
    fuc: dict = field(default_factory=dict)
    wall: float = 0.0


def explore(scenario: Callable[[Ctx], Any], max_paths=20000, rlimit=20_000_000) -> ExploreResult:
    """Run ``scenario(ctx)`` once per feasible decision sequence."""
    global CTX
    res = ExploreResult()
    t0 = time.time()
    stack = [()]
    while stack:
        prefix = stack.pop()
        c = Ctx(prefix, rlimit=rlimit)
        CTX = c
        outcome, value = 'return', None
        try:
            value = scenario(c)
        except PathAbort:
            outcome = 'abort'
        except PathEnd:
            outcome = 'end'
        except PyRaise as e:
            # an exception of the executed code that no obligation of the scenario caught (expect_ok / outcome): the obligations that would
            # have followed on this path were not stated - undecided and visible, never silently fewer obligations
            outcome, value = 'raise', e.exc
            res.unsupported.append(f'Unsupported: the scenario was ended by an exception outside any obligation: {e.exc!r}'[:300])
        except Unsupported as e:
            res.unsupported.append(f'{type(e).__name__}: {e}')
            outcome = 'unsupported'
        except RecursionError:
            # array expressions nested deeper than the executor can evaluate: undecided, not a crash and not a verdict
            res.unsupported.append('Unsupported: array expression nested too deeply for the executor (recursion limit)')
            outcome = 'unsupported'
        finally:
            CTX = None
        res.lib_used |= c.lib_used
        res.assumptions_used |= c.assumptions_used
        res.fuc.update(c.fuc)
        if outcome != 'abort':
            res.paths.append(PathResult(tuple(c.trail), list(c.pc), outcome, value, c.events, c.obligations))
            res.obligations.extend(c.obligations)
        n0 = len(prefix)
        for i in range(len(c.trail) - 1, n0 - 1, -1):
            if c.free[i] and c.trail[i] is True:
                stack.append(tuple(c.trail[:i]) + (False,))
        if len(res.paths) > max_paths:
            res.unsupported.append(f'TooManyPaths: more than {max_paths} paths')
            break
    res.wall = time.time() - t0
    return res
