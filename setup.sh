#!/bin/sh
# MANIFEST.setup_cmd: verify the tools the checks need are present; nothing is fetched.
set -e
cd "$(dirname "$0")"
python3-vt -c "import z3, cvc5, numpy" 
/venv/bin/python -c "import emsarray, numpy, xarray, shapely"
python3-vt -m compileall -q pyvc contracts props >/dev/null 2>&1 || true
mkdir -p evidence replays
echo "setup ok"
