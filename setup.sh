#!/bin/sh
# MANIFEST.setup_cmd: verify the tools the checks need are present; nothing is fetched.
set -e
cd "$(dirname "$0")"
python3-vt -c "import z3, cvc5, numpy" 
/venv/bin/python -c "import emsarray, numpy, xarray, shapely"
python3-vt -m compileall -q pyvc contracts props >/dev/null 2>&1 || true
mkdir -p evidence replays
# executor-vs-CPython self-check: the verifier and its library models must agree with the real code on concrete inputs
python3-vt tools/selfcheck.py > evidence/.selfcheck.log 2>&1 || { cat evidence/.selfcheck.log; echo 'setup failed: executor disagrees with CPython'; exit 3; }
tail -1 evidence/.selfcheck.log
echo "setup ok"
