"""C16 -- the geometry cache key depends on the geometry and on nothing else.

Under contract (real bodies): operations.cache.{hash_int, hash_string, hash_attributes, make_cache_key},
Convention.hash_geometry, get_all_geometry_names of CFGrid / ArakawaC / UGrid (and the topology helpers they read).
The hash object is a *trace* of chunks (hash.update(b) appends b); the key is H(concatenation) with BLAKE2b assumed
collision free (A-HASH).
"""
from __future__ import annotations

import z3

from contracts import inputs
from pyvc import core
from pyvc.api import (PathEnd, XDataset, add_var, attr, call, cls, expect_ok, expect_raise, fn, method, mk_bool, new_interp,
                      outcome, s_and, s_eq, s_not, s_or, sym_array, sym_size, zint)
from pyvc.core import SInt
from pyvc.lib.xarray_ import Variable
from pyvc.lib import numpy_ as np
from pyvc.lib.floats import SFloat
from pyvc.lib.stdlib import BytesOf, HashModel
from props.C11 import CLASSES, _accessors, _entry_points

PROPERTY = 'C16'

CONFIGS = [
    ('cf1d', inputs.cf1d, {}, ['lon', 'lat']),
    ('cf1d+bounds', inputs.cf1d, {'bounds': True}, ['lon', 'lat', 'lon_bnds', 'lat_bnds']),
    ('cf1d+bounds as coords', inputs.cf1d, {'bounds': 'coords'}, ['lon', 'lat', 'lon_bnds', 'lat_bnds']),
    ('cf2d', inputs.cf2d, {}, ['lon', 'lat']),
    ('cf2d+bounds', inputs.cf2d, {'bounds': True}, ['lon', 'lat', 'lon_bnds', 'lat_bnds']),
    ('shoc simple', inputs.shoc_simple, {'bounds': True}, ['longitude', 'latitude', 'lon_bnds', 'lat_bnds']),
    ('shoc standard', inputs.shoc_standard, {}, ['x_centre', 'y_centre', 'x_grid', 'y_grid', 'x_left', 'y_left', 'x_back', 'y_back']),
    ('ugrid', inputs.ugrid, {}, ['mesh', 'face_node', 'node_x', 'node_y']),
    ('ugrid+edges', inputs.ugrid, {'edges': 'both', 'tables': ('face_edge', 'face_face', 'edge_face'), 'face_coords': True, 'edge_coords': True},
     ['mesh', 'face_node', 'node_x', 'node_y', 'face_edge', 'face_face', 'edge_node', 'edge_face', 'edge_x', 'edge_y', 'face_x', 'face_y']),
    ('ugrid edge_face only', inputs.ugrid, {'edges': 'dimension', 'tables': ('edge_face',)},
     ['mesh', 'face_node', 'node_x', 'node_y', 'edge_face']),
    ('ugrid edge_node only', inputs.ugrid, {'edges': 'edge_node'}, ['mesh', 'face_node', 'node_x', 'node_y', 'edge_node']),
    # edge coordinate variables named by a mesh that defines no edge dimension: they are named in the geometry, they are part of the key
    ('ugrid edge coordinates without an edge dimension', inputs.ugrid, {'edges': 'none', 'edge_coords': 'without-edge-dimension'},
     ['mesh', 'face_node', 'node_x', 'node_y', 'edge_x', 'edge_y']),
]
EDITS = ['value', 'value-narrow-encoding', 'dtype', 'reshape', 'rename', 'attr-add', 'attr-add-underscore', 'attr-change', 'attr-remove', 'encoding-dtype']


def scenarios(tier):
    out = []
    for ci, cfg in enumerate(CONFIGS):
        out.append({'name': f'trace[{cfg[0]}]', 'fn': 'scn_trace', 'kwargs': {'ci': ci}})
        out.append({'name': f'frame[{cfg[0]}]', 'fn': 'scn_frame', 'kwargs': {'ci': ci}})
        for gi in range(len(cfg[3])):
            for edit in EDITS:
                out.append({'name': f'sensitive[{cfg[0]}, {cfg[3][gi]}, {edit}]', 'fn': 'scn_sensitive',
                            'kwargs': {'ci': ci, 'gi': gi, 'edit': edit}})
    out.append({'name': 'convention class is part of the key', 'fn': 'scn_class', 'kwargs': {}})
    out.append({'name': 'hash_int', 'fn': 'scn_hash_int', 'kwargs': {}})
    out.append({'name': 'hash_string', 'fn': 'scn_hash_string', 'kwargs': {}})
    for ci in range(len(CONFIGS)):
        out.append({'name': f'default key after an in-place edit of the geometry[{CONFIGS[ci][0]}]', 'fn': 'scn_history', 'kwargs': {'ci': ci}})
    out.append({'name': 'hash_attributes', 'fn': 'scn_hash_attributes', 'kwargs': {}})
    out.append({'name': 'marshal: attribute chunk is a function of the attribute values', 'fn': 'scn_marshal', 'kwargs': {}})
    return out


def _setup(c, ci):
    it = new_interp()
    name, builder, kw, G = CONFIGS[ci]
    kw = dict(kw)
    ds = builder(c, **kw)
    sizes = ds._sizes()
    first = list(sizes)[0]
    nt = sym_size(c, 'nt')
    add_var(ds, 'temp', ('time', first), sym_array(c, 'temp', (nt, sizes[first]), 'V'), {'units': 'C'})
    ds.attrs['history'] = 'made by a model'
    # coordinates that are NOT geometry: a scalar coordinate (left behind by isel(time=k)) and an auxiliary coordinate on a grid dimension
    add_var(ds, 'time_of_snapshot', (), sym_array(c, 'tsnap', (1,), 'V').reshape(()) if False else np.NDArray((), lambda i: sym_array(c, 'tsnap', (1,), 'V').fn((0,)), np.OPAQUE),
            {'long_name': 'valid time'}, coord=True)
    add_var(ds, 'cell_label', (first,), sym_array(c, 'label', (sizes[first],), 'V'), {'long_name': 'label'}, coord=True)
    # A-INT32-SIZE: every geometry variable has fewer than 2^31 elements (hash_int raises OverflowError otherwise,
    # by design -- that guard is its own obligation below)
    for g in G:
        size = 1
        for n in ds._vars[g].arr.shape:
            size = size * n
            c.assume(n < 2 ** 15)
        c.assume(size < 2 ** 31)
    c.assumptions_used.add('A-INT32-SIZE: geometry variables have fewer than 2^31 elements / extents below 2^15')
    c.entry_points = _entry_points(it)
    _accessors(c, it)
    return it, ds, G


def _key(c, it, ds):
    """run make_cache_key on a trace-recording hash object; returns the chunk list"""
    mk = fn(it, 'emsarray.operations.cache', 'make_cache_key')
    h = HashModel()
    n0 = len(c.events)
    expect_ok(c, 'make_cache_key returns', lambda: call(it, mk, ds, h))
    taint = [e for e in c.events[n0:] if e[0] == 'taint']
    return h.chunks, taint


def _skolem_index(c, shape, tag):
    idx = []
    for k, n in enumerate(shape):
        i = c.fresh_int(f'{tag}_{k}')
        c.assume(i >= 0)
        c.assume(i < n)
        idx.append(i)
    return tuple(idx)


def _elem_eq(a, b):
    if isinstance(a, SFloat) or isinstance(b, SFloat):
        from pyvc.lib.floats import to_sfloat
        return to_sfloat(a).same_bits(b)
    return s_eq(a, b)


def chunk_equal(c, a, b, tag='q'):
    """bool | SBool: the two chunks are the same bytes (for every content: arrays compared at a Skolem index)"""
    if isinstance(a, (bytes, str)) or isinstance(b, (bytes, str)):
        return isinstance(a, type(b)) and a == b
    if not (isinstance(a, BytesOf) and isinstance(b, BytesOf)):
        return False
    if a.what != b.what:
        return False
    if a.what[0] == 'int':
        return s_eq(a.payload, b.payload)
    if a.what[0] == 'array':
        x, y = a.payload, b.payload
        if len(x.shape) != len(y.shape):
            return False
        same_shape = s_and(*[s_eq(p, q) for p, q in zip(x.shape, y.shape)]) if x.shape else True
        idx = _skolem_index(c, x.shape, tag)
        return s_and(same_shape, _elem_eq(x.fn(idx), y.fn(idx)))
    if a.what[0] == 'marshal':
        return s_and(a.payload == b.payload, s_eq(a.tag, b.tag) if a.tag is not None and b.tag is not None else True)
    return False


def expected_trace(ds, G, conv_cls):
    """Specification of the stream: per geometry variable name, dtype name, size, shape, bytes, attributes; then the
    convention class module + name and the package version, every variable-length chunk preceded by its length."""
    out = []
    for g in G:
        v = ds._vars[g]
        dt = v.encoding.get('dtype', v.arr.dtype)
        dtn = dt.name if hasattr(dt, 'name') else str(dt)
        size = 1
        for n in v.arr.shape:
            size = size * n
        out += [('len-of', str(g)), ('utf8', str(g)), ('len-of', dtn), ('utf8', dtn), ('int', size),
                ('shape', v.arr.shape), ('data', v.arr), ('int', 4), ('int', len(v.attrs)), ('len-of-marshal', v.attrs),
                ('marshal', v.attrs)]
    out += [('len-of', conv_cls.module.name), ('utf8', conv_cls.module.name), ('len-of', conv_cls.name), ('utf8', conv_cls.name),
            ('len-of', '0.0.0+model'), ('utf8', '0.0.0+model')]
    return out


def scn_trace(c, ci):
    it, ds, G = _setup(c, ci)
    conv = expect_ok(c, 'the dataset is recognised', lambda: it.getattr(ds, 'ems'))
    names = expect_ok(c, 'get_all_geometry_names returns', lambda: method(it, conv, 'get_all_geometry_names'))
    c.check('the geometry inventory is exactly the geometry variables of the dataset', set(names) == set(G) and len(names) == len(G),
            note=f'got {names}')
    chunks, taint = _key(c, it, ds)
    c.check('no hash-seed / identity dependent operation on the way (set iteration, hash(), id())', not taint, note=str(taint))
    exp = expected_trace(ds, list(names), conv.cls)
    c.check('the stream has exactly the specified chunks (nothing outside the geometry inventory is hashed)', len(chunks) == len(exp),
            note=f'{len(chunks)} chunks, expected {len(exp)}')
    if len(chunks) != len(exp):
        raise PathEnd()
    marshal_len = None
    for k, (ch, ex) in enumerate(zip(chunks, exp)):
        kind = ex[0]
        if kind == 'utf8':
            c.check(f'chunk {k}: UTF-8 text of {ex[1]!r}', ch == ex[1].encode('utf-8'))
        elif kind == 'len-of':
            c.check(f'chunk {k}: int32 length prefix of {ex[1]!r}',
                    isinstance(ch, BytesOf) and ch.what == ('int', 'int32') and s_eq(ch.payload, len(ex[1])))
        elif kind == 'int':
            c.check(f'chunk {k}: int32 {("size" if not isinstance(ex[1], int) or ex[1] != 4 else "value")}',
                    isinstance(ch, BytesOf) and ch.what == ('int', 'int32') and s_eq(ch.payload, ex[1]))
        elif kind == 'shape':
            ok = isinstance(ch, BytesOf) and ch.what == ('array', 'C', 'int32') and len(ch.payload.shape) == 1 \
                and ch.payload.shape[0] == len(ex[1])
            c.check(f'chunk {k}: the shape as int32 values', ok and s_and(*[s_eq(ch.payload.fn((j,)), n) for j, n in enumerate(ex[1])])
                    if ex[1] else ok)
        elif kind == 'data':
            ok = isinstance(ch, BytesOf) and ch.what[0] == 'array' and ch.what[1] == 'C'
            c.check(f'chunk {k}: the raw values in C order', ok and chunk_equal(c, ch, BytesOf(ch.what, ex[1]), f'd{k}'))
        elif kind == 'len-of-marshal':
            nxt = chunks[k + 1]
            c.check(f'chunk {k}: int32 length prefix of the marshalled attributes',
                    isinstance(ch, BytesOf) and ch.what == ('int', 'int32') and isinstance(nxt, BytesOf) and s_eq(ch.payload, nxt._len()))
        elif kind == 'marshal':
            c.check(f'chunk {k}: the marshalled attribute dictionary of the variable',
                    isinstance(ch, BytesOf) and ch.what == ('marshal', 4) and ch.payload == ex[1])


def _variant(c, ds):
    """a dataset with the same geometry variables and different non-geometry content"""
    ds2 = XDataset()
    for k, v in ds._vars.items():
        if k == 'temp':
            continue
        ds2._vars[k] = v
    ds2._coord_names = set(ds._coord_names)
    ds2.attrs = dict(ds.attrs)
    ds2.attrs['history'] = 'something else'
    ds2.attrs['extra'] = 1
    sizes = ds._sizes()
    first = list(sizes)[0]
    nt2 = sym_size(c, 'nt2')
    add_var(ds2, 'temp', ('time', first), sym_array(c, 'temp2', (nt2, sizes[first]), 'V'), {'units': 'K'})
    add_var(ds2, 'salt', (first,), sym_array(c, 'salt', (sizes[first],), 'V'))
    return ds2


def scn_frame(c, ci):
    it, ds, G = _setup(c, ci)
    ds2 = _variant(c, ds)
    ch1, _ = _key(c, it, ds)
    ch2, _ = _key(c, it, ds2)
    c.check('same number of chunks whatever the data variables, time steps and global attributes', len(ch1) == len(ch2))
    if len(ch1) != len(ch2):
        raise PathEnd()
    for k, (a, b) in enumerate(zip(ch1, ch2)):
        if isinstance(a, BytesOf) and a.what[0] == 'marshal':
            # same attribute dictionary *object* on both sides: the reference state is the same too
            c.check(f'chunk {k} is identical for datasets that differ only outside the geometry', a.payload is b.payload or a.payload == b.payload)
        else:
            c.check(f'chunk {k} is identical for datasets that differ only outside the geometry', chunk_equal(c, a, b, f'f{k}'))


def _edited(c, ds, G, gi, edit):
    """-> (edited dataset, description) or None when the edit does not apply"""
    g = G[gi]
    ds2 = XDataset()
    ds2._coord_names = set(ds._coord_names)
    ds2.attrs = dict(ds.attrs)
    from pyvc.api import Variable
    for k, v in ds._vars.items():
        ds2._vars[k] = v
    v = ds._vars[g]
    if edit == 'value':
        if not v.arr.shape:
            return None
        idx = _skolem_index(c, v.arr.shape, 'edit')
        old = v.arr
        new_val = sym_array(c, 'newval', (), 'V' if old.dtype.kind == 'V' else ('int' if old.dtype.kind == 'i' else 'real')).fn(())
        ov = old.fn(idx)
        # the new value differs from the old one
        if isinstance(ov, SFloat):
            c.assume(s_not(ov.same_bits(new_val)))
        else:
            c.assume(s_not(s_eq(ov, new_val)))
        arr = np.NDArray(old.shape, lambda i: core.s_ite(s_and(*[s_eq(a, b) for a, b in zip(i, idx)]), new_val, old.fn(i))
                         if not isinstance(ov, SFloat) else _ite_float(s_and(*[s_eq(a, b) for a, b in zip(i, idx)]), new_val, old.fn(i)), old.dtype)
        ds2._vars[g] = Variable(v.dims, arr, v.attrs, v.encoding)
        return ds2, ('value', idx)
    if edit == 'value-narrow-encoding':
        # the encoding remembers a narrower type than the values held (float32 on disk, float64 in memory): the key follows the values held
        if not v.arr.shape or v.arr.dtype.name != 'float64':
            return None
        idx = _skolem_index(c, v.arr.shape, 'edit')
        old = v.arr
        new_val = sym_array(c, 'newval', (), 'real').fn(())
        ov = old.fn(idx)
        c.assume(s_not(ov.same_bits(new_val)) if isinstance(ov, SFloat) else s_not(s_eq(ov, new_val)))
        arr = np.NDArray(old.shape, lambda i: _ite_float(s_and(*[s_eq(a, b) for a, b in zip(i, idx)]), new_val, old.fn(i)), old.dtype)
        enc = dict(v.encoding)
        enc['dtype'] = np.FLOAT32
        ds._vars[g] = Variable(v.dims, v.arr, v.attrs, enc)
        ds2._vars[g] = Variable(v.dims, arr, v.attrs, dict(enc))
        return ds2, ('value', idx)
    if edit == 'dtype':
        newdt = np.FLOAT32 if v.arr.dtype.name != 'float32' else np.FLOAT64
        arr = np.NDArray(v.arr.shape, v.arr.fn, newdt)
        ds2._vars[g] = Variable(v.dims, arr, v.attrs, dict(v.encoding))
        return ds2, ('dtype',)
    if edit == 'encoding-dtype':
        enc = dict(v.encoding)
        enc['dtype'] = np.INT64 if v.arr.dtype.name != 'int64' else np.INT32
        ds2._vars[g] = Variable(v.dims, v.arr, v.attrs, enc)
        return ds2, ('dtype',)
    if edit == 'reshape':
        if len(v.arr.shape) != 2:
            return None
        a, b = v.arr.shape
        arr = v.arr.reshape((b, a))
        # a genuinely different shape
        c.assume(s_not(s_eq(a, b)))
        ds2._vars[g] = Variable(tuple(reversed(v.dims)) if False else v.dims, arr, v.attrs, v.encoding)
        return ds2, ('reshape',)
    if edit == 'rename':
        return None      # handled through the inventory: a renamed variable changes the name chunk (see scn_trace)
    if edit in ('attr-add', 'attr-add-underscore'):
        attrs = dict(v.attrs)
        attrs['verif_extra' if edit == 'attr-add' else '_FillValue'] = 'x' if edit == 'attr-add' else -999
        ds2._vars[g] = Variable(v.dims, v.arr, attrs, v.encoding)
        return ds2, ('attrs',)
    if edit == 'attr-change':
        if not v.attrs:
            return None
        attrs = dict(v.attrs)
        k0 = sorted(attrs, key=str)[-1]
        if k0 in ('bounds', 'cf_role', 'units', 'standard_name', 'axis', 'start_index', 'topology_dimension', 'node_coordinates',
                  'face_node_connectivity', 'face_dimension', 'edge_dimension', 'edge_node_connectivity', 'face_coordinates',
                  'edge_coordinates', 'face_edge_connectivity', 'face_face_connectivity', 'edge_face_connectivity'):
            attrs['long_name'] = 'changed'
            base = dict(v.attrs)
            base['long_name'] = 'original'
            ds._vars[g] = Variable(v.dims, v.arr, base, v.encoding)
            ds2._vars[g] = Variable(v.dims, v.arr, attrs, v.encoding)
            return ds2, ('attrs',)
        attrs[k0] = 'changed'
        ds2._vars[g] = Variable(v.dims, v.arr, attrs, v.encoding)
        return ds2, ('attrs',)
    if edit == 'attr-remove':
        base = dict(v.attrs)
        base['comment'] = 'to be removed'
        ds._vars[g] = Variable(v.dims, v.arr, base, v.encoding)
        ds2._vars[g] = Variable(v.dims, v.arr, dict(v.attrs), v.encoding)
        return ds2, ('attrs',)
    raise ValueError(edit)


def _ite_float(cond, a, b):
    from pyvc.lib.floats import to_sfloat
    a, b = to_sfloat(a), to_sfloat(b)
    return SFloat(core.s_ite(cond, a.kind, b.kind), core.s_ite(cond, a.val, b.val))


def scn_sensitive(c, ci, gi, edit):
    it, ds, G = _setup(c, ci)
    r = _edited(c, ds, G, gi, edit)
    if r is None:
        c.check('(edit not applicable to this variable)', True)
        return
    ds2, what = r
    ch1, _ = _key(c, it, ds)
    ch2, _ = _key(c, it, ds2)
    # the streams differ: first position where the chunk lists disagree, all earlier chunks being equal frames the difference
    if len(ch1) != len(ch2):
        c.check('a single edit of a geometry variable changes the stream', True)
        return
    differs = []
    for k, (a, b) in enumerate(zip(ch1, ch2)):
        if isinstance(a, BytesOf) and a.what[0] == 'array' and what[0] == 'value' and isinstance(b, BytesOf) and b.what == a.what \
                and len(a.payload.shape) == len(what[1]) and a.payload.shape and not a.what[2] == 'int32':
            # differ at the edited index
            x, y = a.payload.fn(what[1]), b.payload.fn(what[1])
            d = s_not(_elem_eq(x, y))
        elif isinstance(a, BytesOf) and isinstance(b, BytesOf) and a.what[0] == 'marshal' and b.what[0] == 'marshal':
            d = a.payload != b.payload        # PY-MARSHAL is injective on values
        else:
            d = s_not(chunk_equal(c, a, b, f's{k}'))
        differs.append(d)
    c.check(f'a single {edit} edit of geometry variable {G[gi]!r} changes at least one chunk of the stream (hence the key, A-HASH)',
            s_or(*differs) if differs else False)


def scn_history(c, ci):
    """The key is a function of the geometry as it is NOW: asking twice for the default key of one dataset object, with an in-place edit
    of a geometry variable in between, gives the key of the edited geometry (nothing is remembered from the first call)."""
    it, ds, G = _setup(c, ci)
    mk = fn(it, 'emsarray.operations.cache', 'make_cache_key')
    k1 = expect_ok(c, 'make_cache_key(dataset) returns', lambda: call(it, mk, ds))
    again = expect_ok(c, 'a second call on the unchanged dataset returns', lambda: call(it, mk, ds))
    c.check('the default key is a digest of a byte stream', hasattr(k1, 'chunks') and hasattr(again, 'chunks'))
    if not (hasattr(k1, 'chunks') and hasattr(again, 'chunks')):
        raise PathEnd()
    c.check('asking again without any change feeds the same stream', len(k1.chunks) == len(again.chunks))
    g = G[0]
    v = ds._vars[g]
    ds._vars[g] = Variable(v.dims, sym_array(c, 'edited_' + str(g), v.arr.shape, 'V', v.arr.dtype), v.attrs, v.encoding)      # dataset[g] = ...: same Dataset object
    k2 = expect_ok(c, 'make_cache_key(dataset) after the edit returns', lambda: call(it, mk, ds))
    want, _ = _key(c, it, ds)
    c.check('after the edit the key is computed afresh', hasattr(k2, 'chunks') and k2 is not k1 and len(k2.chunks) == len(want))
    if not hasattr(k2, 'chunks') or len(k2.chunks) != len(want):
        raise PathEnd()
    for k, (a, b) in enumerate(zip(k2.chunks, want)):
        if isinstance(a, BytesOf) and a.what[0] == 'marshal':
            c.check(f'chunk {k} of the second key is that of the current geometry', a.payload is b.payload or a.payload == b.payload)
        else:
            c.check(f'chunk {k} of the second key is that of the current geometry', chunk_equal(c, a, b, f'h{k}'))


def scn_class(c):
    """same geometry content, different convention class -> different stream"""
    it = new_interp()
    ds = inputs.cf2d(c)
    c.assume(ds.info['ny'] < 2 ** 15)
    c.assume(ds.info['nx'] < 2 ** 15)
    c.entry_points = _entry_points(it)
    _accessors(c, it)
    ch1, _ = _key(c, it, ds)
    ds2 = ds.copy()
    ds2._vars = dict(ds._vars)
    SubSrc = 'class Other(CFGrid2D):\n    pass\n'
    env = it.run_snippet('emsarray.conventions.grid', SubSrc, {})
    conv = it.instantiate(env['Other'], [ds2], {})
    method(it, conv, 'bind')
    ch2, _ = _key(c, it, ds2)
    c.check('same geometry hashed', len(ch1) == len(ch2))
    c.check('the convention class name is part of the stream', ch1[-3] != ch2[-3] and ch2[-3] == b'Other')


def scn_hash_int(c):
    it = new_interp()
    f = fn(it, 'emsarray.operations.cache', 'hash_int')
    v = c.fresh_int('v')
    h = HashModel()
    kind, val = outcome(lambda: call(it, f, h, v))
    inr = mk_bool(z3.And(v.z >= -2 ** 31, v.z < 2 ** 31))
    if kind == 'return':
        c.check('hash_int returns only for values that fit in int32', inr)
        c.check('hash_int emits exactly one 4-byte chunk holding the value',
                len(h.chunks) == 1 and isinstance(h.chunks[0], BytesOf) and h.chunks[0].what == ('int', 'int32') and s_eq(h.chunks[0].payload, v))
    else:
        from pyvc.interp import exc_matches
        c.check('out-of-range values raise OverflowError and emit nothing', s_and(s_not(inr), exc_matches(val, OverflowError), not h.chunks))


def scn_hash_string(c):
    it = new_interp()
    f = fn(it, 'emsarray.operations.cache', 'hash_string')
    # names that differ only in their Unicode composition are different names (xarray keeps them apart): the bytes are those of the string as given
    for s in ['', 'lat', 'x_centre', 'Mesh2_face_nodes', 'température', 'tempe\u0301rature', 'lon_\u212b', 'lon_\u00c5', '\ufb01eld', 'a' * 300]:
        h = HashModel()
        expect_ok(c, 'hash_string returns', lambda: call(it, f, h, s))
        c.check(f'hash_string({s[:12]!r}..): length prefix then UTF-8 bytes',
                len(h.chunks) == 2 and isinstance(h.chunks[0], BytesOf) and h.chunks[0].payload == len(s) and h.chunks[1] == s.encode('utf-8'))


def scn_hash_attributes(c):
    it = new_interp()
    f = fn(it, 'emsarray.operations.cache', 'hash_attributes')
    for attrs in [{}, {'units': 'degrees_north'}, {'units': 'm', 'bounds': 'b', 'n': 3}, {'_FillValue': -999, 'start_index': 1}, {'_CoordinateAxisType': 'Lat'}]:
        h = HashModel()
        expect_ok(c, 'hash_attributes returns', lambda: call(it, f, h, attrs))
        ch = h.chunks
        ok = len(ch) == 4 and all(isinstance(x, BytesOf) for x in ch)
        c.check('hash_attributes: marshal version, attribute count, byte length, marshalled bytes', ok)
        if ok:
            c.check('hash_attributes: version 4 announced and used', ch[0].payload == 4 and ch[3].what == ('marshal', 4))
            c.check('hash_attributes: attribute count', ch[1].payload == len(attrs))
            c.check('hash_attributes: the marshalled bytes are length-prefixed', s_eq(ch[2].payload, ch[3]._len()))
            c.check('hash_attributes: the bytes are those of this dictionary', ch[3].payload is attrs)


def scn_marshal(c):
    """Two equal-valued attribute dictionaries must contribute the same bytes (same key in every process and however the
    attribute objects were created).  Under PY-MARSHAL this does not follow."""
    it = new_interp()
    f = fn(it, 'emsarray.operations.cache', 'hash_attributes')
    a1 = {'units': 'degrees_north', 'standard_name': 'latitude'}
    a2 = {'units': 'degrees_north', 'standard_name': 'latitude'}
    h1, h2 = HashModel(), HashModel()
    call(it, f, h1, a1)
    call(it, f, h2, a2)
    c.check('equal attribute values give the same attribute chunk (whatever the identity / reference counts of the objects)',
            chunk_equal(c, h1.chunks[3], h2.chunks[3]))


NATIVE = {'marshal': 'marshal_refcount', '': 'cache_key'}
