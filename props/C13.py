"""C13 -- depth normalisation reorients coordinates and data together, idempotently.

Function under contract: operations.depth.normalize_depth_variables (real body), utils.name_to_data_array,
check_data_array_dimensions_match.  Physical depth of level k is  d(k) = sigma * z[k],  sigma = +1 when the
coordinate is positive-down (CF: lower-cased ``positive`` attribute == 'down'), -1 when positive-up.
"""
from __future__ import annotations

import itertools

import z3

from pyvc import core
from pyvc.api import (FIN, PathEnd, SFloat, XDataArray, XDataset, add_var, call, expect_ok, fn, mk_bool, mk_int,
                      mk_real, new_interp, s_and, s_eq, s_ite, s_not, s_or, sym_array, sym_size, zint, zreal)
from pyvc.lib.numpy_ import FLOAT64, NDArray

PROPERTY = 'C13'

OPTS = [None, True, False]
ATTRS = ['down', 'up', 'DOWN', 'Up', 'absent+', 'absent-']


def scenarios(tier):
    out = []
    for attr in ATTRS:
        for dimcoord in (True, False):
            for bounds in (False, True, 'coords'):
                for p, o in itertools.product(OPTS, OPTS):
                    tag = f'positive={attr!r},{"dimension-coordinate" if dimcoord else "auxiliary"},' \
                          f'{("bounds-as-coordinate" if bounds == "coords" else "bounds") if bounds else "no-bounds"},positive_down={p},deep_to_shallow={o}'
                    out.append({'name': tag, 'fn': 'scn_normalize',
                                'kwargs': {'attr': attr, 'dimcoord': dimcoord, 'bounds': bounds, 'p': p, 'o': o}})
    # an auxiliary depth coordinate whose dimension carries its own index coordinate (layer numbers 0 .. n-1, increasing whatever the depths do)
    for attr in ('down', 'up'):
        for p, o in itertools.product(OPTS, OPTS):
            out.append({'name': f'positive={attr!r},auxiliary with layer numbers on the dimension,positive_down={p},deep_to_shallow={o}', 'fn': 'scn_normalize',
                        'kwargs': {'attr': attr, 'dimcoord': False, 'bounds': False, 'p': p, 'o': o, 'labels': True}})
    for p, o in itertools.product(OPTS, OPTS):
        out.append({'name': f'two coordinates sharing one dimension,positive_down={p},deep_to_shallow={o}',
                    'fn': 'scn_two_shared', 'kwargs': {'p': p, 'o': o}})
        out.append({'name': f'two coordinates on distinct dimensions,positive_down={p},deep_to_shallow={o}',
                    'fn': 'scn_two_distinct', 'kwargs': {'p': p, 'o': o}})
    out.append({'name': 'multidimensional depth variable is refused', 'fn': 'scn_multidim', 'kwargs': {}})
    for n in (2, 3, 4, 5):
        for p in (True, False):
            out.append({'name': f'no positive attribute, {n} levels of any signs: the guess is "down" iff more than half of the values are positive[positive_down={p}]',
                        'fn': 'scn_guess', 'kwargs': {'n': n, 'p': p}})
    for conv_name in ('CFGrid1D', 'ShocStandard', 'UGrid'):
        for p, o in ((True, None), (False, True), (None, False)):
            out.append({'name': f'dataset.ems.normalize_depth_variables hands every depth coordinate and both options to the operation[{conv_name}, positive_down={p}, deep_to_shallow={o}]',
                        'fn': 'scn_entry', 'kwargs': {'conv_name': conv_name, 'p': p, 'o': o}})
    return out


class Depth:
    """A strictly monotonic symbolic depth coordinate z[0..n-1] (n >= 2)."""

    def __init__(self, c, name, n, sign=None):
        self.c, self.n, self.sign = c, n, sign
        self.f = c.fresh_fn(name, z3.IntSort(), z3.RealSort())
        self.inc = c.fresh_bool(name + '_increasing')
        self.terms = []

    def arr(self):
        return NDArray((self.n,), lambda i: SFloat(FIN, self.z(i[0])), FLOAT64)

    def z(self, k):
        t = self.f(zint(k))
        if self.sign == '+':
            core.ctx().assume(t > 0)
        elif self.sign == '-':
            core.ctx().assume(t < 0)
        return mk_real(t)

    def instantiate(self, ks):
        """monotonicity facts between all pairs of the given index terms"""
        c = self.c
        ks = [zint(k) for k in ks]
        for a, b in itertools.combinations(ks, 2):
            for x, y in ((a, b), (b, a)):
                inr = z3.And(x >= 0, y < zint(self.n), x < y)
                c.assume(z3.Implies(inr, z3.If(self.inc.z, self.f(x) < self.f(y), self.f(x) > self.f(y))))
        # no zero crossing ambiguity needed; values arbitrary reals


def _build(c, attr, dimcoord, bounds, labels=False):
    n = sym_size(c, 'nk', 2)
    nx = sym_size(c, 'nx', 0)
    name = 'k' if dimcoord else 'zc'
    absent = attr.startswith('absent')
    dep = Depth(c, 'z', n, sign=attr[-1] if absent else None)
    ds = XDataset(attrs={'title': 't'})
    attrs = {'axis': 'Z'}
    if not absent:
        attrs['positive'] = attr
    if bounds:
        attrs['bounds'] = 'z_bnds'
    if labels:
        from pyvc.lib.numpy_ import INT64
        add_var(ds, 'k', ('k',), NDArray((n,), lambda i: i[0], INT64), {'long_name': 'layer number'}, coord=True)
    add_var(ds, name, ('k',), dep.arr(), attrs, {'dtype': 'float64'}, coord=True)
    if bounds:
        add_var(ds, 'z_bnds', ('k', 'two'), sym_array(c, 'zb', (n, 2), 'real'), {'long_name': 'bounds'}, coord=(bounds == 'coords'))
    add_var(ds, 'temp', ('k', 'x'), sym_array(c, 'temp', (n, nx), 'V'), {'units': 'C'})
    add_var(ds, 'flipped', ('x', 'k'), sym_array(c, 'flipped', (nx, n), 'V'))
    add_var(ds, 'surface', ('x',), sym_array(c, 'surface', (nx,), 'V'))
    return ds, name, dep, n, nx


def _snapshot(ds):
    return {k: (v.dims, v.arr, v.arr.fn, dict(v.attrs), dict(v.encoding)) for k, v in ds._vars.items()}, dict(ds.attrs)


def _sigma_of(attr):
    """+1 positive-down, -1 positive-up (CF: case-insensitive).  Without the attribute the documented guess
    applies: positive-down iff more than half of the values are positive (the scenarios make all values share
    one sign, so the guess is determined)."""
    if attr.startswith('absent'):
        return 1 if attr.endswith('+') else -1
    return 1 if attr.lower() == 'down' else -1


def _check_unmodified(c, ds, snap, idx_of):
    svars, sattrs = snap
    c.check('input dataset keeps its variables', list(ds._vars.keys()) == list(svars.keys()))
    c.check('input dataset attributes are not modified', ds.attrs == sattrs)
    for k, (dims, arr, f, attrs, enc) in svars.items():
        v = ds._vars.get(k)
        if v is None:
            continue
        c.check(f'input variable {k!r}: attributes are not modified', v.attrs == attrs)
        c.check(f'input variable {k!r}: encoding is not modified', v.encoding == enc)
        c.check(f'input variable {k!r}: dims are not modified', v.dims == dims)
        i = idx_of(dims)
        now = v.arr.fn(i)
        was = f(i)
        same = now.same_bits(was) if isinstance(now, SFloat) else s_eq(now, was)
        c.check(f'input variable {k!r}: values are not modified', same)


def scn_normalize(c, attr, dimcoord, bounds, p, o, labels=False):
    it = new_interp()
    ds, name, dep, n, nx = _build(c, attr, dimcoord, bounds, labels)
    f = fn(it, 'emsarray.operations.depth', 'normalize_depth_variables')
    # Skolem indexes
    k = c.fresh_int('kq')
    c.assume(k >= 0)
    c.assume(k < n - 1)          # k and k+1 both levels
    x = c.fresh_int('xq')
    c.assume(x >= 0)
    c.assume(x < nx)
    b = c.fresh_int('bq')
    c.assume(b >= 0)
    c.assume(b < 2)
    dep.instantiate([0, 1, k, k + 1, n - 1 - k, n - 2 - k, n - 1, n - 2])
    snap = _snapshot(ds)

    def idx_of(dims):
        m = {'k': k, 'x': x, 'two': b}
        return tuple(m[d] for d in dims)

    out = expect_ok(c, 'normalize_depth_variables returns', lambda: call(it, f, ds, [name], positive_down=p, deep_to_shallow=o))
    _check_unmodified(c, ds, snap, idx_of)
    if attr.startswith('absent'):
        c.check('a missing positive attribute is guessed with a warning',
                any(e[0] == 'warning' for e in core.ctx().events))
    _post(c, ds, out, name, dep, n, attr, bounds, p, o, k, x, b, tag='')
    # idempotence: normalising the result again changes nothing
    out2 = expect_ok(c, 'normalising an already normalised dataset returns', lambda: call(it, f, out, [name], positive_down=p, deep_to_shallow=o))
    c.check('idempotent: same variables', list(out2._vars.keys()) == list(out._vars.keys()))
    for vn in out._vars:
        if vn not in out2._vars:
            continue
        a, bb = out._vars[vn], out2._vars[vn]
        c.check(f'idempotent: {vn!r} dims', a.dims == bb.dims)
        c.check(f'idempotent: {vn!r} attributes', a.attrs == bb.attrs)
        i = idx_of(a.dims)
        va, vb = a.arr.fn(i), bb.arr.fn(i)
        c.check(f'idempotent: {vn!r} values', va.same_bits(vb) if isinstance(va, SFloat) else s_eq(va, vb))


def _post(c, ds, out, name, dep, n, attr, bounds, p, o, k, x, b, tag):
    zin = ds._vars[name]
    c.check(tag + 'the depth coordinate is still present', name in out._vars)
    if name not in out._vars:
        raise PathEnd()
    zout = out._vars[name]
    c.check(tag + 'the depth coordinate keeps its dimension', zout.dims == ('k',))
    c.check(tag + 'the depth coordinate stays a coordinate', name in out._coord_names)
    # --- sign ---------------------------------------------------------------------
    if p is not None:
        c.check(tag + 'positive attribute is the requested one', zout.attrs.get('positive') == ('down' if p else 'up'))
    else:
        c.check(tag + 'positive attribute untouched when positive_down is not given',
                zout.attrs.get('positive') == (None if attr.startswith('absent') else attr))
    other_attrs_in = {kk: v for kk, v in zin.attrs.items() if kk != 'positive'}
    other_attrs_out = {kk: v for kk, v in zout.attrs.items() if kk != 'positive'}
    c.check(tag + 'other attributes of the coordinate are kept', other_attrs_in == other_attrs_out)
    c.check(tag + 'encoding of the coordinate is kept', zout.encoding == zin.encoding)
    # the permutation applied to level index k' (identity or reversal): decided from what the data did
    # Physical depth: sigma_in * z_in ; sigma_out * z_out
    if True:
        s_in = _sigma_of(attr)
        s_out = (1 if p else -1) if p is not None else s_in
        flip = s_in * s_out          # +1: values kept, -1: values negated
        # ordering of the input in physical depth: increasing index -> deeper ?
        # d_in(k) = s_in * z[k]; shallow-to-deep iff d increasing
        d0, d1 = s_in * dep.z(0), s_in * dep.z(1)
        in_deep_to_shallow = d0 > d1
        if o is None:
            rev = False
        else:
            rev = s_ite(in_deep_to_shallow, not o, o)     # reverse iff current order != requested
        pi_k = s_ite(rev, n - 1 - k, k)
        got = zout.arr.fn((k,))
        want = flip * dep.z(pi_k)
        c.check(tag + 'every level keeps its physical depth (values and sign attribute agree)',
                s_and(got.is_fin(), s_eq(got.val, want)))
        if o is not None:
            dk, dk1 = s_out * zout.arr.fn((k,)).val, s_out * zout.arr.fn((k + 1,)).val
            c.check(tag + 'levels are in the requested order',
                    (dk > dk1) if o else (dk < dk1))
        else:
            c.check(tag + 'level order untouched when deep_to_shallow is not given', s_eq(pi_k, k))
        _pairing(c, ds, out, bounds, flip, pi_k, k, x, b, tag)


def _pairing(c, ds, out, bounds, flip, pi_k, k, x, b, tag):
    for vn, idx_out, idx_in in (('temp', (k, x), (pi_k, x)), ('flipped', (x, k), (x, pi_k)), ('surface', (x,), (x,))):
        c.check(tag + f'data variable {vn!r} is kept', vn in out._vars)
        if vn not in out._vars:
            continue
        vo, vi = out._vars[vn], ds._vars[vn]
        c.check(tag + f'{vn!r} keeps its dimensions', vo.dims == vi.dims)
        c.check(tag + f'{vn!r} keeps its attributes', vo.attrs == vi.attrs)
        c.check(tag + f'every value of {vn!r} stays attached to the same physical depth',
                s_eq(vo.arr.fn(idx_out), vi.arr.fn(idx_in)))
    if bounds:
        c.check(tag + 'bounds variable is kept', 'z_bnds' in out._vars)
        if 'z_bnds' in out._vars:
            bo, bi = out._vars['z_bnds'], ds._vars['z_bnds']
            c.check(tag + 'bounds keep their dimensions', bo.dims == bi.dims)
            c.check(tag + 'bounds keep their attributes', bo.attrs == bi.attrs)
            g, w = bo.arr.fn((k, b)), bi.arr.fn((pi_k, b))
            c.check(tag + 'bounds are transformed with their coordinate (same sign flip, same reordering)',
                    s_and(g.is_fin(), s_eq(g.val, flip * w.val)))
    c.check(tag + 'global attributes are kept', out.attrs == ds.attrs)
    c.check(tag + 'no variable is added or lost', set(out._vars) == set(ds._vars))


def _two(c, shared):
    n = sym_size(c, 'nk', 2)
    m = n if shared else sym_size(c, 'nm', 2)
    nx = sym_size(c, 'nx', 0)
    d1, d2 = Depth(c, 'za', n), Depth(c, 'zb', m)
    ds = XDataset()
    add_var(ds, 'depth', ('k',), d1.arr(), {'positive': 'down'}, coord=True)
    add_var(ds, 'height', ('k' if shared else 'm',), d2.arr(), {'positive': 'up'}, coord=True)
    add_var(ds, 'temp', ('k', 'x'), sym_array(c, 'temp', (n, nx), 'V'))
    if not shared:
        add_var(ds, 'sed', ('m', 'x'), sym_array(c, 'sed', (m, nx), 'V'))
    return ds, d1, d2, n, m, nx


def scn_two_shared(c, p, o):
    """two coordinates describing the same levels (depth positive down, height = -depth positive up)"""
    it = new_interp()
    ds, d1, d2, n, m, nx = _two(c, True)
    k = c.fresh_int('kq')
    c.assume(k >= 0)
    c.assume(k < n - 1)
    x = c.fresh_int('xq')
    c.assume(x >= 0)
    c.assume(x < nx)
    ks = [0, 1, k, k + 1, n - 1 - k, n - 2 - k, n - 1, n - 2]
    d1.instantiate(ks)
    # height is the same physical axis: height[k] = -depth[k]
    for t in ks:
        c.assume(mk_bool(d2.f(zint(t)) == -d1.f(zint(t))))
    f = fn(it, 'emsarray.operations.depth', 'normalize_depth_variables')
    out = expect_ok(c, 'normalize returns', lambda: call(it, f, ds, ['depth', 'height'], positive_down=p, deep_to_shallow=o))
    in_d2s = d1.z(0) > d1.z(1)
    rev = False if o is None else s_ite(in_d2s, not o, o)
    pi_k = s_ite(rev, n - 1 - k, k)
    for nm, dep, s_in in (('depth', d1, 1), ('height', d2, -1)):
        zo = out._vars[nm]
        s_out = (1 if p else -1) if p is not None else s_in
        g = zo.arr.fn((k,))
        c.check(f'{nm}: every level keeps its physical depth', s_and(g.is_fin(), s_eq(g.val, s_in * s_out * dep.z(pi_k))))
        if p is not None:
            c.check(f'{nm}: positive attribute as requested', zo.attrs.get('positive') == ('down' if p else 'up'))
        if o is not None:
            a, bb = s_out * zo.arr.fn((k,)).val, s_out * zo.arr.fn((k + 1,)).val
            c.check(f'{nm}: levels in the requested order', (a > bb) if o else (a < bb))
    c.check('data stay attached to their level', s_eq(out._vars['temp'].arr.fn((k, x)), ds._vars['temp'].arr.fn((pi_k, x))))


def scn_two_distinct(c, p, o):
    it = new_interp()
    ds, d1, d2, n, m, nx = _two(c, False)
    k = c.fresh_int('kq')
    c.assume(k >= 0)
    c.assume(k < n - 1)
    j = c.fresh_int('jq')
    c.assume(j >= 0)
    c.assume(j < m - 1)
    x = c.fresh_int('xq')
    c.assume(x >= 0)
    c.assume(x < nx)
    d1.instantiate([0, 1, k, k + 1, n - 1 - k, n - 2 - k])
    d2.instantiate([0, 1, j, j + 1, m - 1 - j, m - 2 - j])
    f = fn(it, 'emsarray.operations.depth', 'normalize_depth_variables')
    out = expect_ok(c, 'normalize returns', lambda: call(it, f, ds, ['depth', 'height'], positive_down=p, deep_to_shallow=o))
    for nm, dep, s_in, q, nn, var, dimn in (('depth', d1, 1, k, n, 'temp', 'k'), ('height', d2, -1, j, m, 'sed', 'm')):
        zo = out._vars[nm]
        s_out = (1 if p else -1) if p is not None else s_in
        in_d2s = (s_in * dep.z(0)) > (s_in * dep.z(1))
        rev = False if o is None else s_ite(in_d2s, not o, o)
        pi = s_ite(rev, nn - 1 - q, q)
        g = zo.arr.fn((q,))
        c.check(f'{nm}: every level keeps its physical depth', s_and(g.is_fin(), s_eq(g.val, s_in * s_out * dep.z(pi))))
        if o is not None:
            a, bb = s_out * zo.arr.fn((q,)).val, s_out * zo.arr.fn((q + 1,)).val
            c.check(f'{nm}: levels in the requested order', (a > bb) if o else (a < bb))
        c.check(f'{var}: data stay attached to their level', s_eq(out._vars[var].arr.fn((q, x)), ds._vars[var].arr.fn((pi, x))))


def scn_multidim(c):
    from pyvc.api import expect_raise
    it = new_interp()
    n, nx = sym_size(c, 'nk', 2), sym_size(c, 'nx', 1)
    ds = XDataset()
    add_var(ds, 'z2', ('k', 'x'), sym_array(c, 'z2', (n, nx), 'real'), {'positive': 'down'})
    f = fn(it, 'emsarray.operations.depth', 'normalize_depth_variables')
    expect_raise(c, 'a multidimensional depth variable is refused with ValueError',
                 lambda: call(it, f, ds, ['z2'], positive_down=True), ValueError)


NATIVE = {'': 'normalize'}


def scn_entry(c, conv_name, p, o):
    """Convention.normalize_depth_variables (the accessor alias): the operation (contract: the scenarios above) is applied to the dataset
    itself with EVERY depth coordinate of the dataset - two of them share one dimension here, the sign convention is a matter of each
    coordinate variable - and with the two options as given."""
    from contracts import inputs
    from pyvc.api import attr, method, new_interp
    from pyvc.contract import Contract
    from pyvc.lib.stdlib import OpaqueValue
    MOD = 'emsarray.operations.depth'
    it = new_interp()
    ds, conv = inputs.make_convention(it, c, conv_name)
    face = ds.info['dims']['face']
    names = {'CFGrid1D': [('depth', 'depth', 'down'), ('z', 'depth', 'up'), ('sed', 'ksed', 'down')],
             'UGrid': [('layer', 'nlayer', 'up'), ('layer_alt', 'nlayer', 'down')],
             'ShocStandard': [('z_centre', 'k_centre', 'up'), ('z_grid', 'k_grid', 'up')]}[conv_name]
    sizes = {}
    for name, dim, positive in names:
        n = sizes.setdefault(dim, sym_size(c, 'n_' + dim, 2))
        add_var(ds, name, (dim,), sym_array(c, name, (n,), 'real'), {'positive': positive, 'axis': 'Z'}, coord=True)
    for dim, n in sizes.items():
        add_var(ds, 'data_' + dim, (dim,) + tuple(face), sym_array(c, 'data_' + dim, (n,) + tuple(ds._sizes()[d] for d in face), 'floatnan'))
    calls = []

    def post(it_, a):
        calls.append(a)
        return OpaqueValue('normalised')
    it.contracts[(MOD, 'normalize_depth_variables')] = Contract(MOD, 'normalize_depth_variables', post=post, verified_by='C13 normalize scenarios')
    want = sorted(n for n, _, _ in names)
    kw = {}
    if p is not None:
        kw['positive_down'] = p
    if o is not None:
        kw['deep_to_shallow'] = o
    r = expect_ok(c, 'dataset.ems.normalize_depth_variables returns', lambda: method(it, conv, 'normalize_depth_variables', **kw))
    c.check('the operation is called exactly once, on the dataset itself', len(calls) == 1 and calls[0].get('dataset') is ds)
    if len(calls) != 1:
        raise PathEnd()
    given = list(it.iterate(calls[0].get('depth_coordinates')))
    c.check(f'every depth coordinate of the dataset is handed over, each once (also those that share a dimension): {want}',
            sorted(str(getattr(g, 'name', g)) for g in given) == want, note=repr([getattr(g, 'name', g) for g in given]))
    c.check('positive_down and deep_to_shallow are handed over as given', calls[0].get('positive_down') is p and calls[0].get('deep_to_shallow') is o)
    c.check('the result of the operation is returned as it is', isinstance(r, OpaqueValue))


def scn_guess(c, n, p):
    """A depth coordinate without a `positive` attribute and with levels of ANY signs (n levels, strictly monotonic): the documented guess
    is positive-down iff MORE THAN HALF of the values are greater than zero.  With positive_down given, the values are negated exactly when
    the guess differs from the request, the attribute is set, and a warning names the guess."""
    it = new_interp()
    zs = [c.fresh_real(f'z{k}') for k in range(n)]
    inc = c.fresh_bool('increasing')
    for a, b in zip(zs, zs[1:]):
        c.assume(z3.If(inc.z, zreal(a) < zreal(b), zreal(a) > zreal(b)))
    ds = XDataset(attrs={})
    add_var(ds, 'zc', ('k',), NDArray((n,), lambda i: SFloat(FIN, _pick_real(zs, i[0])), FLOAT64), {'axis': 'Z'}, {}, coord=True)
    nx = sym_size(c, 'nx', 0)
    add_var(ds, 'temp', ('k', 'x'), sym_array(c, 'temp', (n, nx), 'V'))
    f = fn(it, 'emsarray.operations.depth', 'normalize_depth_variables')
    out = expect_ok(c, 'normalize_depth_variables returns', lambda: call(it, f, ds, ['zc'], positive_down=p))
    count = sum([z3.If(zreal(z) > 0, 1, 0) for z in zs])
    guess_down = count * 2 > n
    c.check('a missing positive attribute is guessed with a warning', any(e[0] == 'warning' for e in core.ctx().events))
    zout = out._vars.get('zc')
    c.check('the depth coordinate is still present, on its dimension', zout is not None and zout.dims == ('k',))
    if zout is None:
        raise PathEnd()
    c.check('positive attribute is the requested one', zout.attrs.get('positive') == ('down' if p else 'up'))
    negate = z3.Xor(guess_down, z3.BoolVal(bool(p)))
    for k in range(n):
        got = zout.arr.fn((k,))
        want = z3.If(negate, -zreal(zs[k]), zreal(zs[k]))
        c.check(f'level {k}: negated exactly when the guess (more than half of the values positive = down) differs from the request',
                mk_bool(z3.And(zreal(got.val) == want)) if hasattr(got, 'val') else False)


def _pick_real(zs, k):
    if isinstance(k, int):
        return zs[k]
    e = zreal(zs[-1])
    for j in range(len(zs) - 2, -1, -1):
        e = z3.If(zint(k) == j, zreal(zs[j]), e)
    return mk_real(e)
