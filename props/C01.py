"""C01 -- native and linear indexes form a bijection on every grid.

Functions under contract (real bodies, executed symbolically, all extents symbolic):
DimensionConvention.{grid_shape, grid_size, ravel_index, wind_index}, the per-convention
pack_index / unpack_index / grid_dimensions / grid_kinds and the topology helpers they read.
Postconditions are the property statement itself.
"""
from __future__ import annotations

import z3

from contracts import inputs
from pyvc.api import (PathEnd, attr, call, expect_ok, expect_raise, method, mk_bool, mk_int, new_interp, s_and,
                      s_eq, s_or, zint)

PROPERTY = 'C01'

# (convention, builder kwargs, kinds)
CONFIGS = [
    ('CFGrid1D', {}, ['face']),
    ('CFGrid1D', {'as_coords': False, 'detect': 'standard_name'}, ['face']),
    ('CFGrid2D', {}, ['face']),
    ('ShocSimple', {}, ['face']),
    ('ShocStandard', {}, ['face', 'left', 'back', 'node']),
    ('UGrid', {'edges': 'none'}, ['face', 'node']),
    ('UGrid', {'edges': 'both'}, ['face', 'node', 'edge']),
    ('UGrid', {'edges': 'edge_node', 'face_dimension_attr': False}, ['face', 'node', 'edge']),
    ('UGrid', {'edges': 'none', 'transposed': True}, ['face', 'node']),
    ('UGrid', {'edges': 'both', 'edge_transposed': True, 'transposed': True}, ['face', 'node', 'edge']),
    ('UGrid', {'edges': 'dimension'}, ['face', 'node', 'edge']),
    # tables that mention edges without the dataset having an edge dimension (no edge_dimension attribute, no edge table): no edge grid
    ('UGrid', {'edges': 'none', 'tables': ('face_edge',)}, ['face', 'node']),
    ('UGrid', {'edges': 'none', 'tables': ('face_edge', 'face_face')}, ['face', 'node']),
    # data variables stored ahead of the coordinates with x before y: Dataset.sizes lists the dimensions in another order than (y, x)
    ('CFGrid1D', {'leading': ('lon', 'lat')}, ['face']),
    ('CFGrid2D', {'first_var': ('leading', ('i', 'j'), {})}, ['face']),
    ('ShocStandard', {'leading': True}, ['face', 'left', 'back', 'node']),
    # the general Arakawa C convention with its coordinate names given as a mapping in another order than face, left, back, node
    ('ArakawaC', {'coordinate_order': ('face', 'node', 'back', 'left')}, ['face', 'left', 'back', 'node']),
    ('ArakawaC', {'coordinate_order': ('node', 'left', 'face', 'back')}, ['face', 'left', 'back', 'node']),
    # a curvilinear grid whose longitude variable stores its two dimensions the other way round than the latitude variable (xarray aligns by
    # name; CF does not ask for the same order): the grid is the latitude variable's (y, x)
    ('CFGrid2D', {'lon_transposed': True}, ['face']),
    # the coordinate variables named by the caller instead of detected from attributes
    ('CFGrid1D', {'explicit_names': True}, ['face']),
    ('CFGrid2D', {'explicit_names': True, 'lon_transposed': True}, ['face']),
]


def scenarios(tier):
    out = []
    for ci, (conv, kw, kinds) in enumerate(CONFIGS):
        for kind in kinds:
            tag = f'{conv}[{ci}].{kind}'
            for ob in ('wind_ravel', 'ravel_wind', 'reject_linear', 'reject_native', 'size'):
                out.append({'name': f'{tag}.{ob}', 'fn': 'scn_' + ob, 'kwargs': {'ci': ci, 'kind': kind}})
        out.append({'name': f'{conv}[{ci}].kinds', 'fn': 'scn_kinds', 'kwargs': {'ci': ci}})
        out.append({'name': f'{conv}[{ci}].default_kind', 'fn': 'scn_default_kind', 'kwargs': {'ci': ci}})
    return out


def _setup(c, ci, kind):
    conv_name, kw, kinds = CONFIGS[ci]
    it = new_interp()
    ds, conv = inputs.make_convention(it, c, conv_name, **kw)
    km = inputs.kind_member(it, conv_name, kind)
    shape = ds.info['shape'][kind]
    size = 1
    for n in shape:
        size = size * n
    return it, ds, conv, conv_name, km, shape, size


def _in_range(idx, shape):
    return s_and(*[mk_bool(z3.And(zint(k) >= 0, zint(k) < zint(n))) for k, n in zip(idx, shape)])


def _rowmajor(idx, shape):
    lin = 0
    for k, n in zip(idx, shape):
        lin = lin * n + k
    return lin


def scn_wind_ravel(c, ci, kind):
    it, ds, conv, cn, km, shape, size = _setup(c, ci, kind)
    l = c.fresh_int('l')
    c.assume(l >= 0)
    c.assume(l < size)
    idx = expect_ok(c, 'wind_index returns for in-range linear index', lambda: method(it, conv, 'wind_index', l, grid_kind=km))
    back = expect_ok(c, 'ravel_index accepts what wind_index returned', lambda: method(it, conv, 'ravel_index', idx))
    c.check('ravel_index(wind_index(l)) == l', s_eq(back, l))
    # the native index has the documented form and in-range components
    comps = [c.fresh_int(f'k{d}') for d in range(len(shape))]
    c.check('wind_index(l) is the row-major cell of l, in the native form',
            s_eq(idx, inputs.native_index(cn, km, _unravel(l, shape))))


def _unravel(l, shape):
    from pyvc.lib.numpy_ import unravel
    return unravel(l, tuple(shape))


def scn_ravel_wind(c, ci, kind):
    it, ds, conv, cn, km, shape, size = _setup(c, ci, kind)
    comps = [c.fresh_int(f'k{d}') for d in range(len(shape))]
    c.assume(_in_range(comps, shape))
    native = inputs.native_index(cn, km, comps)
    lin = expect_ok(c, 'ravel_index returns for in-range native index', lambda: method(it, conv, 'ravel_index', native))
    c.check('linear order is row-major over the grid dimensions', s_eq(lin, _rowmajor(comps, shape)))
    c.check('0 <= ravel_index(idx) < grid size', mk_bool(z3.And(zint(lin) >= 0, zint(lin) < zint(size))))
    back = expect_ok(c, 'wind_index accepts what ravel_index returned', lambda: method(it, conv, 'wind_index', lin, grid_kind=km))
    c.check('wind_index(ravel_index(idx)) == idx', s_eq(back, native))


def scn_reject_linear(c, ci, kind):
    it, ds, conv, cn, km, shape, size = _setup(c, ci, kind)
    l = c.fresh_int('l')
    c.assume(s_or(l < 0, l >= size))
    expect_raise(c, 'out-of-range linear index is rejected (never wrapped or clamped)',
                 lambda: method(it, conv, 'wind_index', l, grid_kind=km))


def scn_reject_native(c, ci, kind):
    it, ds, conv, cn, km, shape, size = _setup(c, ci, kind)
    comps = [c.fresh_int(f'k{d}') for d in range(len(shape))]
    c.assume(~_in_range(comps, shape) if not isinstance(_in_range(comps, shape), bool) else not _in_range(comps, shape))
    native = inputs.native_index(cn, km, comps)
    expect_raise(c, 'out-of-range native index is rejected (never wrapped or clamped)',
                 lambda: method(it, conv, 'ravel_index', native))


def scn_size(c, ci, kind):
    it, ds, conv, cn, km, shape, size = _setup(c, ci, kind)
    gs = expect_ok(c, 'grid_size is defined', lambda: attr(it, conv, 'grid_size'))
    gshape = expect_ok(c, 'grid_shape is defined', lambda: attr(it, conv, 'grid_shape'))
    c.check('grid kind present in grid_size', km in gs)
    if km not in gs:
        raise PathEnd()
    c.check('grid_size[kind] == product of the extents of that grid', s_eq(gs[km], size))
    c.check('grid_shape[kind] == extents in dataset order', s_eq(tuple(gshape[km]), tuple(shape)))


def scn_kinds(c, ci):
    conv_name, kw, kinds = CONFIGS[ci]
    it = new_interp()
    ds, conv = inputs.make_convention(it, c, conv_name, **kw)
    gk = expect_ok(c, 'grid_kinds is defined', lambda: attr(it, conv, 'grid_kinds'))
    expected = {inputs.kind_member(it, conv_name, k) for k in kinds}
    c.check('grid_kinds is exactly the set of grids the dataset defines', set(gk) == expected)
    gs = expect_ok(c, 'grid_size is defined', lambda: attr(it, conv, 'grid_size'))
    c.check('grid_size has exactly one entry per grid kind', set(gs.keys()) == expected)


def scn_default_kind(c, ci):
    conv_name, kw, kinds = CONFIGS[ci]
    it = new_interp()
    ds, conv = inputs.make_convention(it, c, conv_name, **kw)
    face = inputs.kind_member(it, conv_name, 'face')
    shape = ds.info['shape']['face']
    size = 1
    for n in shape:
        size = size * n
    l = c.fresh_int('l')
    c.assume(l >= 0)
    c.assume(l < size)
    a = expect_ok(c, 'wind_index without grid_kind returns', lambda: method(it, conv, 'wind_index', l))
    b = expect_ok(c, 'wind_index with the face kind returns', lambda: method(it, conv, 'wind_index', l, grid_kind=face))
    c.check('omitting grid_kind means the face grid', s_eq(a, b))


NATIVE = {'': 'index_bijection'}
