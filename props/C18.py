"""C18 -- transects: the data prepared for plotting pairs every segment with the values of its own cell at every depth.

Functions under contract (real bodies): Transect.__init__, Transect.transect_dataset, Transect.prepare_data_array_for_transect,
utils.move_dimensions_to_end, name_to_data_array, Convention.ravel (DimensionConvention.ravel inline, C03).
Callee contract: Transect.segments = a sequence of any length of segments (linear_index(k) a valid cell, start(k), end(k)) and Transect.points
(the path vertices) -- produced by the geometric part.
NOT decided deductively: Transect.segments / points / distance_along_line / _intersect_polygon themselves (shapely intersections, STRtree
queries, cartopy projections, sorting by floating-point distances): bounded native stand-in harness/native/C18.py with the optional cfunits
import satisfied by a stub -- labelled bounded.
"""
from __future__ import annotations

import z3

from contracts import inputs
from pyvc import core
from pyvc.api import (FIN, PathEnd, SFloat, XDataArray, call, cls, expect_ok, fn, method, mk_bool, mk_int, mk_real, new_interp, s_and, s_eq,
                      s_implies, sym_array, sym_size, zint)
from pyvc.contract import Contract
from pyvc.lib.numpy_ import NDArray, unravel
from pyvc.lib.seq import SymSeq
from pyvc.lib.stdlib import OpaqueValue

PROPERTY = 'C18'
LEVEL = 'other'        # mixed: data pairing proved, segment geometry bounded (MANIFEST level_claimed.category)
CONFIGS = [('CFGrid1D', {}, ('lat', 'lon')), ('CFGrid2D', {}, ('j', 'i')), ('ShocStandard', {}, ('j_centre', 'i_centre')), ('UGrid', {'edges': 'none'}, ('nface',))]


def scenarios(tier):
    out = []
    for ci, cfg in enumerate(CONFIGS):
        for layout in ('tkf', 'ktf', 'fkt', 'kf'):
            out.append({'name': f'prepare_data_array_for_transect[{cfg[0]}, layout {layout}]', 'fn': 'scn_prepare', 'kwargs': {'ci': ci, 'layout': layout}})
    for bounds in (False, True):
        out.append({'name': f'transect_dataset[depth bounds {"given" if bounds else "derived"}]', 'fn': 'scn_dataset', 'kwargs': {'bounds': bounds}})
    return out


class Seg:
    _pyvc_model_class = True

    def __init__(self, k, li, start, end):
        self.k, self.linear_index, self.start_distance, self.end_distance = k, li, start, end


class Pt:
    _pyvc_model_class = True

    def __init__(self, d):
        self.distance_metres = d


def _contracts(c, size):
    nseg = sym_size(c, 'nseg', 0)
    li = c.fresh_fn('seg_cell', z3.IntSort(), z3.IntSort())
    st = c.fresh_fn('seg_start', z3.IntSort(), z3.RealSort())
    en = c.fresh_fn('seg_end', z3.IntSort(), z3.RealSort())

    def at(k):
        v = li(zint(k))
        core.ctx().assume(z3.And(v >= 0, v < zint(size)))       # a segment names a cell of the dataset (native part)
        return Seg(k, mk_int(v), SFloat(FIN, mk_real(st(zint(k)))), SFloat(FIN, mk_real(en(zint(k)))))
    segs = SymSeq(nseg, at, 'list')
    total = c.fresh_real('path_length')
    pts = [Pt(0), Pt(SFloat(FIN, total))]
    cs = [Contract('emsarray.transect', 'Transect.segments', post=lambda it, a: segs, verified_by='bounded native (C18 transect)'),
          Contract('emsarray.transect', 'Transect.points', post=lambda it, a: pts, verified_by='bounded native (C18 transect)')]
    return nseg, li, st, en, cs


def _setup(c, ci, extra, depth_attrs=None, depth_bounds=False):
    from props.C11 import _accessors, _entry_points
    conv_name, kw, fdims = CONFIGS[ci]
    it = new_interp()
    ds, conv = inputs.make_convention(it, c, conv_name, extra=extra, **kw)
    from pyvc.api import add_var
    nk = ds._sizes().get('k')
    if nk is None:
        nk = sym_size(c, 'nk', 1)
    else:
        c.assume(nk >= 1)
    attrs = {'positive': 'down', 'long_name': 'depth', 'units': 'm'}
    if depth_bounds:
        attrs['bounds'] = 'zbnds'
    add_var(ds, 'zc', ('k',), sym_array(c, 'zc', (nk,), 'real'), attrs, coord=True)
    if depth_bounds:
        add_var(ds, 'zbnds', ('k', 'two'), sym_array(c, 'zbnds', (nk, 2), 'real'), {})
    c.entry_points = _entry_points(it)
    _accessors(c, it)
    method(it, conv, 'bind')
    return it, ds, conv, conv_name, fdims, nk


def scn_prepare(c, ci, layout):
    conv_name, kw, fdims = CONFIGS[ci]
    dims = tuple(x for ch in layout for x in ({'t': ('t',), 'k': ('k',), 'f': fdims}[ch]))
    it, ds, conv, conv_name, fdims, nk = _setup(c, ci, [('temp', dims, 'floatnan')])
    # 'k' must exist before temp is added with it: make_convention builds extras first, so sizes agree by construction
    ds._vars['temp'].attrs['units'] = 'degC'
    shape = ds.info['shape']['face']
    size = 1
    for n in shape:
        size = size * n
    nseg, li, st, en, cs = _contracts(c, size)
    for k_ in cs:
        it.contracts[k_.key] = k_
    T = cls(it, 'emsarray.transect', 'Transect')
    line = OpaqueValue('line')
    tr = expect_ok(c, 'Transect(dataset, line, depth)', lambda: it.instantiate(T, [ds, line], {'depth': 'zc'}))
    da = ds._da('temp')
    out = expect_ok(c, 'prepare_data_array_for_transect returns', lambda: method(it, tr, 'prepare_data_array_for_transect', da))
    v = out.variable
    others = tuple(d for d in dims if d != 'k' and d not in fdims)
    c.check('depth second to last, one column per segment last, other dimensions first in their order', v.dims[:-1] == others + ('k',) and len(v.dims) == len(others) + 2)
    if len(v.dims) != len(others) + 2:
        raise PathEnd()
    c.check('one column per segment', s_eq(v.arr.shape[-1], nseg))
    c.check('attributes of the variable are kept', v.attrs.get('units') == 'degC')
    q = {d: c.fresh_int(d + 'q') for d in others + ('k',)}
    sizes = ds._sizes()
    for d, x in q.items():
        c.assume(x >= 0)
        c.assume(x < sizes[d])
    s = c.fresh_int('segment')
    c.assume(s >= 0)
    c.assume(s < nseg)
    cell = mk_int(li(s.z))
    comps = dict(zip(fdims, unravel(cell, tuple(shape))))
    src = {**q, **comps}
    got = v.arr.fn(tuple(q[d] for d in others) + (q['k'], s))
    want = ds._vars['temp'].arr.fn(tuple(src[d] for d in dims))
    c.check("column s of the prepared data holds, at every depth (and record), the value of segment s's own cell", got.same_bits(want))


def scn_dataset(c, bounds):
    it, ds, conv, conv_name, fdims, nk = _setup(c, 0, [], depth_bounds=bounds)
    shape = ds.info['shape']['face']
    size = shape[0] * shape[1]
    nseg, li, st, en, cs = _contracts(c, size)
    for k_ in cs:
        it.contracts[k_.key] = k_
    T = cls(it, 'emsarray.transect', 'Transect')
    tr = expect_ok(c, 'Transect(dataset, line, depth)', lambda: it.instantiate(T, [ds, OpaqueValue('line')], {'depth': 'zc'}))
    td = expect_ok(c, 'transect_dataset', lambda: it.getattr(tr, 'transect_dataset'))
    s = c.fresh_int('segment')
    c.assume(s >= 0)
    c.assume(s < nseg)
    liv = td._vars.get('linear_index')
    c.check('linear_index: one entry per segment, in segment order', liv is not None and liv.dims == ('index',) and s_eq(liv.arr.shape[0], nseg))
    if liv is not None:
        c.check('linear_index[s] is the cell of segment s', s_eq(liv.arr.fn((s,)), mk_int(li(s.z))))
    db = td._vars.get('distance_bounds')
    c.check('distance_bounds: (segments, 2)', db is not None and db.dims == ('index', 'bounds') and s_eq(db.arr.shape[0], nseg) and db.arr.shape[1] == 2)
    if db is not None:
        c.check('distance_bounds[s] = [start, end] of segment s',
                s_and(s_eq(db.arr.fn((s, 0)).val, mk_real(st(s.z))), s_eq(db.arr.fn((s, 1)).val, mk_real(en(s.z)))))
        c.check('the path length is recorded', db.attrs.get('start_distance') == 0 and db.attrs.get('end_distance') is not None)
    dep = td._vars.get('depth')
    kq = c.fresh_int('kq')
    c.assume(kq >= 0)
    c.assume(kq < nk)
    c.check('the depth coordinate is carried over value for value', dep is not None and dep.dims == ('k',) and dep.arr.fn((kq,)).same_bits(ds._vars['zc'].arr.fn((kq,))))
    zb = td._vars.get('depth_bounds')
    c.check('depth bounds: (layers, 2)', zb is not None and zb.dims == ('k', 'bounds') and zb.arr.shape[1] == 2)
    if zb is not None and bounds:
        b = c.fresh_int('b')
        c.assume(b >= 0)
        c.assume(b < 2)
        c.check('given depth bounds are used as given', zb.arr.fn((kq, b)).same_bits(ds._vars['zbnds'].arr.fn((kq, b))))


NATIVE = {'': 'transect'}
