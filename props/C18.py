"""C18 -- transects: the data prepared for plotting pairs every segment with the values of its own cell at every depth.

Functions under contract (real bodies): Transect.__init__, Transect.transect_dataset, Transect.prepare_data_array_for_transect,
utils.move_dimensions_to_end, name_to_data_array, Convention.ravel (DimensionConvention.ravel inline, C03).
Callee contract: Transect.segments = a sequence of any length of segments (linear_index(k) a valid cell, start(k), end(k)) and Transect.points
(the path vertices) -- produced by the geometric part.
Also under contract (real bodies), against abstract geometry terms: Transect.points (LOOP-INVARIANT rule: every vertex with its projection,
normalised position and accumulated distance), Transect.distance_along_line (which vertex, which projection, which two
projected geometries), Transect.segments and Transect._intersect_polygon -- routing only: which
cells and which pieces become segments, what each segment carries, and the order of the list (FOREACH / COLLECT rule for the two nested
loops over sequences of symbolic length; library contracts SH-STRTREE-QUERY, SH-INTERSECTION, PY-SORTED; callee contract
distance_along_line(point) = D(point)).
NOT decided deductively: what the geometry terms denote -- shapely intersections, cartopy projections, floating-point distances: bounded native stand-in harness/native/C18.py with the optional cfunits import satisfied
by a stub -- labelled bounded.
"""
from __future__ import annotations

import z3

from contracts import base, inputs
from pyvc import core
from pyvc.api import (FIN, PathEnd, SFloat, XDataArray, call, cls, expect_ok, fn, method, mk_bool, mk_int, mk_real, new_interp, outcome, s_and, s_eq,
                      s_implies, sym_array, sym_size, zint)
from pyvc.contract import Contract
from pyvc.interp import exc_matches
from pyvc.lib.numpy_ import NDArray, unravel
from pyvc.lib.seq import SymSeq
from pyvc.lib.stdlib import OpaqueValue

PROPERTY = 'C18'
LEVEL = 'other'        # mixed: data pairing proved, segment geometry bounded (MANIFEST level_claimed.category)
CONFIGS = [('CFGrid1D', {}, ('lat', 'lon')), ('CFGrid2D', {}, ('j', 'i')), ('ShocStandard', {}, ('j_centre', 'i_centre')), ('UGrid', {'edges': 'none'}, ('nface',))]


def scenarios(tier):
    out = []
    for ci, cfg in enumerate(CONFIGS):
        for layout in ('tkf', 'ktf', 'fkt', 'kf'):
            out.append({'name': f'prepare_data_array_for_transect[{cfg[0]}, layout {layout}]', 'fn': 'scn_prepare', 'kwargs': {'ci': ci, 'layout': layout}})
    for bounds in (False, True):
        out.append({'name': f'transect_dataset[depth bounds {"given" if bounds else "derived"}]', 'fn': 'scn_dataset', 'kwargs': {'bounds': bounds}})
    out.append({'name': 'Transect.points (loop invariant)', 'fn': 'scn_points', 'kwargs': {}})
    out.append({'name': 'Transect.distance_along_line', 'fn': 'scn_distance_along_line', 'kwargs': {}})
    for ci, cfg in enumerate(CONFIGS):
        out.append({'name': f'Transect._intersect_polygon[{cfg[0]}]', 'fn': 'scn_intersect_polygon', 'kwargs': {'ci': ci}})
        out.append({'name': f'Transect.segments[{cfg[0]}]', 'fn': 'scn_segments', 'kwargs': {'ci': ci}})
    return out


class Seg:
    _pyvc_model_class = True

    def __init__(self, k, li, start, end):
        self.k, self.linear_index, self.start_distance, self.end_distance = k, li, start, end


class Pt:
    _pyvc_model_class = True

    def __init__(self, d):
        self.distance_metres = d


def _contracts(c, size):
    nseg = sym_size(c, 'nseg', 0)
    li = c.fresh_fn('seg_cell', z3.IntSort(), z3.IntSort())
    st = c.fresh_fn('seg_start', z3.IntSort(), z3.RealSort())
    en = c.fresh_fn('seg_end', z3.IntSort(), z3.RealSort())

    def at(k):
        v = li(zint(k))
        core.ctx().assume(z3.And(v >= 0, v < zint(size)))       # a segment names a cell of the dataset (native part)
        return Seg(k, mk_int(v), SFloat(FIN, mk_real(st(zint(k)))), SFloat(FIN, mk_real(en(zint(k)))))
    segs = SymSeq(nseg, at, 'list')
    total = c.fresh_real('path_length')
    pts = [Pt(0), Pt(SFloat(FIN, total))]
    cs = [Contract('emsarray.transect', 'Transect.segments', post=lambda it, a: segs, verified_by='bounded native (C18 transect)'),
          Contract('emsarray.transect', 'Transect.points', post=lambda it, a: pts, verified_by='bounded native (C18 transect)')]
    return nseg, li, st, en, cs


def _setup(c, ci, extra, depth_attrs=None, depth_bounds=False, use=None):
    from props.C11 import _accessors, _entry_points
    conv_name, kw, fdims = CONFIGS[ci]
    it = new_interp(use=use) if use else new_interp()
    ds, conv = inputs.make_convention(it, c, conv_name, extra=extra, **kw)
    from pyvc.api import add_var
    nk = ds._sizes().get('k')
    if nk is None:
        nk = sym_size(c, 'nk', 1)
    else:
        c.assume(nk >= 1)
    attrs = {'positive': 'down', 'long_name': 'depth', 'units': 'm'}
    if depth_bounds:
        attrs['bounds'] = 'zbnds'
    add_var(ds, 'zc', ('k',), sym_array(c, 'zc', (nk,), 'real'), attrs, coord=True)
    if depth_bounds:
        add_var(ds, 'zbnds', ('k', 'two'), sym_array(c, 'zbnds', (nk, 2), 'real'), {})
    c.entry_points = _entry_points(it)
    _accessors(c, it)
    method(it, conv, 'bind')
    return it, ds, conv, conv_name, fdims, nk


def scn_prepare(c, ci, layout):
    conv_name, kw, fdims = CONFIGS[ci]
    dims = tuple(x for ch in layout for x in ({'t': ('t',), 'k': ('k',), 'f': fdims}[ch]))
    it, ds, conv, conv_name, fdims, nk = _setup(c, ci, [('temp', dims, 'floatnan')])
    # 'k' must exist before temp is added with it: make_convention builds extras first, so sizes agree by construction
    ds._vars['temp'].attrs['units'] = 'degC'
    shape = ds.info['shape']['face']
    size = 1
    for n in shape:
        size = size * n
    nseg, li, st, en, cs = _contracts(c, size)
    for k_ in cs:
        it.contracts[k_.key] = k_
    T = cls(it, 'emsarray.transect', 'Transect')
    line = OpaqueValue('line')
    tr = expect_ok(c, 'Transect(dataset, line, depth)', lambda: it.instantiate(T, [ds, line], {'depth': 'zc'}))
    da = ds._da('temp')
    out = expect_ok(c, 'prepare_data_array_for_transect returns', lambda: method(it, tr, 'prepare_data_array_for_transect', da))
    v = out.variable
    others = tuple(d for d in dims if d != 'k' and d not in fdims)
    c.check('depth second to last, one column per segment last, other dimensions first in their order', v.dims[:-1] == others + ('k',) and len(v.dims) == len(others) + 2)
    if len(v.dims) != len(others) + 2:
        raise PathEnd()
    c.check('one column per segment', s_eq(v.arr.shape[-1], nseg))
    c.check('attributes of the variable are kept', v.attrs.get('units') == 'degC')
    q = {d: c.fresh_int(d + 'q') for d in others + ('k',)}
    sizes = ds._sizes()
    for d, x in q.items():
        c.assume(x >= 0)
        c.assume(x < sizes[d])
    s = c.fresh_int('segment')
    c.assume(s >= 0)
    c.assume(s < nseg)
    cell = mk_int(li(s.z))
    comps = dict(zip(fdims, unravel(cell, tuple(shape))))
    src = {**q, **comps}
    got = v.arr.fn(tuple(q[d] for d in others) + (q['k'], s))
    want = ds._vars['temp'].arr.fn(tuple(src[d] for d in dims))
    c.check("column s of the prepared data holds, at every depth (and record), the value of segment s's own cell", got.same_bits(want))


def scn_dataset(c, bounds):
    it, ds, conv, conv_name, fdims, nk = _setup(c, 0, [], depth_bounds=bounds)
    shape = ds.info['shape']['face']
    size = shape[0] * shape[1]
    nseg, li, st, en, cs = _contracts(c, size)
    for k_ in cs:
        it.contracts[k_.key] = k_
    T = cls(it, 'emsarray.transect', 'Transect')
    tr = expect_ok(c, 'Transect(dataset, line, depth)', lambda: it.instantiate(T, [ds, OpaqueValue('line')], {'depth': 'zc'}))
    td = expect_ok(c, 'transect_dataset', lambda: it.getattr(tr, 'transect_dataset'))
    s = c.fresh_int('segment')
    c.assume(s >= 0)
    c.assume(s < nseg)
    liv = td._vars.get('linear_index')
    c.check('linear_index: one entry per segment, in segment order', liv is not None and liv.dims == ('index',) and s_eq(liv.arr.shape[0], nseg))
    if liv is not None:
        c.check('linear_index[s] is the cell of segment s', s_eq(liv.arr.fn((s,)), mk_int(li(s.z))))
    db = td._vars.get('distance_bounds')
    c.check('distance_bounds: (segments, 2)', db is not None and db.dims == ('index', 'bounds') and s_eq(db.arr.shape[0], nseg) and db.arr.shape[1] == 2)
    if db is not None:
        c.check('distance_bounds[s] = [start, end] of segment s',
                s_and(s_eq(db.arr.fn((s, 0)).val, mk_real(st(s.z))), s_eq(db.arr.fn((s, 1)).val, mk_real(en(s.z)))))
        c.check('the path length is recorded', db.attrs.get('start_distance') == 0 and db.attrs.get('end_distance') is not None)
    dep = td._vars.get('depth')
    kq = c.fresh_int('kq')
    c.assume(kq >= 0)
    c.assume(kq < nk)
    c.check('the depth coordinate is carried over value for value', dep is not None and dep.dims == ('k',) and dep.arr.fn((kq,)).same_bits(ds._vars['zc'].arr.fn((kq,))))
    zb = td._vars.get('depth_bounds')
    c.check('depth bounds: (layers, 2)', zb is not None and zb.dims == ('k', 'bounds') and zb.arr.shape[1] == 2)
    if zb is not None and bounds:
        b = c.fresh_int('b')
        c.assume(b >= 0)
        c.assume(b < 2)
        c.check('given depth bounds are used as given', zb.arr.fn((kq, b)).same_bits(ds._vars['zbnds'].arr.fn((kq, b))))


# ---------------------------------------------------------------------------------------------------------------------------------------
# Transect.segments / _intersect_polygon against abstract geometry (SH-INTERSECTION, SH-STRTREE-QUERY, PY-SORTED)
def _segments_setup(c, ci):
    from pyvc.lib.shapely_ import Geom
    it, ds, conv, conv_name, fdims, nk = _setup(c, ci, [], use=base.POLY_KEYS)
    D = c.fresh_fn('distance_along_line', core.GeomSort, z3.RealSort())

    def dist(it_, a):
        p = a['point']
        if not hasattr(p, 'z'):
            raise core.Unsupported('distance_along_line of something that is not a point')
        return SFloat(FIN, mk_real(D(p.z)))
    it.contracts[('emsarray.transect', 'Transect.distance_along_line')] = Contract(
        'emsarray.transect', 'Transect.distance_along_line', post=dist, verified_by='bounded native (C18 transect: distances)')
    line = Geom(z3.Const('path', core.GeomSort))
    T = cls(it, 'emsarray.transect', 'Transect')
    tr = expect_ok(c, 'Transect(dataset, line)', lambda: it.instantiate(T, [ds, line], {'depth': 'zc'}))
    return it, ds, conv, tr, line, D


def scn_intersect_polygon(c, ci):
    """_intersect_polygon(polygon) = exactly the LineString parts of polygon.intersection(path), in order."""
    from pyvc.lib.shapely_ import KINDS, _fn
    it, ds, conv, tr, line, D = _segments_setup(c, ci)
    polys = base.abstract_polygons(conv)
    n = c.fresh_int('cell')
    c.assume(n >= 0)
    c.assume(n < polys.shape[0])
    c.assume(z3.Not(polys.hole(n.z)))
    poly = core.resolve_maybe(polys.fn((n,)))
    out = expect_ok(c, '_intersect_polygon returns', lambda: method(it, tr, '_intersect_polygon', poly))
    inter = [e for e in c.events if e[0] == 'intersection']
    c.check('the cell polygon is intersected with the path, once', len(inter) == 1 and mk_bool(z3.And(inter[0][1] == polys.poly(n.z), inter[0][2] == line.z)))
    if len(inter) != 1:
        raise PathEnd()
    g = inter[0][3]
    kind = g._kind()
    LS = KINDS.index('LineString')
    multi = z3.Or(kind == KINDS.index('MultiLineString'), kind == KINDS.index('GeometryCollection'))
    if isinstance(out, list):
        # single-part result (or a multi-point): the piece itself when it is a line, nothing otherwise
        c.check('a single-part intersection is returned iff it is a line; a point contact gives no piece',
                mk_bool(z3.And(z3.Not(multi), (kind == LS) == (len(out) == 1))) if len(out) <= 1 else False)
        if len(out) == 1:
            c.check('the piece is the intersection itself', out[0] is g)
    else:
        c.check('a multi-part intersection is decomposed into its parts', mk_bool(multi) if hasattr(out, 'selection') and getattr(out.source, 'parts_of', None) is g else False)
        if hasattr(out, 'selection'):
            j = c.fresh_int('part')
            c.assume(j >= 0)
            c.assume(j < out.source.length)
            pj = out.source.at(j)
            c.check('part j is kept iff it is a line (points are dropped), in the order of the parts',
                    s_eq(core.truthy(out.selection.keep(j)), mk_bool(pj._kind() == LS)))
            k = c.fresh_int('piece')
            c.assume(k >= 0)
            c.assume(k < out.length)
            ek = out.at(k)
            c.check('piece k is the k-th line part itself', mk_bool(ek.z == _fn('geom_part', core.GeomSort, z3.IntSort(), core.GeomSort)(g.z, zint(out.selection.sel(k)))))


def scn_segments(c, ci):
    """Transect.segments: one segment per (intersecting cell, line piece of polygon ∩ path), carrying that cell and that piece."""
    from pyvc.lib.shapely_ import KINDS, _fn, AbsGeom
    it, ds, conv, tr, line, D = _segments_setup(c, ci)
    polys = base.abstract_polygons(conv)
    shape = tuple(ds.info['shape']['face'])
    conv_name, kw, fdims = CONFIGS[ci]
    res = expect_ok(c, 'Transect.segments returns', lambda: it.getattr(tr, 'segments'))
    chunks, prefix = core.collected_chunks(res)
    if not chunks and not prefix:
        hits = [e for e in c.events if e[0] == 'STRtree.query']
        c.check('no segments only when no cell intersects the path', len(hits) == 1 and hits[0][1] is polys and hits[0][2] is line
                and hits[0][3] == 'intersects' and _no_hits(c, polys, line))
        raise PathEnd()
    ok = len(chunks) == 1 and not prefix and isinstance(chunks[0], core.SortedView)
    c.check('the result is the sorted list of the segments collected over the intersecting cells', ok)
    if not ok:
        raise PathEnd()
    view = chunks[0]
    src, pre = core.collected_chunks(view.source)
    ok = len(src) == 1 and not pre and isinstance(src[0], core.Collected)
    c.check('segments are collected by one loop over the cells', ok)
    if not ok:
        raise PathEnd()
    outer = src[0]
    outer.reassume()            # what the executor learnt about the arbitrary iterations (kept with their record, not with the path)
    q = getattr(outer.seq, 'query', None)
    c.check("the loop runs over exactly the cells whose polygon intersects the path (STRtree over all polygons, predicate 'intersects')",
            q is not None and q[0].geoms is polys and q[1] is line and q[2] == 'intersects')
    leaves = outer.leaves()
    pred = _fn('pred_intersects', core.GeomSort, core.GeomSort, z3.BoolSort())
    li = outer.seq.fn((outer.k,)) if isinstance(outer.seq, NDArray) else outer.seq.at(outer.k)
    c.check('an iterated cell has a polygon that intersects the path', mk_bool(z3.And(z3.Not(polys.hole(zint(li))), pred(line.z, polys.poly(zint(li))))))
    # per (cell, piece): exactly one segment
    if len(outer.items) == 1 and isinstance(outer.items[0], core.Collected):
        inner = outer.items[0]
        c.check('every line piece of a multi-part intersection gives exactly one segment', len(inner.items) == 1 and not isinstance(inner.items[0], core.Collected))
        piece = inner.seq.at(inner.k)
        src_parts = getattr(getattr(inner.seq, 'source', None), 'parts_of', None)
        c.check('the pieces are the line parts of polygon(cell) ∩ path',
                src_parts is not None and mk_bool(src_parts.z == _fn('geom_inter', core.GeomSort, core.GeomSort, core.GeomSort)(polys.poly(zint(li)), line.z)))
    else:
        c.check('a single-part intersection gives one segment if it is a line and none if it is a point',
                len(outer.items) <= 1 and all(not isinstance(x, core.Collected) for x in outer.items))
        piece = None
    for (frames, seg), key in zip(leaves, view.keys):
        a = seg.attrs
        if piece is None:
            g = AbsGeom(_fn('geom_inter', core.GeomSort, core.GeomSort, core.GeomSort)(polys.poly(zint(li)), line.z))
            want_piece = g.z
            c.check('no segment for a contact that is not a line', mk_bool(g._kind() == KINDS.index('LineString')))
        else:
            want_piece = piece.z
        c.check("the segment's intersection is that piece of the path inside the cell, itself", hasattr(a['intersection'], 'z') and mk_bool(a['intersection'].z == want_piece)
                and getattr(a['intersection'], 'built_from', None) is None)
        c.check("the segment names the cell's linear index", s_eq(a['linear_index'], li))
        c.check("the segment names the cell's native index", _same_index(conv_name, a['index'], unravel(li, shape)))
        pg = core.resolve_maybe(a['polygon']) if isinstance(a['polygon'], core.Maybe) else a['polygon']
        c.check("the segment carries the cell's polygon", getattr(pg, 'term', None) is not None and mk_bool(pg.term == polys.poly(zint(li))))
        first = _fn('geom_coord', core.GeomSort, z3.IntSort(), core.GeomSort)(want_piece, z3.IntVal(0))
        last = _fn('geom_coord', core.GeomSort, z3.IntSort(), core.GeomSort)(want_piece, _fn('geom_ncoords', core.GeomSort, z3.IntSort())(want_piece) - 1)
        sp, ep = a['start_point'], a['end_point']
        okp = hasattr(sp, 'z') and hasattr(ep, 'z')
        c.check('start and end point are the two ends of the piece', okp and mk_bool(z3.Or(z3.And(sp.z == first, ep.z == last), z3.And(sp.z == last, ep.z == first))))
        if okp:
            c.check('start / end distance are the distances of the start / end point along the path',
                    s_and(s_eq(a['start_distance'].val, mk_real(D(sp.z))), s_eq(a['end_distance'].val, mk_real(D(ep.z)))))
            c.check('start is never after end', mk_bool(core.zreal(a['start_distance'].val) <= core.zreal(a['end_distance'].val)))
        c.check('listed by increasing start distance, then end distance: the sort key of a segment is (start_distance, end_distance), ascending',
                (not view.reverse) and isinstance(key, tuple) and len(key) == 2 and key[0] is a['start_distance'] and key[1] is a['end_distance'])


class _CRS:
    """an azimuthal equidistant projection centred on one path vertex (cartopy, abstract): project_geometry / distance as terms"""
    _pyvc_model_class = True

    def __init__(self, c, k):
        self.k = k
        self.c = c

    def project_geometry(self, geom, src_crs=None):
        f = self.c._shp_fns.setdefault('crs_project', z3.Function('crs_project', z3.IntSort(), core.GeomSort, core.GeomSort))
        if not hasattr(geom, 'z'):
            raise core.Unsupported('project_geometry of something that is not a geometry')
        core.ctx().event('project_geometry', self.k, geom, src_crs)
        return _Projected(f(zint(self.k), geom.z))


class _Projected:
    _pyvc_model_class = True

    def __init__(self, z):
        self.z = z

    def distance(self, other):
        c = core.ctx()
        f = c._shp_fns.setdefault('planar_distance', z3.Function('planar_distance', core.GeomSort, core.GeomSort, z3.RealSort()))
        if not isinstance(other, _Projected):
            raise core.Unsupported('distance to something that was not projected')
        d = f(self.z, other.z)
        c.assume(d >= 0)
        return SFloat(FIN, mk_real(d))


class _TPoint:
    _pyvc_model_class = True

    def __init__(self, point, crs, metres, normalised):
        self.point, self.crs, self.distance_metres, self.distance_normalised = point, crs, metres, normalised


class _PathLine:
    """the transect path: a geometry term with LineString.project(point, normalized=True) as an uninterpreted position"""
    _pyvc_model_class = True

    def __init__(self, z):
        self.z = z

    def project(self, point, normalized=False):
        c = core.ctx()
        f = c._shp_fns.setdefault('line_project', z3.Function('line_project', core.GeomSort, core.GeomSort, z3.RealSort()))
        c.event('line.project', point, normalized)
        if not normalized:
            raise core.Unsupported('LineString.project without normalized=True')
        return SFloat(FIN, mk_real(f(self.z, point.z)))


class _CRSModule:
    """cartopy.crs as far as Transect uses it: AzimuthalEquidistant(central_longitude, central_latitude, globe) is a projection determined by
    its centre; project_geometry / distance are terms (what they are numerically is cartopy's business, bounded natively)"""
    _pyvc_model_class = True

    class _AE:
        _pyvc_model_class = True

        def __init__(self, lon, lat, globe):
            self.lon, self.lat, self.globe = lon, lat, globe

        def project_geometry(self, geom, src_crs=None):
            c = core.ctx()
            f = c._shp_fns.setdefault('ae_project', z3.Function('ae_project', z3.RealSort(), z3.RealSort(), core.GeomSort, core.GeomSort))
            if not hasattr(geom, 'z'):
                raise core.Unsupported('project_geometry of something that is not a geometry')
            c.event('project_geometry', self, geom, src_crs)
            num = lambda v: core.zreal(v.val if hasattr(v, 'val') else v)
            return _Projected(f(num(self.lon), num(self.lat), geom.z))

    @staticmethod
    def AzimuthalEquidistant(central_longitude=None, central_latitude=None, globe=None, **kw):
        if kw:
            raise core.Unsupported(f'AzimuthalEquidistant options {sorted(kw)}')
        return _CRSModule._AE(central_longitude, central_latitude, globe)


class _VertexLine:
    """the path as a LineString with symbolically many vertices: coords[j] is vertex j, project(point, normalized=True) a term"""
    _pyvc_model_class = True

    def __init__(self, c, npts):
        from pyvc.lib.shapely_ import CoordTok
        self.z = z3.Const('path', core.GeomSort)
        self.vert = c.fresh_fn('vertex', z3.IntSort(), core.GeomSort)
        self.npts = npts
        self.coords = SymSeq(npts, lambda j: CoordTok(self.vert(zint(j)), self, j), 'list')

    def project(self, point, normalized=False):
        c = core.ctx()
        f = c._shp_fns.setdefault('line_project', z3.Function('line_project', core.GeomSort, core.GeomSort, z3.RealSort()))
        if not normalized or not hasattr(point, 'z'):
            raise core.Unsupported('LineString.project other than (point, normalized=True)')
        return SFloat(FIN, mk_real(f(self.z, point.z)))


class _PointList:
    """the list `points` after some iterations, described by the invariant: only its last element is ever read, and it is appended to"""
    _pyvc_model_class = True

    def __init__(self, length, last):
        self.length, self.last = length, last
        self.appended = []

    def _getitem(self, idx):
        if idx == -1 and not self.appended:
            return self.last
        raise core.Unsupported('the invariant of Transect.points describes points[-1] only')

    def append(self, x):
        self.appended.append(x)


def scn_points(c):
    """Transect.points (real body; loop invariant): vertex j of the path gets the point itself, the azimuthal equidistant projection centred
    on it, distance_normalised = line.project(point, normalized=True) (0 for the first), and distance_metres(j) = distance_metres(j - 1) +
    the planar distance, in the projection of vertex j - 1, between the projections of vertex j - 1 and vertex j (0 for the first)."""
    from pyvc.api import LoopSpec, loop_invariant
    from pyvc.lib.shapely_ import AbsGeom, _fn
    it, ds, conv, conv_name, fdims, nk = _setup(c, 0, [])
    _fn('pred_intersects', core.GeomSort, core.GeomSort, z3.BoolSort())
    npts = sym_size(c, 'npts', 2)
    line = _VertexLine(c, npts)
    it.module('emsarray.transect').env['crs'] = _CRSModule
    T = cls(it, 'emsarray.transect', 'Transect')
    TP = cls(it, 'emsarray.transect', 'TransectPoint')
    tr = expect_ok(c, 'Transect(dataset, line)', lambda: it.instantiate(T, [ds, line], {'depth': 'zc'}))
    px = c.fresh_fn('point_x', core.GeomSort, z3.RealSort())
    py = c.fresh_fn('point_y', core.GeomSort, z3.RealSort())
    AbsGeom.x = property(lambda self: SFloat(FIN, mk_real(px(self.z))))
    AbsGeom.y = property(lambda self: SFloat(FIN, mk_real(py(self.z))))
    M = c.fresh_fn('metres', z3.IntSort(), z3.RealSort())         # ghost: the specified accumulated distance

    def proj(j, g):           # projection centred on vertex j applied to geometry term g
        f = c._shp_fns.setdefault('ae_project', z3.Function('ae_project', z3.RealSort(), z3.RealSort(), core.GeomSort, core.GeomSort))
        return f(px(line.vert(j)), py(line.vert(j)), g)

    def leg(j):               # planar distance between vertex j and vertex j + 1 in the projection centred on vertex j
        d = c._shp_fns.setdefault('planar_distance', z3.Function('planar_distance', core.GeomSort, core.GeomSort, z3.RealSort()))
        return d(proj(j, line.vert(j)), proj(j, line.vert(j + 1)))

    def spec_point(j):        # the element the invariant prescribes for vertex j
        p = AbsGeom(line.vert(zint(j)), fixed_kind='Point')
        return it.instantiate(TP, [], {'point': p, 'crs': _CRSModule._AE(p.x, p.y, None), 'distance_metres': SFloat(FIN, mk_real(M(zint(j)))),
                                       'distance_normalised': SFloat(FIN, mk_real(c._shp_fns['line_project'](line.z, line.vert(zint(j)))))})

    def matches(el, j, what):
        a = el.attrs
        jz = zint(j)
        ok = hasattr(a.get('point'), 'z') and isinstance(a.get('crs'), _CRSModule._AE)
        c.check(f'{what}: a TransectPoint holding a point and an azimuthal equidistant projection', ok)
        if not ok:
            raise PathEnd()
        c.check(f'{what}: the point is vertex j of the path', mk_bool(a['point'].z == line.vert(jz)))
        c.check(f'{what}: its projection is centred on the vertex itself', mk_bool(z3.And(core.zreal(a['crs'].lon.val) == px(line.vert(jz)),
                                                                                           core.zreal(a['crs'].lat.val) == py(line.vert(jz)))))
        return a

    f = c._shp_fns.setdefault('line_project', z3.Function('line_project', core.GeomSort, core.GeomSort, z3.RealSort()))
    state = {}

    def init(env):
        pts = env.lookup('points')
        ok = isinstance(pts, list) and len(pts) == 1
        c.check('before the loop: the list holds exactly the first vertex', ok)
        if not ok:
            raise PathEnd()
        a = matches(pts[0], 0, 'first vertex')
        c.check('first vertex: accumulated distance 0 and normalised distance 0', a.get('distance_metres') == 0 and a.get('distance_normalised') == 0)
        c.assume(M(0) == 0)                       # definition of the ghost function M, base case

    def havoc(env, k):
        c.assume(M(zint(k) + 1) == M(zint(k)) + leg(zint(k)))        # definition of M, step case, at the arbitrary k
        last = spec_point(k)
        if True:
            # vertex 0 is recorded with the integer 0, not a float: both denote the same numbers
            pass
        state['list'] = env.vars['points'] = _PointList(mk_int(zint(k) + 1), last)
        env.vars.pop('previous', None)

    def step(env, k):
        lst = state['list']
        c.check('an iteration appends exactly one element', len(lst.appended) == 1 and env.lookup('points') is lst)
        if len(lst.appended) != 1:
            raise PathEnd()
        a = matches(lst.appended[0], mk_int(zint(k) + 1), 'vertex k + 1')
        c.check('vertex k + 1: normalised distance = line.project(vertex, normalized=True)',
                hasattr(a.get('distance_normalised'), 'val') and mk_bool(core.zreal(a['distance_normalised'].val) == f(line.z, line.vert(zint(k) + 1))))
        c.check('vertex k + 1: accumulated distance = that of vertex k + the planar distance between the projections of vertex k and vertex k + 1 in the '
                'projection centred on vertex k, both projected from the CRS of the data',
                hasattr(a.get('distance_metres'), 'val') and mk_bool(core.zreal(a['distance_metres'].val) == M(zint(k) + 1)))
        evs = [e for e in c.events if e[0] == 'project_geometry']
        c.check('exactly the two vertices are projected, from the CRS of the data', len(evs) >= 2 and all(getattr(e[3], '_path', None) == 'cartopy.crs.PlateCarree()' for e in evs))

    def final(env, n):
        nn = mk_int(zint(n) + 1)
        env.vars['points'] = SymSeq(nn, lambda j: spec_point(j), 'list')

    func = it.class_attr(T, 'points')[1]
    loop_invariant(it, func, 'for point in map(shapely.Point, self.line.coords[1:])', LoopSpec(init, havoc, step, final))
    res = expect_ok(c, 'Transect.points returns', lambda: it.getattr(tr, 'points'))
    c.check('one element per vertex of the path', hasattr(res, 'length') and s_eq(res.length, npts))


def scn_distance_along_line(c):
    """distance_along_line(point) = accumulated distance of the last path vertex at or before the point + the planar distance, in that
    vertex's own projection, between the projected vertex and the projected point; ValueError outside the path."""
    from pyvc.lib.shapely_ import AbsGeom, _fn
    it, ds, conv, conv_name, fdims, nk = _setup(c, 0, [])
    _fn('pred_intersects', core.GeomSort, core.GeomSort, z3.BoolSort())      # creates the function table of this path
    line = _PathLine(z3.Const('path', core.GeomSort))
    npts = sym_size(c, 'npts', 2)
    vert = c.fresh_fn('vertex', z3.IntSort(), core.GeomSort)
    M = c.fresh_fn('vertex_metres', z3.IntSort(), z3.RealSort())
    N = c.fresh_fn('vertex_normalised', z3.IntSort(), z3.RealSort())
    c.assume(N(0) == 0)         # contract of Transect.points: the first vertex is at 0 (real body: distance_normalised=0)

    def at(k):
        return _TPoint(AbsGeom(vert(zint(k)), fixed_kind='Point'), _CRS(c, k), SFloat(FIN, mk_real(M(zint(k)))), SFloat(FIN, mk_real(N(zint(k)))))
    pts = SymSeq(npts, at, 'list')
    it.contracts[('emsarray.transect', 'Transect.points')] = Contract('emsarray.transect', 'Transect.points', post=lambda it_, a: pts,
                                                                      verified_by='bounded native (C18 transect)')
    T = cls(it, 'emsarray.transect', 'Transect')
    tr = expect_ok(c, 'Transect(dataset, line)', lambda: it.instantiate(T, [ds, line], {'depth': 'zc'}))
    p = AbsGeom(z3.Const('query_point', core.GeomSort), fixed_kind='Point')
    out = outcome(lambda: method(it, tr, 'distance_along_line', p))
    pos = c._shp_fns['line_project'](line.z, p.z)
    if out[0] == 'raise':
        for sel in getattr(c, 'selections', []):
            sel.nonempty_iff(mk_int(zint(npts) - 1))      # ghost: vertex 0 (last in reversed order) qualifies whenever 0 <= position
        c.check('an error only for a point that does not project onto the path (position outside [0, 1]): ValueError',
                exc_matches(out[1], ValueError) and mk_bool(z3.Or(pos < 0, pos > 1)))
        return
    c.check('a result only for positions within [0, 1]', mk_bool(z3.And(pos >= 0, pos <= 1)))
    res = out[1]
    proj = c._shp_fns['crs_project']
    dist = c._shp_fns['planar_distance']
    v = c.fresh_int('v')
    c.assume(v >= 0)
    c.assume(v < npts)
    c.assume(N(v.z) <= pos)
    want = M(v.z) + dist(proj(v.z, vert(v.z)), proj(v.z, p.z))
    c.check("= the accumulated distance of the last vertex at or before the point + the distance from that vertex, both projected in that vertex's own "
            'projection (measured from where the vertex lands, not from the origin)',
            _forall_later(c, npts, N, pos, v, mk_bool(core.zreal(res.val) == want)))
    evs = [e for e in c.events if e[0] == 'project_geometry']
    c.check('both geometries are projected from the CRS of the data', len(evs) == 2 and all(getattr(e[3], '_path', None) == 'cartopy.crs.PlateCarree()' for e in evs))


def _forall_later(c, npts, N, pos, v, goal):
    """goal under the hypothesis that v is the LAST vertex with N(v) <= pos.  Ghost steps: the hypothesis "no later vertex qualifies" is
    instantiated at the vertex k* the code picked, and the selection theory of the code's lazy search (first hit in reversed order) is
    instantiated at v (rank of v, then the order of ranks)."""
    ks = [e[1] for e in c.events if e[0] == 'project_geometry']
    sels = getattr(c, 'selections', [])
    if not ks or not sels:
        return False
    k = ks[0]
    sel = sels[-1]
    r = sel.rank(mk_int(zint(npts) - 1 - v.z))
    sel.sel(r)
    return s_implies(mk_bool(z3.Implies(z3.And(zint(k) > v.z, zint(k) < zint(npts)), N(zint(k)) > pos)), goal)


def _no_hits(c, polys, line):
    from pyvc.lib.shapely_ import _fn
    pred = _fn('pred_intersects', core.GeomSort, core.GeomSort, z3.BoolSort())
    n = c.fresh_int('anycell')
    c.assume(n >= 0)
    c.assume(n < polys.shape[0])
    res = getattr(c, 'strtree_results', [])
    if len(res) != 1:
        return False
    res[0].position_fn(n)        # ghost: instantiate "a member has a position below the count" at the arbitrary cell
    return mk_bool(z3.Or(polys.hole(n.z), z3.Not(pred(line.z, polys.poly(n.z)))))


def _same_index(conv_name, got, comps):
    comps = tuple(comps)
    if conv_name in ('CFGrid1D', 'CFGrid2D'):
        return isinstance(got, tuple) and len(got) == len(comps) and s_and(*[s_eq(g, w) for g, w in zip(got, comps)])
    if not (isinstance(got, tuple) and len(got) == len(comps) + 1):
        return False
    kind = got[0]
    return getattr(kind, 'name', None) in ('face',) and s_and(*[s_eq(g, w) for g, w in zip(got[1:], comps)])


NATIVE = {'': 'transect'}
