"""C06 -- cell polygons and dataset extent are faithful to the dataset's coordinates.

Under contract (real bodies): CFGrid1DTopology._get_or_make_bounds / latitude_bounds / longitude_bounds,
CFGrid2DTopology._get_or_make_bounds, ShocSimple.topology, CFGrid1D/CFGrid2D/ArakawaC/UGrid._make_polygons,
utils.make_polygons_with_holes, Convention.polygons / mask, CFGrid.bounds, UGrid.bounds,
Mesh2DTopology.{node_x, node_y, face_node_array, _to_index_array, ...}.
Every obligation is stated at a Skolem cell n (all extents symbolic): which coordinates the polygon stored at slot n is
built from, in which order, and when the slot is empty.
"""
from __future__ import annotations

import z3

from contracts import inputs
from pyvc import core
from pyvc.api import (PathEnd, SFloat, attr, call, cls, expect_ok, expect_raise, fn, method, mk_bool, mk_int, new_interp,
                      outcome, s_and, s_eq, s_implies, s_ite, s_not, s_or, sym_array, sym_size, truthy, zbool, zint)
from pyvc.core import Maybe, resolve_maybe
from pyvc.lib.floats import to_sfloat
from pyvc.lib.shapely_ import PolyRef

PROPERTY = 'C06'

GRID_CONFIGS = [
    ('CFGrid1D given bounds', 'CFGrid1D', {'bounds': True, 'coord_kind': 'floatnan'}),
    ('CFGrid1D given bounds held as coordinates', 'CFGrid1D', {'bounds': 'coords', 'coord_kind': 'floatnan'}),
    ('CFGrid1D plain variables, given bounds', 'CFGrid1D', {'bounds': True, 'as_coords': False, 'coord_kind': 'floatnan'}),
    ('CFGrid1D midpoints', 'CFGrid1D', {'min_size': 2}),
    ('CFGrid2D given bounds', 'CFGrid2D', {'bounds': True}),
    ('CFGrid2D given bounds held as coordinates', 'CFGrid2D', {'bounds': 'coords'}),
    ('CFGrid2D plain variables, given bounds', 'CFGrid2D', {'bounds': True, 'as_coords': False}),
    ('ShocSimple given bounds', 'ShocSimple', {'bounds': True}),
    ('ShocSimple with a plain (j,i) variable first', 'ShocSimple', {'bounds': True, 'first_var': ('botz', ('j', 'i'), {'long_name': 'depth'})}),
    ('ShocStandard', 'ShocStandard', {}),
    ('ShocStandard plain variables', 'ShocStandard', {'as_coords': False}),
    # no stored bounds: the corners are made from the centres (spec function _synth_spec)
    ('CFGrid2D corners made from the centres', 'CFGrid2D', {}),
    ('CFGrid2D corners made from the centres, longitude stored (x, y)', 'CFGrid2D', {'lon_transposed': True}),
    ('ShocSimple corners made from the centres', 'ShocSimple', {}),
    ('ShocStandard, node longitude stored (i, j)', 'ShocStandard', {'x_transposed': ('node',)}),
]


MESH_CONFIGS = [
    ('0-based, int with _FillValue, max 4', {'maxn': 4, 'fill': 'int_fill', 'start_index': 0}),
    ('1-based, int with _FillValue, max 4', {'maxn': 4, 'fill': 'int_fill', 'start_index': 1}),
    ('0-based, float NaN, max 4', {'maxn': 4, 'fill': 'nan', 'start_index': 0}),
    ('1-based, float NaN, max 5', {'maxn': 5, 'fill': 'nan', 'start_index': 1}),
    ('no start_index attribute, no fill needed, max 3', {'maxn': 3, 'fill': 'none', 'start_index': None}),
    ('1-based, no fill needed, max 4', {'maxn': 4, 'fill': 'none', 'start_index': 1}),
    ('transposed, 1-based, int with _FillValue, max 4', {'maxn': 4, 'fill': 'int_fill', 'start_index': 1, 'transposed': True}),
    ('transposed, float NaN, max 4', {'maxn': 4, 'fill': 'nan', 'start_index': 0, 'transposed': True}),
    ('node coordinates held as xarray coordinates', {'maxn': 4, 'fill': 'int_fill', 'start_index': 0, 'coords_as': 'coords'}),
    ('mixed up to hexagons, with edges', {'maxn': 6, 'fill': 'int_fill', 'start_index': 0, 'edges': 'both'}),
    ('latitude listed before longitude in node_coordinates (CF attributes say so)', {'maxn': 4, 'fill': 'int_fill', 'start_index': 0, 'latitude_first': True, 'face_coords': True}),
]


def scenarios(tier):
    out = []
    for gi, g in enumerate(GRID_CONFIGS):
        out.append({'name': f'polygons[{g[0]}]', 'fn': 'scn_grid_polygons', 'kwargs': {'gi': gi}})
        if 'made from the centres' not in g[0]:      # validity handling sits on top of _make_polygons, whatever the corners come from
            out.append({'name': f'validity[{g[0]}]', 'fn': 'scn_validity', 'kwargs': {'gi': gi}})
    for mi, m in enumerate(MESH_CONFIGS):
        out.append({'name': f'polygons[UGRID {m[0]}]', 'fn': 'scn_mesh_polygons', 'kwargs': {'mi': mi}})
    for bd in ('yx4', 'xy4', 'yx3', '4yx'):
        out.append({'name': f'CFGrid2D stored bounds are used only when they are on the grid of the coordinate[bounds dims {bd}]', 'fn': 'scn_bounds_lookup', 'kwargs': {'bd': bd}})
    for lt, ac in ((False, True), (True, True), (True, False)):
        out.append({'name': f'CFGrid2D corners made from the centres[longitude stored (x, y)={lt}, coordinates={ac}]', 'fn': 'scn_synth_corners',
                    'kwargs': {'lon_transposed': lt, 'as_coords': ac}})
    for gi, g in enumerate(GRID_CONFIGS):
        if g[1] in ('CFGrid1D', 'CFGrid2D', 'ShocSimple'):
            out.append({'name': f'extent covers every cell[{g[0]}]', 'fn': 'scn_extent_grid', 'kwargs': {'gi': gi}})
    for mi in (0, 3, 8):
        out.append({'name': f'extent covers every face[UGRID {MESH_CONFIGS[mi][0]}]', 'fn': 'scn_extent_mesh', 'kwargs': {'mi': mi}})
    out.append({'name': 'extent = bounding box of the union of the masked polygons[ShocStandard, no shortcut]', 'fn': 'scn_extent_inherited', 'kwargs': {'conv_name': 'ShocStandard'}})
    for conv in ('CFGrid2D', 'ShocSimple', 'UGrid'):       # CFGrid1D has its own shortcut: the box of its bounds (axis-aligned grid without holes)
        out.append({'name': f'overall geometry = union of the masked polygons[{conv}]', 'fn': 'scn_extent_inherited', 'kwargs': {'conv_name': conv, 'check_bounds': False}})
    for conv, kw in (('CFGrid2D', {}), ('ShocSimple', {}), ('CFGrid2D', {'as_coords': False}), ('CFGrid1D', {'min_size': 2}), ('CFGrid2D', {'bounds': True}), ('ShocStandard', {})):
        out.append({'name': f'making polygons / extent does not modify the dataset[{conv} {kw}]', 'fn': 'scn_frame', 'kwargs': {'conv': conv, 'kw': kw}})
    return out


def _is_none(x):
    if x is None:
        return True
    if isinstance(x, Maybe):
        return x.none
    return False


def _value(x):
    return x.val if isinstance(x, Maybe) else x


def _same(a, b):
    return to_sfloat(a).same_bits(b)


def _finite(*vals):
    return s_and(*[to_sfloat(v).is_fin() for v in vals])


def _cell(c, ny, nx):
    j, i = c.fresh_int('j'), c.fresh_int('i')
    c.assume(j >= 0)
    c.assume(j < ny)
    c.assume(i >= 0)
    c.assume(i < nx)
    return j, i


def _expected_corners(c, it, ds, conv_name, kw, j, i):
    """the four (x, y) corner coordinates the dataset describes for cell (j, i), in polygon order"""
    V = ds._vars
    if conv_name == 'CFGrid1D':
        if kw.get('bounds'):
            lb, nb = V['lat_bnds'].arr, V['lon_bnds'].arr
            lo = lambda k: nb.fn((i, k))
            la = lambda k: lb.fn((j, k))
        else:
            lat, lon = V['lat'].arr, V['lon'].arr
            ny, nx = ds.info['ny'], ds.info['nx']

            def mids(arr, n, k):
                # m_0 = v_0 - (v_1 - v_0)/2 ; m_k = (v_{k-1} + v_k)/2 ; m_n = v_{n-1} + (v_{n-1} - v_{n-2})/2
                v = lambda q: to_sfloat(arr.fn((q,)))
                first = v(0) - (v(1) - v(0)) / 2
                last = v(n - 1) + (v(n - 1) - v(n - 2)) / 2
                mid = (v(k - 1) + v(k)) / 2
                kind = s_ite(s_eq(k, 0), first.kind, s_ite(s_eq(k, n), last.kind, mid.kind))
                val = s_ite(s_eq(k, 0), first.val, s_ite(s_eq(k, n), last.val, mid.val))
                return SFloat(kind, val)
            lo = lambda k: mids(lon, nx, i + k)
            la = lambda k: mids(lat, ny, j + k)
        return [(lo(0), la(0)), (lo(1), la(0)), (lo(1), la(1)), (lo(0), la(1))]
    if conv_name in ('CFGrid2D', 'ShocSimple') and not kw.get('bounds'):
        lo, la = _synth_spec(ds, ds.info['lon'], bool(kw.get('lon_transposed'))), _synth_spec(ds, ds.info['lat'], False)
        return [(lo(j, i, k), la(j, i, k)) for k in range(4)]
    if conv_name in ('CFGrid2D', 'ShocSimple'):
        lb, nb = V['lat_bnds'].arr, V['lon_bnds'].arr
        return [(nb.fn((j, i, k)), lb.fn((j, i, k))) for k in range(4)]
    if conv_name == 'ShocStandard':
        gx, gy = V['x_grid'].arr, V['y_grid'].arr
        xt = 'node' in kw.get('x_transposed', ())
        return [(gx.fn((i + di, j + dj) if xt else (j + dj, i + di)), gy.fn((j + dj, i + di))) for dj, di in ((0, 0), (0, 1), (1, 1), (1, 0))]
    raise ValueError(conv_name)


def _rowmajor_lemma(c, j, i, nx):
    """(j*nx + i) div nx == j and mod nx == i for 0 <= i < nx: proved on its own, then available to the other queries"""
    n = zint(j) * zint(nx) + zint(i)
    lemma = z3.And(n / zint(nx) == zint(j), n % zint(nx) == zint(i))
    c.check('lemma: row-major index arithmetic (div / mod recover the cell)', mk_bool(lemma))
    c.assume(lemma)


def scn_grid_polygons(c, gi):
    name, conv_name, kw = GRID_CONFIGS[gi]
    it = new_interp()
    ds, conv = inputs.make_convention(it, c, conv_name, **kw)
    ny, nx = ds.info['shape']['face']
    size = ny * nx
    raw = expect_ok(c, '_make_polygons returns whichever way the coordinate variables are held', lambda: method(it, conv, '_make_polygons'))
    c.check('one slot per cell of the face grid (holes keep their slot)', len(raw.shape) == 1 and s_eq(raw.shape[0], size))
    j, i = _cell(c, ny, nx)
    n = j * nx + i
    _rowmajor_lemma(c, j, i, nx)
    corners = _expected_corners(c, it, ds, conv_name, kw, j, i)
    flat = [v for xy in corners for v in xy]
    complete = _finite(*flat)
    slot = raw.at((n,))
    c.check('a cell with a missing (non-finite) coordinate has no polygon; a complete cell has one',
            s_eq(truthy(_is_none(slot)), s_not(complete)))
    if truthy(_is_none(slot)) is True:
        return
    g = _value(slot)
    if not isinstance(g, PolyRef):
        c.fail('slot holds a polygon built by shapely.polygons', note=repr(g))
        return
    c.check('the polygon at slot n has four vertices', g.nverts == 4)
    for k, (ex, ey) in enumerate(corners):
        x, y = g.vertex(k)
        c.check(f'vertex {k} of the polygon at slot n is corner {k} of cell n itself (x)', s_implies(complete, _same(x, ex)))
        c.check(f'vertex {k} of the polygon at slot n is corner {k} of cell n itself (y)', s_implies(complete, _same(y, ey)))


def scn_validity(c, gi):
    """Convention.polygons / mask (on top of _make_polygons): a slot is empty iff the cell is incomplete or its
    polygon is invalid; invalid polygons are dropped with a warning; the array is read-only; mask agrees."""
    name, conv_name, kw = GRID_CONFIGS[gi]
    it = new_interp()
    ds, conv = inputs.make_convention(it, c, conv_name, **kw)
    ny, nx = ds.info['shape']['face']
    size = ny * nx
    polys = expect_ok(c, 'polygons returns', lambda: attr(it, conv, 'polygons'))
    c.check('polygons keeps one slot per cell', len(polys.shape) == 1 and s_eq(polys.shape[0], size))
    c.check('the polygon array is read-only', polys.writeable is False)
    is_valid = core.ctx()._shp_fns.get('is_valid')
    if is_valid is None:
        c.fail('validity of every polygon is checked', note='shapely.is_valid was not called')
        return
    j, i = _cell(c, ny, nx)
    n = j * nx + i
    _rowmajor_lemma(c, j, i, nx)
    for sel in getattr(c, 'selections', []):
        sel.nonempty_iff(n)
    corners = _expected_corners(c, it, ds, conv_name, kw, j, i)
    complete = _finite(*[v for xy in corners for v in xy])
    fin = polys.at((n,))
    fin_none = truthy(_is_none(fin))
    g = _value(fin)
    warned = [e for e in c.events if e[0] == 'warning' and e[1] == 'InvalidPolygonWarning']
    c.check('at most one InvalidPolygonWarning', len(warned) <= 1)
    if not isinstance(g, PolyRef):
        c.check('a slot without any polygon belongs to an incomplete cell', s_implies(fin_none, s_not(complete)))
    else:
        valid = mk_bool(is_valid(g.term))
        c.check('a cell has a polygon iff its coordinates are complete and its outline is valid (self-intersecting cells are dropped)',
                s_eq(s_not(fin_none), s_and(complete, valid)))
        for k, (ex, ey) in enumerate(corners):
            x, y = g.vertex(k)
            c.check(f'vertex {k} of a kept polygon is corner {k} of its own cell', s_implies(s_not(fin_none), s_and(_same(x, ex), _same(y, ey))))
        c.check('dropping an invalid polygon is announced with InvalidPolygonWarning',
                s_implies(s_and(complete, s_not(valid)), len(warned) == 1))
    mask = expect_ok(c, 'mask returns', lambda: attr(it, conv, 'mask'))
    c.check('mask has one entry per cell', len(mask.shape) == 1 and s_eq(mask.shape[0], size))
    c.check('mask[n] says whether cell n has a polygon', s_eq(truthy(mask.at((n,))), s_not(fin_none)))


def scn_mesh_polygons(c, mi):
    name, kw = MESH_CONFIGS[mi]
    from contracts.ugrid import FILL_KEY
    it = new_interp(use=[FILL_KEY])
    ds, conv = inputs.make_convention(it, c, 'UGridMesh', **kw)
    nface, nnode, maxn = ds.info['nface'], ds.info['nnode'], ds.info['maxn']
    f = c.fresh_int('f')
    c.assume(f >= 0)
    c.assume(f < nface)
    cnt = ds.info['mesh_count'](f)
    for v in range(3, maxn + 1):         # case split on the size of the face under observation
        if core.truth(s_eq(cnt, v)):
            cnt = v
            break
    raw = expect_ok(c, '_make_polygons returns for every encoding of the mesh (and wherever the coordinate variables are held)',
                    lambda: method(it, conv, '_make_polygons'))
    c.check('one slot per face', len(raw.shape) == 1 and s_eq(raw.shape[0], nface))
    # tell the "which face sizes occur" existentials about this face
    for q, o in getattr(c, 'quantifiers', []):
        q.instantiate(o, (f,))
    slot = raw.at((f,))
    V = ds._vars
    nodes = [ds.info['mesh_node'](f, k) for k in range(maxn)]
    xs = [V['node_x'].arr.fn((nodes[k],)) for k in range(maxn)]
    ys = [V['node_y'].arr.fn((nodes[k],)) for k in range(maxn)]
    c.check('every face gets a polygon from _make_polygons (faces are never skipped)', s_not(truthy(_is_none(slot))))
    g = _value(slot)
    if not isinstance(g, PolyRef):
        return
    c.check("the polygon has as many vertices as the face has nodes", s_eq(g.nverts, cnt))
    for k in range(maxn):
        if isinstance(g.nverts, int) and k >= g.nverts:
            break
        x, y = g.vertex(k)
        c.check(f'vertex {k} of the polygon of face f is node {k} of that face in the listed order (after index-base and fill normalisation)',
                s_implies(mk_bool(zint(cnt) > k), s_and(_same(x, xs[k]), _same(y, ys[k]))))


NATIVE = {'': 'polygons'}


def scn_bounds_lookup(c, bd):
    """CFGrid2DTopology._get_or_make_bounds: the variable named by the `bounds` attribute is used as given exactly when it has the
    dimensions (y, x, 4 corners) of the coordinate; anything else (grid dimensions the other way round, 3 corners, corners first) is
    reported and NOT used positionally -- the corners are then made from the centres, on the coordinate's own grid."""
    it = new_interp()
    ds, conv = inputs.make_convention(it, c, 'CFGrid2D', bounds=True, bounds_dims=bd)
    c.assume(ds.info['ny'] != ds.info['nx'])          # non-square: a transposed table cannot fit by accident
    topo = expect_ok(c, 'topology', lambda: it.getattr(conv, 'topology'))
    for coord, bname in (('longitude', 'lon_bnds'), ('latitude', 'lat_bnds')):
        n0 = len(c.events)
        b = expect_ok(c, f'_get_or_make_bounds({coord})', lambda: it.call(it.getattr(topo, '_get_or_make_bounds'), [it.getattr(topo, coord)], {}))
        warned = any(e[0] == 'warning' for e in c.events[n0:])
        stored = ds._vars[bname]
        c.check(f'{coord}: the result is on the grid of the coordinate: (y, x, corners)', b.variable.dims[:2] == ('j', 'i') and len(b.variable.dims) == 3)
        if bd == 'yx4':
            c.check(f'{coord}: stored bounds on the right dimensions are used as given, silently', b.variable.arr is stored.arr and not warned)
        else:
            c.check(f'{coord}: stored bounds on other dimensions are not used', b.variable.arr is not stored.arr)
            c.check(f'{coord}: ... and a warning says so', warned)


def _synth_spec(ds, vname, swapped):
    """Spec function for the corners CFGrid2DTopology makes from the centres, stated over the GRID (cell (j, i) of the (y, x) grid, whichever
    way the coordinate variable stores its two dimensions):
      usable(j, i) = centre (j, i) is not NaN and is not enclosed by NaN centres on both sides along y or along x;
      node(p, q)   = mean of the usable centres among (p-1..p, q-1..q) (NaN when there is none);
      corners of cell (j, i) = node(j, i), node(j, i+1), node(j+1, i+1), node(j+1, i), all NaN when one of them or the centre itself is NaN.
    -> corner(j, i, k)"""
    from pyvc.lib.floats import NAN, _reduce_vals
    ny, nx = ds.info['shape']['face']
    arr = ds._vars[vname].arr

    def inside(p, q):
        return mk_bool(z3.And(zint(p) >= 0, zint(p) < zint(ny), zint(q) >= 0, zint(q) < zint(nx)))

    def centre(p, q):
        return to_sfloat(arr.fn((q, p) if swapped else (p, q)))

    def isnan(p, q):        # outside the grid: not NaN (the padding used to find enclosed cells is False)
        return s_and(inside(p, q), centre(p, q).is_nan())

    def usable(p, q):       # -> the centre, or NaN
        enclosed = s_or(s_and(isnan(p - 1, q), isnan(p + 1, q)), s_and(isnan(p, q - 1), isnan(p, q + 1)))
        v = centre(p, q)
        ok = s_and(inside(p, q), s_not(enclosed))
        return SFloat(s_ite(ok, v.kind, NAN), v.val)

    def node(p, q):
        return _reduce_vals('mean', [usable(p - 1, q - 1), usable(p - 1, q), usable(p, q - 1), usable(p, q)])

    def corner(j, i, k):
        nodes = [node(j, i), node(j, i + 1), node(j + 1, i + 1), node(j + 1, i)]
        dead = s_or(centre(j, i).is_nan(), *[n_.is_nan() for n_ in nodes])
        return SFloat(s_ite(dead, NAN, nodes[k].kind), nodes[k].val)
    return corner


def scn_synth_corners(c, lon_transposed=False, as_coords=True):
    """CFGrid2DTopology._get_or_make_bounds without stored bounds, against the spec function _synth_spec."""
    it = new_interp()
    ds, conv = inputs.make_convention(it, c, 'CFGrid2D', lon_transposed=lon_transposed, as_coords=as_coords)
    ny, nx = ds.info['shape']['face']
    topo = expect_ok(c, 'topology', lambda: it.getattr(conv, 'topology'))
    j, i = _cell(c, ny, nx)
    for coord, vname, swapped in (('longitude', 'lon', lon_transposed), ('latitude', 'lat', False)):
        b = expect_ok(c, f'_get_or_make_bounds({coord})', lambda: it.call(it.getattr(topo, '_get_or_make_bounds'), [it.getattr(topo, coord)], {}))
        c.check(f'{coord}: the corners are on the grid: (y, x, 4)', tuple(b.variable.dims[:2]) == ('j', 'i') and len(b.variable.dims) == 3
                and s_eq(b.variable.arr.shape[0], ny) and s_eq(b.variable.arr.shape[1], nx) and b.variable.arr.shape[2] == 4)
        if len(b.variable.dims) != 3:
            raise PathEnd()
        corner = _synth_spec(ds, vname, swapped)
        for k in range(4):
            c.check(f'{coord}: corner {k} of cell (j, i) is the mean of the usable centres around that node of the (y, x) grid',
                    _same(b.variable.arr.fn((j, i, k)), corner(j, i, k)))


def _within(c, b, x, y, complete, what):
    x, y = to_sfloat(x), to_sfloat(y)
    c.check(f'{what}: inside the reported extent (x)', s_implies(complete, s_and(b[0].is_fin(), b[2].is_fin(), b[0].val <= x.val, x.val <= b[2].val)))
    c.check(f'{what}: inside the reported extent (y)', s_implies(complete, s_and(b[1].is_fin(), b[3].is_fin(), b[1].val <= y.val, y.val <= b[3].val)))


def scn_extent_grid(c, gi):
    """CFGrid.bounds = (min x, min y, max x, max y): every corner of every cell that has a polygon lies inside it.
    (Tightness with respect to the *kept* polygons does not hold -- known finding D10 -- and is not claimed here.)"""
    name, conv_name, kw = GRID_CONFIGS[gi]
    it = new_interp()
    ds, conv = inputs.make_convention(it, c, conv_name, **kw)
    ny, nx = ds.info['shape']['face']
    b = expect_ok(c, 'bounds returns', lambda: attr(it, conv, 'bounds'))
    c.check('four numbers: min x, min y, max x, max y', isinstance(b, tuple) and len(b) == 4 and all(hasattr(v, 'bound') for v in b))
    if not (isinstance(b, tuple) and len(b) == 4 and all(hasattr(v, 'bound') for v in b)):
        raise PathEnd()
    j, i = _cell(c, ny, nx)
    corners = _expected_corners(c, it, ds, conv_name, kw, j, i)
    complete = _finite(*[v for xy in corners for v in xy])
    # ghost: the minimum / maximum is below / above the entries of the reduced arrays that make up cell (j, i)
    if conv_name == 'CFGrid1D':
        for e in (0, 1):
            b[0].bound((i, e)), b[2].bound((i, e)), b[1].bound((j, e)), b[3].bound((j, e))
    else:
        for e in range(4):
            for v in b:
                v.bound((j, i, e))
    for k, (ex, ey) in enumerate(corners):
        _within(c, b, ex, ey, complete, f'corner {k} of a cell that has a polygon')


def scn_extent_inherited(c, conv_name, check_bounds=True):
    """Conventions without a shortcut (Arakawa C / SHOC standard): the reported bounds are the bounding box of the overall geometry, and the
    overall geometry is the union of exactly the polygons the validity mask selects -- cells without a polygon cannot widen them."""
    from contracts import base
    from pyvc.lib.shapely_ import BoundsOf, UnionOf
    it = new_interp(use=base.POLY_KEYS)
    ds, conv = inputs.make_convention(it, c, conv_name)
    polys = base.abstract_polygons(conv)
    g = expect_ok(c, 'geometry returns', lambda: attr(it, conv, 'geometry'))
    if check_bounds:
        b = expect_ok(c, 'bounds returns', lambda: attr(it, conv, 'bounds'))
        c.check('the reported bounds are the bounding box of the overall geometry itself', isinstance(b, BoundsOf) and b.geom is g)
    c.check('the overall geometry is the union of an array of polygons', isinstance(g, UnionOf) and hasattr(g.geoms, 'fn'))
    if not (isinstance(g, UnionOf) and hasattr(g.geoms, 'fn')):
        raise PathEnd()
    arr = g.geoms
    sel = getattr(arr, 'selection', None)
    c.check('the polygons united are selected from the polygon array with the validity mask', sel is not None)
    if sel is None:
        raise PathEnd()
    n = c.fresh_int('cell')
    c.assume(n >= 0)
    c.assume(n < polys.shape[0])
    c.check('a cell is part of the union iff it has a polygon', s_eq(truthy(sel.keep(n)), mk_bool(z3.Not(polys.hole(n.z)))))
    k = c.fresh_int('k')
    c.assume(k >= 0)
    c.assume(k < arr.shape[0])
    e = arr.fn((k,))
    e = core.resolve_maybe(e) if isinstance(e, core.Maybe) else e
    c.check('entry k of the united array is the polygon of the k-th cell that has one', getattr(e, 'term', None) is not None
            and mk_bool(e.term == polys.poly(zint(sel.sel(k)))))


def scn_extent_mesh(c, mi):
    name, kw = MESH_CONFIGS[mi]
    from contracts.ugrid import FILL_KEY
    it = new_interp(use=[FILL_KEY])
    ds, conv = inputs.make_convention(it, c, 'UGridMesh', **kw)
    nface, maxn = ds.info['nface'], ds.info['maxn']
    b = expect_ok(c, 'bounds returns', lambda: attr(it, conv, 'bounds'))
    c.check('four numbers: min x, min y, max x, max y', isinstance(b, tuple) and len(b) == 4 and all(hasattr(v, 'bound') for v in b))
    if not (isinstance(b, tuple) and len(b) == 4 and all(hasattr(v, 'bound') for v in b)):
        raise PathEnd()
    f, k = c.fresh_int('f'), c.fresh_int('k')
    c.assume(f >= 0)
    c.assume(f < nface)
    c.assume(k >= 0)
    c.assume(k < ds.info['mesh_count'](f))
    node = ds.info['mesh_node'](f, k)
    V = ds._vars
    x, y = V['node_x'].arr.fn((node,)), V['node_y'].arr.fn((node,))
    for v in b:
        v.bound((node,))
    _within(c, b, x, y, _finite(x, y), 'a node of a face whose coordinates are all present')


def scn_frame(c, conv, kw):
    """Synthesising bounds (also blanking cells bound by NaN on both sides), building polygons and the extent work on copies: the
    coordinate variables of the dataset keep their values."""
    from pyvc.api import check_unmodified, snapshot
    it = new_interp()
    ds, cv = inputs.make_convention(it, c, conv, **kw)
    snap = snapshot(ds)
    expect_ok(c, '_make_polygons returns', lambda: method(it, cv, '_make_polygons'))
    check_unmodified(c, ds, snap, 'the dataset (after _make_polygons)')
    if conv in ('CFGrid1D', 'CFGrid2D', 'ShocSimple'):
        expect_ok(c, 'bounds returns', lambda: attr(it, cv, 'bounds'))
        check_unmodified(c, ds, snap, 'the dataset (after bounds)')
