"""C02 -- one linear order is shared by polygons, centres, flattened data and selectors.

All obligations mention the same cell(n) (row-major, C01):
  polygons[n]      -- built from cell n's own coordinates, holes keep their slot      (real _make_polygons ..., shared with C06)
  face_centres[n]  -- the centre coordinates of cell n                                  (CFGrid1D/2D, ArakawaC, UGrid.face_centres)
  ravel(v)[.., n]  -- v at cell n                                                       (DimensionConvention.ravel, shared with C03)
  selector_for_index(wind_index(n)) -- selects cell n on every grid kind               (selector_for_indexes)
  strtree          -- built over the *full* polygon array, so hits are linear indexes   (Convention.strtree)
"""
from __future__ import annotations

import z3

from contracts import inputs
from pyvc import core
from pyvc.api import (PathEnd, attr, call, cls, expect_ok, fn, method, mk_bool, mk_int, new_interp, s_and, s_eq, s_implies,
                      s_not, sym_array, sym_size, truthy, zint)
from pyvc.lib.floats import to_sfloat
from pyvc.lib.numpy_ import unravel
from props import C03, C06

PROPERTY = 'C02'

CENTRE_CONFIGS = [
    ('CFGrid1D', {}), ('CFGrid1D', {'as_coords': False}), ('CFGrid2D', {}), ('CFGrid2D', {'as_coords': False}),
    # latitude / longitude as auxiliary 1-D coordinates that are not named after their dimensions: lat(y), lon(x)
    ('CFGrid1D', {'ydim': 'y', 'xdim': 'x'}), ('CFGrid1D', {'ydim': 'y', 'xdim': 'x', 'as_coords': False, 'detect': 'standard_name'}),
    ('CFGrid2D', {'lon_transposed': True, 'bounds': True}), ('CFGrid2D', {'lon_transposed': True}),
    ('ShocSimple', {'bounds': True}), ('ShocStandard', {}), ('ShocStandard', {'x_transposed': ('face', 'node')}),
    ('UGridMesh', {'face_coords': True, 'maxn': 4, 'fill': 'int_fill'}),
    ('UGridMesh', {'face_coords': True, 'maxn': 4, 'fill': 'int_fill', 'coords_as': 'coords'}),
    ('UGridMesh', {'face_coords': True, 'maxn': 4, 'fill': 'int_fill', 'latitude_first': True}),
]
KIND_CONFIGS = [
    ('CFGrid1D', {}, ['face']), ('CFGrid2D', {}, ['face']), ('ShocStandard', {}, ['face', 'left', 'back', 'node']),
    ('UGrid', {'edges': 'both'}, ['face', 'edge', 'node']), ('UGrid', {'edges': 'none'}, ['face', 'node']),
]


def scenarios(tier):
    out = []
    # polygons: one configuration per convention / encoding family (the full set runs under C06)
    for gi in (0, 3, 4, 8, 9, 11, 12, 14):
        out.append({'name': f'polygons[{C06.GRID_CONFIGS[gi][0]}]', 'fn': 'scn_polygons', 'kwargs': {'gi': gi}})
        if gi not in (11, 12):
            out.append({'name': f'holes keep their slot[{C06.GRID_CONFIGS[gi][0]}]', 'fn': 'scn_validity', 'kwargs': {'gi': gi}})
    for mi in (1, 3, 4, 6, 10):
        out.append({'name': f'polygons[UGRID {C06.MESH_CONFIGS[mi][0]}]', 'fn': 'scn_mesh', 'kwargs': {'mi': mi}})
    for ci, cfg in enumerate(CENTRE_CONFIGS):
        out.append({'name': f'face_centres[{cfg[0]} {cfg[1]}]', 'fn': 'scn_centres', 'kwargs': {'ci': ci}})
    for ki, (conv, kw, kinds) in enumerate(KIND_CONFIGS):
        for kind in kinds:
            out.append({'name': f'selector[{conv}.{kind}]', 'fn': 'scn_selector', 'kwargs': {'ki': ki, 'kind': kind}})
    for bd in ('yx4', 'xy4'):
        out.append({'name': f'CFGrid2D stored bounds are used only when they are on the grid of the coordinate[bounds dims {bd}]', 'fn': 'scn_bounds_lookup', 'kwargs': {'bd': bd}})
    for conv in ('CFGrid1D', 'CFGrid2D', 'ShocStandard', 'UGrid'):
        out.append({'name': f'strtree[{conv}]', 'fn': 'scn_strtree', 'kwargs': {'conv': conv}})
    # flattened data: grid dimensions in both relative orders, with an extra dimension in between
    for gi in (0, 3, 6, 7):
        for perm in C03._perms(gi, 0) + C03._perms(gi, 1)[:6]:
            out.append({'name': f'ravel[{C03.GRIDS[gi][0]}.{C03.GRIDS[gi][2]} {",".join(perm)}]', 'fn': 'scn_ravel', 'kwargs': {'gi': gi, 'perm': perm}})
    return out


def scn_polygons(c, gi):
    return C06.scn_grid_polygons(c, gi)


def scn_validity(c, gi):
    return C06.scn_validity(c, gi)


def scn_bounds_lookup(c, bd):
    return C06.scn_bounds_lookup(c, bd)


def scn_mesh(c, mi):
    return C06.scn_mesh_polygons(c, mi)


def scn_ravel(c, gi, perm):
    return C03.scn_ravel(c, gi, perm, None)


def _same(a, b):
    return to_sfloat(a).same_bits(b)


def scn_centres(c, ci):
    conv_name, kw = CENTRE_CONFIGS[ci]
    it = new_interp()
    ds, conv = inputs.make_convention(it, c, conv_name, **kw)
    shape = ds.info['shape']['face']
    size = 1
    for n_ in shape:
        size = size * n_
    cen = expect_ok(c, 'face_centres returns', lambda: attr(it, conv, 'face_centres'))
    c.check('face_centres has one (x, y) row per cell', len(cen.shape) == 2 and s_eq(cen.shape[0], size) and cen.shape[1] == 2)
    n = c.fresh_int('n')
    c.assume(n >= 0)
    c.assume(n < size)
    idx = unravel(n, tuple(shape))
    if len(shape) == 2:
        C06._rowmajor_lemma(c, idx[0], idx[1], shape[1]) if False else None
    V = ds._vars
    if conv_name == 'CFGrid1D':
        ex, ey = V['lon'].arr.fn((idx[1],)), V['lat'].arr.fn((idx[0],))
    elif conv_name == 'CFGrid2D':
        ex, ey = V['lon'].arr.fn(idx if not kw.get('lon_transposed') else (idx[1], idx[0])), V['lat'].arr.fn(idx)
    elif conv_name == 'ShocSimple':
        ex, ey = V['longitude'].arr.fn(idx), V['latitude'].arr.fn(idx)
    elif conv_name == 'ShocStandard':
        ex, ey = V['x_centre'].arr.fn((idx[1], idx[0]) if 'face' in kw.get('x_transposed', ()) else idx), V['y_centre'].arr.fn(idx)
    else:
        ex, ey = V['face_x'].arr.fn(idx), V['face_y'].arr.fn(idx)
    c.check('face centre n is the centre coordinate of cell n itself (x)', _same(cen.at((n, 0)), ex))
    c.check('face centre n is the centre coordinate of cell n itself (y)', _same(cen.at((n, 1)), ey))


def scn_selector(c, ki, kind):
    conv_name, kw, kinds = KIND_CONFIGS[ki]
    it = new_interp()
    ds, conv = inputs.make_convention(it, c, conv_name, **kw)
    km = inputs.kind_member(it, conv_name, kind)
    shape = ds.info['shape'][kind]
    dims = ds.info['dims'][kind]
    size = 1
    for n_ in shape:
        size = size * n_
    n = c.fresh_int('n')
    c.assume(n >= 0)
    c.assume(n < size)
    native = expect_ok(c, 'wind_index returns', lambda: method(it, conv, 'wind_index', n, grid_kind=km))
    sel = expect_ok(c, 'selector_for_index returns', lambda: method(it, conv, 'selector_for_index', native))
    cell = unravel(n, tuple(shape))
    c.check('the selector addresses exactly the dimensions of that grid kind', set(sel._vars) == set(dims))
    for d, k in zip(dims, cell):
        if d in sel._vars:
            v = sel._vars[d]
            c.check(f'selector[{d}] is the {d}-component of cell n', v.dims == () and s_eq(v.arr.fn(()), k))


def scn_strtree(c, conv):
    from contracts.base import POLY_KEYS
    it = new_interp(use=[POLY_KEYS[0]])        # polygons through its contract; strtree itself is the real body
    kw = {'edges': 'none'} if conv == 'UGrid' else {}
    ds, cv = inputs.make_convention(it, c, conv, **kw)
    polys = expect_ok(c, 'polygons', lambda: attr(it, cv, 'polygons'))
    n0 = len(c.events)
    tree = expect_ok(c, 'strtree returns', lambda: attr(it, cv, 'strtree'))
    built = [e for e in c.events[n0:] if e[0] == 'STRtree']
    c.check('the spatial index is built exactly once', len(built) == 1)
    if built:
        c.check('the spatial index is built over the full polygon array (holes kept as None), so hit numbers are linear indexes',
                built[0][1] is polys)


NATIVE = {'': 'one_order'}
