"""C08 stub"""
PROPERTY = 'C08'


def scenarios(tier):
    return []


NATIVE = {'': 'apply'}
